#!/bin/bash
# Build /verif/.venv: an overlay of /venv (the repository's own environment) plus
# crosshair-tool from the offline wheelhouse. Idempotent; offline.
set -e
cd "$(dirname "$0")"
V=.venv
if [ -x $V/bin/python ] && $V/bin/python -c "import crosshair, z3, unified_planning" 2>/dev/null; then
  exit 0
fi
rm -rf $V
/venv/bin/python -m venv $V
SP=$($V/bin/python -c "import sysconfig; print(sysconfig.get_paths()['purelib'])")
printf "import site; site.addsitedir('/venv/lib/python3.12/site-packages')\n/repo\n" > $SP/_base.pth
PIP_NO_INDEX=1 $V/bin/python -m pip install -q --no-index --find-links /opt/veriftools/wheels crosshair-tool >/dev/null
$V/bin/python -c "import crosshair, z3, unified_planning; assert unified_planning.__file__.startswith('/repo/')"
