"""Engine-compatibility shims (DESIGN.md section 1).  Representation changes only;
none of them lives in /repo.  Imported by the symbolic driver, never by a replay."""
import functools
import inspect
import sys
from fractions import Fraction

from crosshair.simplestructs import ShellMutableMap, SimpleDict
from crosshair.util import CrossHairInternal

APPLIED = []


def s1_partialmethods():
    from unified_planning.model.problem_kind import ProblemKind

    for name, attr in list(vars(ProblemKind).items()):
        if isinstance(attr, functools.partialmethod):
            def mk(pm, name):
                def method(self, *a, **kw):
                    return pm.func(self, *pm.args, *a, **{**pm.keywords, **kw})
                method.__name__ = name
                return method
            setattr(ProblemKind, name, mk(attr, name))
    APPLIED.append("S1 ProblemKind partialmethods rebound to plain functions (same callee, same args)")


def linear_tables(env):
    """S2: hash-consing tables become association lists compared with == (forks symbolically)."""
    env.type_manager._ints = ShellMutableMap(SimpleDict(list(env.type_manager._ints.items())))
    env.type_manager._reals = ShellMutableMap(SimpleDict(list(env.type_manager._reals.items())))
    em = env.expression_manager
    em.expressions = ShellMutableMap(SimpleDict(list(em.expressions.items())))


def s4_fraction_hash():
    Fraction.__hash__ = lambda self: 0
    APPLIED.append("S4 Fraction.__hash__ constant (valid hash; dict keys compared with ==)")


def s5_barriers():
    import unified_planning
    import unified_planning.shortcuts  # noqa: F401
    import unified_planning.engines.compilers  # noqa: F401
    import unified_planning.model.htn  # noqa: F401
    import unified_planning.model.multi_agent  # noqa: F401
    import unified_planning.model.contingent  # noqa: F401
    import unified_planning.model.scheduling  # noqa: F401

    ident = lambda self, memo: self  # noqa: E731
    for modname, mod in list(sys.modules.items()):
        if not modname.startswith("unified_planning") or mod is None:
            continue
        for name, cls in list(vars(mod).items()):
            if inspect.isclass(cls) and cls.__module__.startswith("unified_planning"):
                try:
                    cls.__ch_deep_realize__ = ident
                except (TypeError, AttributeError):
                    pass
    from unified_planning.model.fnode import FNode

    orig = FNode.__repr__

    def __repr__(self):
        try:
            return orig(self)
        except CrossHairInternal:
            return f"<expr#{self._node_id}>"

    FNode.__repr__ = __repr__
    APPLIED.append("S5 unified_planning classes are deep-copy/deep-realize barriers; FNode.__repr__ placeholder under the formatter")


_done = False


def apply_all():
    global _done
    if _done:
        return
    _done = True
    s1_partialmethods()
    s4_fraction_hash()
    s5_barriers()
    APPLIED.append("S2 per-path fresh Environment with linear-scan hash-cons tables (ctx.fresh_env)")
    APPLIED.append("S3 fresh Environment per path (determinism across re-executions)")
