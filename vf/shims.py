"""Engine-compatibility shims (DESIGN.md section 1).  Representation changes only;
none of them lives in /repo.  Imported by the symbolic driver, never by a replay."""
import functools
import inspect
import sys
from fractions import Fraction

from crosshair.simplestructs import ShellMutableMap, SimpleDict
from crosshair.util import CrossHairInternal

APPLIED = []


def s1_partialmethods():
    from unified_planning.model.problem_kind import ProblemKind

    for name, attr in list(vars(ProblemKind).items()):
        if isinstance(attr, functools.partialmethod):
            def mk(pm, name):
                def method(self, *a, **kw):
                    return pm.func(self, *pm.args, *a, **{**pm.keywords, **kw})
                method.__name__ = name
                return method
            setattr(ProblemKind, name, mk(attr, name))
    APPLIED.append("S1 ProblemKind partialmethods rebound to plain functions (same callee, same args)")


def linear_tables(env):
    """S2: hash-consing tables become association lists compared with == (forks symbolically)."""
    env.type_manager._ints = ShellMutableMap(SimpleDict(list(env.type_manager._ints.items())))
    env.type_manager._reals = ShellMutableMap(SimpleDict(list(env.type_manager._reals.items())))
    em = env.expression_manager
    em.expressions = ShellMutableMap(SimpleDict(list(em.expressions.items())))


class SynMap:
    """S2': hash-consing table keyed *syntactically*: a symbolic numeric payload is keyed by the text of its z3
    term, so a lookup never forks.  Two symbolic constants share a node iff their terms are identical; constants
    that merely *may* be equal are distinct nodes (weaker than real hash-consing, which would share them when
    the values coincide).  Used where the property does not depend on node sharing (simulator, validators,
    compilers); C16/C36/C14 use the exact association-list tables instead.  Every counterexample is replayed
    with real dict tables."""

    def __init__(self, items=()):
        self._d = {}
        for k, v in items:
            self._d[self._k(k)] = (k, v)

    @classmethod
    def _k(cls, k):
        from crosshair.tracers import NoTracing
        from fractions import Fraction as _F

        with NoTracing():
            return cls._k0(k)

    @classmethod
    def _k0(cls, k):
        from fractions import Fraction as _F

        v = getattr(k, "var", None)
        if v is not None and not isinstance(k, (bool, int, _F)):
            return ("§", type(k).__name__, v.sexpr())
        if type(k) is _F or isinstance(k, _F):
            n, d = k._numerator, k._denominator
            if hasattr(n, "var") or hasattr(d, "var"):
                return ("§F", cls._k0(n), cls._k0(d))
            return k
        if isinstance(k, tuple):
            return (type(k).__name__,) + tuple(cls._k0(x) for x in k)
        return k

    def get(self, k, default=None):
        r = self._d.get(self._k(k))
        return default if r is None else r[1]

    def __getitem__(self, k):
        return self._d[self._k(k)][1]

    def __setitem__(self, k, v):
        self._d[self._k(k)] = (k, v)

    def __contains__(self, k):
        return self._k(k) in self._d

    def __delitem__(self, k):
        del self._d[self._k(k)]

    def pop(self, k, *default):
        kk = self._k(k)
        if kk in self._d:
            return self._d.pop(kk)[1]
        if default:
            return default[0]
        raise KeyError(k)

    def __len__(self):
        return len(self._d)

    def __iter__(self):
        return iter([k for k, _ in self._d.values()])

    def items(self):
        return [(k, v) for k, v in self._d.values()]

    def keys(self):
        return [k for k, _ in self._d.values()]

    def values(self):
        return [v for _, v in self._d.values()]

    def setdefault(self, k, v):
        kk = self._k(k)
        if kk not in self._d:
            self._d[kk] = (k, v)
        return self._d[kk][1]


def syntactic_tables(env):
    env.type_manager._ints = SynMap(list(env.type_manager._ints.items()))
    env.type_manager._reals = SynMap(list(env.type_manager._reals.items()))
    em = env.expression_manager
    em.expressions = SynMap(list(em.expressions.items()))


def s4_fraction_hash():
    Fraction.__hash__ = lambda self: 0
    APPLIED.append("S4 Fraction.__hash__ constant (valid hash; dict keys compared with ==)")


def _safe_text(f, clsname):
    """repr/str of unified_planning objects are only used in messages; when CrossHair's formatter calls them
    outside tracing on an object that holds symbolic payloads, answer with a placeholder."""
    def wrapper(self):
        try:
            return f(self)
        except CrossHairInternal:
            return f"<{clsname}>"
    wrapper._vf_wrapped = True
    wrapper.__wrapped__ = f
    wrapper.__name__ = f.__name__
    return wrapper


def s5_barriers():
    import unified_planning
    import unified_planning.shortcuts  # noqa: F401
    import unified_planning.engines.compilers  # noqa: F401
    import unified_planning.model.htn  # noqa: F401
    import unified_planning.model.multi_agent  # noqa: F401
    import unified_planning.model.contingent  # noqa: F401
    import unified_planning.model.scheduling  # noqa: F401

    ident = lambda self, memo: self  # noqa: E731
    for modname, mod in list(sys.modules.items()):
        if not modname.startswith("unified_planning") or mod is None:
            continue
        for name, cls in list(vars(mod).items()):
            if inspect.isclass(cls) and cls.__module__.startswith("unified_planning"):
                try:
                    cls.__ch_deep_realize__ = ident
                    for meth in ("__repr__", "__str__"):
                        f = vars(cls).get(meth)
                        if f is not None and callable(f) and not getattr(f, "_vf_wrapped", False):
                            setattr(cls, meth, _safe_text(f, cls.__name__))
                except (TypeError, AttributeError):
                    pass
    from unified_planning.model.fnode import FNode

    orig = vars(FNode)["__repr__"]
    orig = getattr(orig, "__wrapped__", orig)
    from crosshair.tracers import NoTracing, is_tracing

    def __repr__(self):
        # the text of an expression without symbolic constants is computed natively (no tracer);
        # an expression that holds a symbolic constant prints as a placeholder unique to the node
        try:
            if is_tracing():
                with NoTracing():
                    return orig(self)
            return orig(self)
        except (CrossHairInternal, SystemError):
            return f"<expr#{self._node_id}>"

    FNode.__repr__ = __repr__
    APPLIED.append("S5 unified_planning classes are deep-copy/deep-realize barriers; FNode.__repr__ placeholder under the formatter")


_done = False


def apply_all():
    global _done
    if _done:
        return
    _done = True
    s1_partialmethods()
    s4_fraction_hash()
    s5_barriers()
    from vf import infshim

    infshim.install()
    APPLIED.append("S7 comparisons of a symbolic int with +-inf answered exactly (vf/infshim.py) instead of through the float theory")
    APPLIED.append("S2 per-path fresh Environment with linear-scan hash-cons tables (ctx.fresh_env)")
    APPLIED.append("S3 fresh Environment per path (determinism across re-executions)")
