"""Helpers shared by the C32 / C09(B) harnesses: a cheaper representation of the symbolic feature set
(E1s) and the S6 wrapper that lets the concrete, input-free `supported_kind()` builders run natively.

FastSFS is vf.sfs.SymFeatureSet with one change of representation: a bit that is already decided is kept as
a z3 literal and recognised as such, so operations against concrete sets (supported kinds, valid features)
touch only the undecided bits instead of building ~90 z3 terms each.  Semantics are those of SymFeatureSet.
"""
import builtins

import z3
from crosshair.libimpl.builtinslib import SymbolicBool, SymbolicInt
from crosshair.tracers import NoTracing

from vf.sfs import UNIV, SymFeatureSet

_T, _F = z3.BoolVal(True), z3.BoolVal(False)
_pyset = builtins.set


_TID, _FID = _T.get_id(), _F.get_id()


def _lit(t):
    """True / False for a decided bit, None for an undecided one (z3 hash-conses the two literals)."""
    if t is _T:
        return True
    if t is _F:
        return False
    i = t.get_id()
    if i == _TID:
        return True
    if i == _FID:
        return False
    return None


def _sb(e):
    lit = _lit(e)
    return SymbolicBool(e) if lit is None else lit


def _and(ts):
    out = []
    for t in ts:
        lit = _lit(t)
        if lit is False:
            return _F
        if lit is None:
            out.append(t)
    if not out:
        return _T
    return out[0] if len(out) == 1 else z3.And(out)


def _or(ts):
    out = []
    for t in ts:
        lit = _lit(t)
        if lit is True:
            return _T
        if lit is None:
            out.append(t)
    if not out:
        return _F
    return out[0] if len(out) == 1 else z3.Or(out)


def _not(t):
    lit = _lit(t)
    if lit is None:
        return z3.Not(t)
    return _F if lit else _T


class FastSFS(SymFeatureSet):
    @classmethod
    def of(cls, s):
        with NoTracing():
            return cls({f: (_T if _lit(t) is True else _F if _lit(t) is False else t) for f, t in s.bits.items()})

    def _bits_of(self, o):
        """name -> z3 term for any set-like operand."""
        if isinstance(o, SymFeatureSet):
            return o.bits
        o = _pyset(o)
        return {f: (_T if f in o else _F) for f in UNIV}

    def copy(self):
        with NoTracing():
            return FastSFS(dict(self.bits))

    def add(self, f):
        with NoTracing():
            self.bits[f] = _T

    def discard(self, f):
        with NoTracing():
            self.bits[f] = _F

    def __contains__(self, f):
        with NoTracing():
            t = self.bits.get(f, _F)
            lit = _lit(t)
            r = lit if lit is not None else SymbolicBool(t)
        return r if isinstance(r, bool) else bool(r)

    def _binop(self, o, fn):
        ob = self._bits_of(o)
        return {f: fn(self.bits[f], ob[f]) for f in UNIV}

    def update(self, o):
        with NoTracing():
            self.bits = self._binop(o, lambda a, b: _or([a, b]))

    def intersection_update(self, o):
        with NoTracing():
            self.bits = self._binop(o, lambda a, b: _and([a, b]))

    def difference_update(self, o):
        with NoTracing():
            self.bits = self._binop(o, lambda a, b: _and([a, _not(b)]))

    def intersection(self, o):
        with NoTracing():
            return FastSFS(self._binop(o, lambda a, b: _and([a, b])))

    def union(self, o):
        with NoTracing():
            return FastSFS(self._binop(o, lambda a, b: _or([a, b])))

    def difference(self, o):
        with NoTracing():
            return FastSFS(self._binop(o, lambda a, b: _and([a, _not(b)])))

    __and__ = intersection
    __or__ = union
    __sub__ = difference

    def issubset(self, o):
        with NoTracing():
            ob = self._bits_of(o)
            return _sb(_and([_or([_not(self.bits[f]), ob[f]]) for f in UNIV]))

    def issuperset(self, o):
        with NoTracing():
            ob = self._bits_of(o)
            return _sb(_and([_or([_not(ob[f]), self.bits[f]]) for f in UNIV]))

    def __le__(self, o):
        return self.issubset(o)

    def __ge__(self, o):
        return self.issuperset(o)

    def __eq__(self, o):
        with NoTracing():
            if not isinstance(o, (SymFeatureSet, _pyset, frozenset)):
                return False
            ob = self._bits_of(o)
            conj = []
            for f in UNIV:
                a, b = self.bits[f], ob[f]
                la, lb = _lit(a), _lit(b)
                if la is not None and lb is not None:
                    if la != lb:
                        return False
                    continue
                conj.append(a == b)
            return _sb(_and(conj))

    def __ne__(self, o):
        r = self.__eq__(o)
        with NoTracing():
            return (not r) if isinstance(r, bool) else SymbolicBool(z3.Not(r.var))

    __hash__ = None

    def count(self):
        with NoTracing():
            n, und = 0, []
            for t in self.bits.values():
                lit = _lit(t)
                if lit is True:
                    n += 1
                elif lit is None:
                    und.append(t)
            if not und:
                return n
            return SymbolicInt(z3.Sum([z3.If(t, 1, 0) for t in und]) + n)

    def __len__(self):
        return self.count()

    def __bool__(self):
        with NoTracing():
            r = _sb(_or(list(self.bits.values())))
        return r if isinstance(r, bool) else bool(r)

    def undecided(self):
        with NoTracing():
            return sum(1 for t in self.bits.values() if _lit(t) is None)


def inject(s, version):
    """A ProblemKind over the given (symbolic or real) feature set, state constructed directly."""
    from unified_planning.model.problem_kind import ProblemKind

    k = ProblemKind(version=version)
    k._features = s
    return k


_native_done = set()


def _native_valid_features():
    """CrossHair bypasses functools.lru_cache under tracing, so `get_valid_features(version)` (concrete int in,
    constant set out) would be rebuilt as a traced set on every comparison; run it natively instead (S6)."""
    from unified_planning.model import problem_kind as pkmod

    if getattr(pkmod.get_valid_features, "_vf_native", False):
        return
    from vf import sfs

    sfs.install()  # first: it rebinds pkmod.set, which is refined below
    orig = pkmod.get_valid_features

    def get_valid_features(version):
        with NoTracing():
            return orig(int(version))

    get_valid_features._vf_native = True
    get_valid_features.__wrapped__ = orig
    pkmod.get_valid_features = get_valid_features

    # ProblemKind.__init__ does set(features); vf.sfs already rebinds the module-level name `set` so that a symbolic
    # set stays symbolic.  For a concrete argument build the plain Python set natively (CrossHair would otherwise
    # substitute its own list-backed set emulation, ~2 ms per operation in the factory's error-table loop).
    def _set(it=()):
        if isinstance(it, SymFeatureSet):
            return it.copy()
        with NoTracing():
            if type(it) in (_pyset, frozenset, list, tuple) and all(type(x) is str for x in it):
                return _pyset(it)
        return _pyset(it)

    pkmod.set = _set


def native_supported_kinds(classes):
    """S6: `supported_kind()` takes no input and builds a constant ProblemKind; let it run natively (same function,
    no tracer) so the sets it builds are plain Python sets.  Also pre-computes the lru_cached valid-feature sets."""
    with NoTracing():
        _native_valid_features()
        for cls in classes:
            if cls in _native_done or "supported_kind" not in vars(cls):
                continue
            _native_done.add(cls)
            orig = vars(cls)["supported_kind"]
            fn = orig.__func__ if isinstance(orig, staticmethod) else orig

            def mk(fn):
                def supported_kind():
                    with NoTracing():
                        return fn()
                supported_kind.__wrapped__ = fn
                return supported_kind

            setattr(cls, "supported_kind", staticmethod(mk(fn)))
        # meta engines: `_supported_kind(engine_class)` (concrete class in, constant kind out) likewise
        for cls in classes:
            for base in cls.__mro__:
                if "_supported_kind" in vars(base) and base not in _native_done:
                    _native_done.add(base)
                    orig = vars(base)["_supported_kind"]
                    fn = orig.__func__ if isinstance(orig, staticmethod) else orig

                    def mk1(fn):
                        def _supported_kind(engine):
                            with NoTracing():
                                return fn(engine)
                        _supported_kind.__wrapped__ = fn
                        return _supported_kind

                    setattr(base, "_supported_kind", staticmethod(mk1(fn)))
