"""C09 part A: per (compiler, problem) program of vf/compfam.py, the kind of the compiled problem is contained in the kind the
compiler DECLARES for the input kind (resulting_problem_kind), and for the pipelines each next compiler supports it.
Concrete per program (direct engine); the universal statement over all kinds is part B."""
from vf import compfam, gen


def h_a_program(ctx, cname, sk):
    from unified_planning.engines.compilers import CompilersPipeline  # noqa: F401

    g = gen.build(ctx, sk)
    P = g.problem
    names = compfam.PIPELINES.get(cname, [cname])
    prob = P
    for n in names:
        cls, ck = compfam.compiler(n)
        comp = cls()
        kind_in = prob.kind
        if not comp.supports(kind_in):
            if n == names[0]:
                ctx.assume(False)
            ctx.fail(f"A:pipeline-step-unsupported:{cname}:{n}",
                     f"the problem produced by the previous compiler of the pipeline is not supported by {n}: extra features "
                     f"{sorted(kind_in.features - cls.supported_kind().features)}")
        declared = cls.resulting_problem_kind(kind_in, ck)
        res = compfam.compile_or_prune(ctx, n, prob)
        got = res.problem.kind
        ok = got <= declared
        extra = sorted(got.features - declared.features)
        ctx.check(ok, f"A:kind-not-contained:{n}:{','.join(extra[:3])}",
                  f"{n}: compiled problem's kind has features {extra} that resulting_problem_kind(input kind) does not declare")
        ctx.witness("compiled-kind-checked")
        prob = res.problem
    ctx.witness("program")
    ctx.note("program", dict(compiler=cname, skeleton=gen.describe(sk)))


def shards(tier):
    out = []
    for cname, i, sk in compfam.programs(tier):
        out.append(dict(name=f"A-{cname}-{i}", fn="h_a_program", engine="direct", kwargs=dict(cname=cname, sk=sk), budget=150))
    return out
