"""C23 The model only stores type-correct values.

Symbolic: the numeric value handed to the model-building call (solver integer v, or the
rational v/2), the bounds lo <= hi of the declared numeric type of the fluent / parameter (solver
integers), the bounds of the type of a fluent-valued effect value.  Structure by choice variables:
the declared type (Boolean, bounded / half-bounded / unbounded int, bounded real, user type T,
subtype S), the kind of value (int, rational, Boolean, objects of T / of the subtype S / of an
unrelated type U, a fluent expression of the same type, a Boolean fluent expression, a parameter,
an arithmetic expression), the call (explicit initial value, per-fluent default, per-type
default, effect value on an instantaneous action / durative action / problem timed effect,
increase effect, action-instance parameter), the calling convention of add_fluent.
Real code: Problem.__init__ (initial_defaults), add_fluent, set_initial_value, initial_value,
initial_values, add_effect / add_increase_effect / add_timed_effect, ActionInstance.__init__,
Type.is_compatible.
Oracle (independent of the library's type inference): the harness knows how it built the value.
  * initial values (explicit, per-fluent default, per-type default): accepted => what the problem
    reports as the initial value of the fluent is a CONSTANT of the right sort INSIDE the declared
    type (one solver query  lo <= v <= hi  over the symbolic bounds and value);
  * effect values and action-instance parameters: accepted => the value's type is compatible with
    the declared type in the library's documented Type.is_compatible sense (same sort, subtype for
    user types, numeric intervals that intersect); action-instance parameters are constants;
  * rejected (a unified_planning error or an assertion) => every observable part of the model is
    what it was before the call (fluents, defaults, explicit and total initial values, effects).
"""
from fractions import Fraction

PROPERTY = "C23"
LEVEL = "model_checking"
FUNCTIONS = [
    "unified_planning.model.mixins.fluents_set:FluentsSetMixin.__init__",
    "unified_planning.model.mixins.fluents_set:FluentsSetMixin.add_fluent",
    "unified_planning.model.mixins.initial_state:InitialStateMixin.set_initial_value",
    "unified_planning.model.mixins.initial_state:InitialStateMixin.initial_value",
    "unified_planning.model.mixins.initial_state:InitialStateMixin.initial_values.fget",
    "unified_planning.model.transition:UntimedEffectMixin.add_effect",
    "unified_planning.model.transition:UntimedEffectMixin.add_increase_effect",
    "unified_planning.model.transition:UntimedEffectMixin.add_decrease_effect",
    "unified_planning.model.problem:Problem.add_decrease_effect",
    "unified_planning.model.mixins.timed_conds_effs:TimedCondsEffs.add_decrease_effect",
    "unified_planning.model.mixins.timed_conds_effs:TimedCondsEffs.add_effect",
    "unified_planning.model.problem:Problem.add_timed_effect",
    "unified_planning.plans.plan:ActionInstance.__init__",
    "unified_planning.model.types:is_compatible_type",
]
BOUNDS = ("(quick ranges; thorough: bounds in [-12,12], values in [-40,40], k in [-20,19]) declared types: bool, int[lo,hi] and real[lo,hi] with symbolic lo <= hi in [-3,3], int[0,inf), int(-inf,5], unbounded int, user types T, S<T; "
          "values: int v symbolic in [-8,8] and rational (2k+1)/2 with k symbolic in [-4,3], true/false, objects of T, S and an unrelated type U, fluent expressions (same type; Boolean; "
          "int[a,b] with symbolic a <= b), parameter expressions, g + c with concrete bounds and constant; calls: set_initial_value (fresh and over an existing value), add_fluent with "
          "default_initial_value (Fluent object or name+type), Problem(initial_defaults=...) followed by add_fluent, add_effect on InstantaneousAction / "
          "DurativeAction / Problem.add_timed_effect, add_increase_effect and add_decrease_effect on all three containers, ActionInstance")
OUTSIDE = ("Effect.set_value and other setters that bypass add_effect; multi-agent / scheduling / contingent problem classes (same mixins); parameterised fluents with "
           "non-constant arguments; empty numeric types (lo > hi); real bounds and values with denominators other than 1 and 2")
ASSUMPTIONS = ["hash-consing tables keyed syntactically (node sharing is not the subject)",
               "'type-compatible' for effect values and action-instance parameters is the library's documented Type.is_compatible (numeric intervals intersect); "
               "stored initial values must be constants inside the declared type",
               "a rejection is any unified_planning exception or AssertionError; other exception types are reported as crashes"]

V_LO, V_HI = -8, 8
B_LO, B_HI = -3, 3


def _ranges(wide):
    """quick: values in [-8,8], bounds in [-3,3]; thorough (wide): values in [-40,40], bounds in [-12,12]."""
    global V_LO, V_HI, B_LO, B_HI
    V_LO, V_HI, B_LO, B_HI = (-40, 40, -12, 12) if wide else (-8, 8, -3, 3)

FTYPES = ["bool", "int-sym", "real-sym", "int-unb", "int-lo", "int-hi", "user-T", "user-S"]
VKINDS_CONST = ["int", "half", "true", "obj-T", "obj-S", "obj-U"]
VKINDS_EXPR = ["fluent-same", "fluent-bool", "fluent-int", "plus", "param"]


class W:
    pass


class TypeDesc:
    """What the harness knows about a declared type: sort in bool/int/real/user, bounds (None = unbounded), user type name."""

    def __init__(self, sort, lo=None, hi=None, uname=None, up_type=None):
        self.sort, self.lo, self.hi, self.uname, self.up_type = sort, lo, hi, uname, up_type

    @property
    def name(self):  # plain text only: formatting an object that holds symbolic bounds would realise them
        return f"{self.sort}:{self.uname}" if self.sort == "user" else self.sort


def _rejections():
    from unified_planning.exceptions import UPException

    return (UPException, AssertionError)


def _world(ctx, env):
    import unified_planning as up

    w = W()
    w.env, w.em, w.tm = env, env.expression_manager, env.type_manager
    with ctx.untraced():
        tm = w.tm
        w.T = tm.UserType("T")
        w.S = tm.UserType("S", w.T)
        w.U = tm.UserType("U")
        w.objs = {k: up.model.Object(n, t, env) for k, n, t in (("obj-T", "t1", w.T), ("obj-S", "s1", w.S), ("obj-U", "u1", w.U))}
        w.objs2 = {k: up.model.Object(n, t, env) for k, n, t in (("obj-T", "t2", w.T), ("obj-S", "s2", w.S))}
        w.bfl = up.model.Fluent("hb", tm.BoolType(), environment=env)
    return w


def _declared_type(ctx, w, ftype, tag="f"):
    """The declared type of the fluent / parameter under test and its description."""
    tm = w.tm
    if ftype == "bool":
        return TypeDesc("bool", up_type=tm.BoolType())
    if ftype in ("int-sym", "real-sym"):
        lo = ctx.int(f"{tag}lo", B_LO, B_HI)
        hi = ctx.int(f"{tag}hi", B_LO, B_HI)
        ctx.assume(lo <= hi)
        if ftype == "int-sym":
            return TypeDesc("int", lo, hi, up_type=tm.IntType(lo, hi))
        return TypeDesc("real", lo, hi, up_type=tm.RealType(Fraction(lo), Fraction(hi)))
    if ftype == "int-unb":
        return TypeDesc("int", None, None, up_type=tm.IntType())
    if ftype == "int-lo":
        return TypeDesc("int", 0, None, up_type=tm.IntType(0, None))
    if ftype == "int-hi":
        return TypeDesc("int", None, 5, up_type=tm.IntType(None, 5))
    if ftype == "user-T":
        return TypeDesc("user", uname="T", up_type=w.T)
    if ftype == "user-S":
        return TypeDesc("user", uname="S", up_type=w.S)
    raise ValueError(ftype)


def _odd_half(n):
    """Fraction(n, 2) for an odd n, without the gcd normalisation (nonlinear on a symbolic numerator)."""
    mk = getattr(Fraction, "_from_coprime_ints", None)
    return mk(n, 2) if mk is not None else Fraction(n, 2)


class Val:
    """A value as handed to the API (`raw`), and what the harness knows about it: constant or not, sort, numeric interval [lo,hi]
    of its type (for a constant lo == hi == the value), user type name."""

    def __init__(self, raw, const, sort, lo=None, hi=None, uname=None, label=""):
        self.raw, self.const, self.sort, self.lo, self.hi, self.uname, self.label = raw, const, sort, lo, hi, uname, label


def _value(ctx, w, vkind, decl, holder=None, allow_param=None):
    """Build the value; `holder` is a Problem the auxiliary fluents are added to (when not None)."""
    import unified_planning as up

    em, tm, env = w.em, w.tm, w.env
    if vkind == "int":
        v = ctx.int("v", V_LO, V_HI)
        return Val(v, True, "int", v, v, label="int")
    if vkind == "half":
        k = ctx.int("v", V_LO // 2, V_HI // 2 - 1)
        fr = _odd_half(2 * k + 1)  # a non-integer rational: (2k+1)/2
        return Val(fr, True, "real", fr, fr, label="half")
    if vkind in ("true", "false"):
        return Val(vkind == "true", True, "bool", label=vkind)
    if vkind in ("obj-T", "obj-S", "obj-U"):
        return Val(w.objs[vkind], True, "user", uname=vkind[-1], label=vkind)
    if vkind == "fluent-same":
        g = up.model.Fluent("g_same", decl.up_type, environment=env)
        if holder is not None:
            holder.add_fluent(g)
        return Val(g, False, decl.sort, decl.lo, decl.hi, decl.uname, label="fluent-same")
    if vkind == "fluent-bool":
        if holder is not None:
            holder.add_fluent(w.bfl)
        return Val(em.FluentExp(w.bfl), False, "bool", label="fluent-bool")
    if vkind == "fluent-int":
        a = ctx.int("ga", B_LO, B_HI)
        b = ctx.int("gb", B_LO, B_HI)
        ctx.assume(a <= b)
        g = up.model.Fluent("g_int", tm.IntType(a, b), environment=env)
        if holder is not None:
            holder.add_fluent(g)
        return Val(g, False, "int", a, b, label="fluent-int")
    if vkind == "plus":
        # g + c with concrete bounds and constant (by choice): TypeChecker.walk_plus compares the inferred bounds with
        # float("inf"), which the solver cannot decide for symbolic operands
        a, b = ctx.pick("gab", [(0, 2), (-3, -1)])
        c = ctx.pick("c", [-8, -3, 0, 4])
        g = up.model.Fluent("g_int", tm.IntType(a, b), environment=env)
        if holder is not None:
            holder.add_fluent(g)
        return Val(em.Plus(g, c), False, "int", a + c, b + c, label="plus")
    if vkind == "param":
        p = allow_param
        return Val(p, False, decl.sort, decl.lo, decl.hi, decl.uname, label="param")
    raise ValueError(vkind)


# ------------------------------------------------------------------------------------------------
# oracles (never branch on symbolic values: built with vf.logic, decided by one solver query)
# ------------------------------------------------------------------------------------------------
def _sort_ok(decl, sort, uname):
    if decl.sort == "bool":
        return sort == "bool"
    if decl.sort == "int":
        return sort == "int"
    if decl.sort == "real":
        return sort in ("int", "real")
    if decl.sort == "user":
        return sort == "user" and (uname == decl.uname or (decl.uname == "T" and uname == "S"))
    return False


def _inside(decl, lo, hi):
    """decl.lo <= lo and hi <= decl.hi (containment; for a constant lo == hi)."""
    from vf.logic import And

    conds = []
    if decl.lo is not None:
        conds.append(decl.lo <= lo)
    if decl.hi is not None:
        conds.append(hi <= decl.hi)
    return And(*conds) if conds else True


def _overlap(decl, lo, hi):
    """the intervals intersect: not (hi < decl.lo or lo > decl.hi)"""
    from vf.logic import And

    conds = []
    if decl.lo is not None and hi is not None:
        conds.append(decl.lo <= hi)
    if decl.hi is not None and lo is not None:
        conds.append(lo <= decl.hi)
    return And(*conds) if conds else True


def _check_stored_initial(ctx, decl, stored, tag, desc):
    """`stored` is the FNode the problem reports as initial value: must be a constant of the right sort inside the declared type."""
    ctx.check(stored is not None, f"{tag}:stored-missing", f"accepted, but the problem reports no initial value ({desc})")
    ctx.check(stored.is_constant(), f"{tag}:stored-not-constant", f"the stored initial value {stored} is not a constant ({desc})")
    if stored.is_bool_constant():
        sort, uname, num = "bool", None, None
    elif stored.is_int_constant():
        sort, uname, num = "int", None, stored.constant_value()
    elif stored.is_real_constant():
        sort, uname, num = "real", None, stored.constant_value()
    elif stored.is_object_exp():
        o = stored.object()
        sort, num = "user", None
        uname = "T" if o.type.name == "T" else "S" if o.type.name == "S" else "U"
    else:
        ctx.fail(f"{tag}:stored-not-constant", f"the stored initial value {stored} is not a Boolean/numeric/object constant ({desc})")
    ctx.check(_sort_ok(decl, sort, uname), f"{tag}:stored-out-of-type",
              f"the stored initial value is a {sort}{'/' + uname if uname else ''} constant, the declared type is {decl.name} ({desc})")
    if num is not None:
        ctx.require(_inside(decl, num, num), f"{tag}:stored-out-of-type",
                    f"the stored numeric initial value lies outside the bounds of the declared type ({desc})")


def _check_compatible(ctx, decl, val, tag, desc):
    ctx.check(_sort_ok(decl, val.sort, val.uname), f"{tag}:accepted-incompatible-sort",
              f"accepted a {val.sort}{'/' + val.uname if val.uname else ''} value for declared type {decl.name} ({desc})")
    if decl.sort in ("int", "real"):
        ctx.require(_overlap(decl, val.lo, val.hi), f"{tag}:accepted-incompatible-bounds",
                    f"accepted a numeric value whose type interval does not intersect the declared type ({desc})")


def _problem_snapshot(p):
    return dict(
        fluents=[id(f) for f in p.fluents],
        fluents_defaults=sorted((id(k), id(v)) for k, v in p.fluents_defaults.items()),
        initial_defaults=sorted((id(k), id(v)) for k, v in p.initial_defaults.items()),
        explicit=sorted((id(k), id(v)) for k, v in p.explicit_initial_values.items()),
        initial_values=sorted((id(k), id(v)) for k, v in p.initial_values.items()),
        user_types=[id(t) for t in p.user_types],
        timed_effects=sorted((str(t), [id(e) for e in es]) for t, es in p.timed_effects.items() if es),
        objects=[id(o) for o in p.all_objects],
    )


def _same(ctx, before, after, tag, desc):
    for k in before:
        ctx.check(before[k] == after[k], f"{tag}:rejected-but-{k}-changed", f"the call was rejected but problem.{k} changed ({desc})")


# ------------------------------------------------------------------------------------------------
# harnesses
# ------------------------------------------------------------------------------------------------
def h_initial(ctx, target, ftypes, vkinds, form=None, wide=False):
    """target in explicit / explicit-over / fluent-default / type-default."""
    import unified_planning as up

    _ranges(wide)
    env = ctx.fresh_env(hashcons="syntactic")
    w = _world(ctx, env)
    ftype = ctx.pick("ftype", ftypes)
    vkind = ctx.pick("vkind", vkinds)
    decl = _declared_type(ctx, w, ftype)
    rej = _rejections()
    desc = f"{target}, declared {ftype}, value kind {vkind}"
    tag = target.split("-over")[0]

    if target == "type-default":
        # the value is needed before the problem exists: auxiliary fluents are added afterwards
        val = _value(ctx, w, vkind, decl, holder=None)
        try:
            p = up.model.Problem("p", env, initial_defaults={decl.up_type: val.raw})
        except rej:
            ctx.witness("rejected")
            return
        for o in list(w.objs.values()):
            p.add_object(o)
        f = up.model.Fluent("f", decl.up_type, environment=env)
        before = _problem_snapshot(p)
        try:
            p.add_fluent(f)
        except rej:
            _same(ctx, before, _problem_snapshot(p), tag, desc)
            ctx.witness("rejected")
            return
        fe = w.em.FluentExp(f)
        for k, v in p.initial_defaults.items():
            _check_stored_initial(ctx, decl, v, "type-default", desc + " [initial_defaults]")
        if f in p.fluents_defaults or p.initial_value(fe) is not None:
            _check_stored_initial(ctx, decl, p.initial_value(fe), "type-default", desc)
            ctx.check(p.initial_values.get(fe) is p.initial_value(fe), "type-default:initial_values-disagree",
                      f"initial_values and initial_value disagree ({desc})")
        ctx.witness("accepted")
        return

    p = up.model.Problem("p", env)
    for o in list(w.objs.values()) + list(w.objs2.values()):
        p.add_object(o)
    # something already in the model, so that "unchanged" is not trivially true
    h0 = up.model.Fluent("h0", w.tm.BoolType(), environment=env)
    p.add_fluent(h0, default_initial_value=False)
    val = _value(ctx, w, vkind, decl, holder=p)

    if target == "fluent-default":
        form = form if form is not None else ctx.choice("form", 2)
        f = up.model.Fluent("f", decl.up_type, environment=env)
        before = _problem_snapshot(p)
        try:
            if form == 0:
                r = p.add_fluent(f, default_initial_value=val.raw)
            else:
                r = p.add_fluent("f", decl.up_type, default_initial_value=val.raw)
        except rej:
            _same(ctx, before, _problem_snapshot(p), tag, desc)
            ctx.check(not p.has_fluent("f"), f"{tag}:rejected-but-fluent-added", f"add_fluent raised but the fluent is in the problem ({desc})")
            ctx.witness("rejected")
            return
        fe = w.em.FluentExp(r)
        _check_stored_initial(ctx, decl, p.fluents_defaults.get(r), tag, desc + " [fluents_defaults]")
        _check_stored_initial(ctx, decl, p.initial_value(fe), tag, desc)
        ctx.check(p.initial_values.get(fe) is p.initial_value(fe), f"{tag}:initial_values-disagree", f"initial_values and initial_value disagree ({desc})")
        ctx.witness("accepted")
        return

    # explicit initial value
    f = up.model.Fluent("f", decl.up_type, environment=env)
    p.add_fluent(f)
    fe = w.em.FluentExp(f)
    old = None
    if target == "explicit-over":
        # a valid value is already stored; a rejected call must leave it in place
        good = _good_constant(ctx, w, decl)
        p.set_initial_value(fe, good)
        old = p.initial_value(fe)
    before = _problem_snapshot(p)
    try:
        p.set_initial_value(fe if vkind != "true" else f, val.raw)
    except rej:
        _same(ctx, before, _problem_snapshot(p), tag, desc)
        ctx.check(p.initial_value(fe) is old, f"{tag}:rejected-but-value-changed", f"set_initial_value raised but initial_value changed ({desc})")
        ctx.witness("rejected")
        return
    _check_stored_initial(ctx, decl, p.initial_value(fe), tag, desc)
    _check_stored_initial(ctx, decl, p.explicit_initial_values.get(fe), tag, desc + " [explicit_initial_values]")
    ctx.check(p.initial_values.get(fe) is p.initial_value(fe), f"{tag}:initial_values-disagree", f"initial_values and initial_value disagree ({desc})")
    ctx.witness("accepted")


def _good_constant(ctx, w, decl):
    """A constant inside the declared type (the lower bound / 0 / true / an object)."""
    if decl.sort == "bool":
        return True
    if decl.sort in ("int", "real"):
        return decl.lo if decl.lo is not None else (decl.hi if decl.hi is not None else 0)
    return w.objs2["obj-S"] if decl.uname == "S" else w.objs2["obj-T"]


def _action_snapshot(a, kind):
    if kind == "da":
        return sorted((str(t), [id(e) for e in es]) for t, es in a.effects.items() if es)
    return [id(e) for e in a.effects]


def h_effect(ctx, container, ftypes, vkinds, ekind="assign", wide=False):
    """container in ia / da / pb; ekind in assign / increase / decrease."""
    import unified_planning as up
    from unified_planning.model import GlobalStartTiming, StartTiming

    _ranges(wide)
    env = ctx.fresh_env(hashcons="syntactic")
    w = _world(ctx, env)
    ftype = ctx.pick("ftype", ftypes)
    vkind = ctx.pick("vkind", vkinds)
    decl = _declared_type(ctx, w, ftype)
    rej = _rejections()
    desc = f"{container}/{ekind}, declared {ftype}, value kind {vkind}"
    tag = f"effect-{ekind}"
    f = up.model.Fluent("f", decl.up_type, environment=env)
    h0 = up.model.Fluent("h0", w.tm.BoolType(), environment=env)
    p = None
    if container == "ia":
        a = up.model.InstantaneousAction("a", _env=env, q=decl.up_type)
        a.add_effect(h0, True)
    elif container == "da":
        a = up.model.DurativeAction("a", _env=env, q=decl.up_type)
        a.add_effect(StartTiming(), h0, True)
    else:
        p = up.model.Problem("p", env)
        p.add_fluent(f)
        p.add_fluent(h0)
        p.add_timed_effect(GlobalStartTiming(5), h0, True)
        a = None
    if vkind == "param" and a is None:
        ctx.assume(False)  # a problem has no parameters
    val = _value(ctx, w, vkind, decl, holder=p, allow_param=(a.parameter("q") if a is not None else None))
    before = _problem_snapshot(p) if p is not None else _action_snapshot(a, container)
    try:
        meth = {"assign": "add_effect" if a is not None else "add_timed_effect", "increase": "add_increase_effect",
                "decrease": "add_decrease_effect"}[ekind]
        if container == "ia":
            getattr(a, meth)(f, val.raw)
        elif container == "da":
            getattr(a, meth)(StartTiming(), f, val.raw)
        else:
            getattr(p, meth)(GlobalStartTiming(5), f, val.raw)
    except rej:
        after = _problem_snapshot(p) if p is not None else _action_snapshot(a, container)
        if p is not None:
            _same(ctx, before, after, tag, desc)
        else:
            ctx.check(before == after, f"{tag}:rejected-but-effects-changed", f"the call was rejected but the effects changed ({desc})")
        ctx.witness("rejected")
        return
    if container == "ia":
        effs = a.effects
    elif container == "da":
        effs = a.effects[StartTiming()]
    else:
        effs = p.timed_effects[GlobalStartTiming(5)]
    ctx.check(len(effs) == 2 and effs[-1].fluent.fluent() is f, f"{tag}:not-stored", f"accepted but the effect is not the last stored effect ({desc})")
    _check_compatible(ctx, decl, val, tag, desc)
    if ekind in ("increase", "decrease"):
        ctx.check(decl.sort in ("int", "real"), f"{tag}:accepted-on-non-numeric", f"{ekind} effect accepted on a {decl.sort} fluent ({desc})")
    ctx.witness("accepted")


def h_param(ctx, ftypes, vkinds, wide=False):
    import unified_planning as up
    from unified_planning.plans import ActionInstance

    _ranges(wide)
    env = ctx.fresh_env(hashcons="syntactic")
    w = _world(ctx, env)
    ftype = ctx.pick("ftype", ftypes)
    vkind = ctx.pick("vkind", vkinds)
    decl = _declared_type(ctx, w, ftype)
    rej = _rejections()
    desc = f"ActionInstance, parameter type {ftype}, value kind {vkind}"
    a = up.model.InstantaneousAction("a", _env=env, q=decl.up_type, q2=w.tm.BoolType())
    val = _value(ctx, w, vkind, decl, holder=None, allow_param=a.parameter("q"))
    raw = val.raw
    if isinstance(raw, up.model.Fluent):
        raw = w.em.FluentExp(raw)
    try:
        ai = ActionInstance(a, (raw, True))
    except rej:
        ctx.witness("rejected")
        return
    got = ai.actual_parameters
    ctx.check(len(got) == 2, "param:count", f"actual_parameters has {len(got)} entries ({desc})")
    _check_stored_initial(ctx, decl, got[0], "param", desc)
    ctx.witness("accepted")


# ------------------------------------------------------------------------------------------------
# shards
# ------------------------------------------------------------------------------------------------
def shards(tier, seed):
    out = []

    def sh(name, fn, budget, **kw):
        if tier != "quick":
            kw["wide"] = True
        out.append(dict(name=name, fn=fn, kwargs=kw, budget=budget, per_path=40))

    b = 150 if tier == "quick" else 900
    num = ["int-sym", "real-sym"]
    half = ["int-unb", "int-lo", "int-hi"]
    oth = ["bool", "user-T", "user-S"]
    init_vk = VKINDS_CONST + ["fluent-same", "fluent-bool", "fluent-int", "plus"]
    for target in ("explicit", "explicit-over", "fluent-default", "type-default"):
        sh(f"{target}-num", "h_initial", b, target=target, ftypes=num, vkinds=init_vk)
        sh(f"{target}-halfbounded", "h_initial", b, target=target, ftypes=half, vkinds=init_vk)
        sh(f"{target}-other", "h_initial", b, target=target, ftypes=oth, vkinds=init_vk + ["false"])
    eff_vk = VKINDS_CONST + VKINDS_EXPR
    for cont in ("ia", "da", "pb"):
        sh(f"effect-{cont}-num", "h_effect", b, container=cont, ftypes=num, vkinds=eff_vk)
        sh(f"effect-{cont}-other", "h_effect", b, container=cont, ftypes=half + oth, vkinds=eff_vk)
    sh("effect-increase", "h_effect", b, container="ia", ekind="increase", ftypes=FTYPES, vkinds=["int", "half", "true", "obj-T", "fluent-int", "plus"])
    incdec_vk = ["int", "half", "true", "obj-T", "fluent-int", "plus"]
    sh("effect-decrease", "h_effect", b, container="ia", ekind="decrease", ftypes=FTYPES, vkinds=incdec_vk)
    for cont in ("da", "pb"):  # each of the nine add_*effect methods has its own copy of the compatibility test
        for ek in ("increase", "decrease"):
            sh(f"effect-{ek}-{cont}", "h_effect", b, container=cont, ekind=ek, ftypes=FTYPES, vkinds=incdec_vk if tier == "quick" else eff_vk)
    sh("param-num", "h_param", b, ftypes=num + half, vkinds=VKINDS_CONST + ["fluent-same", "fluent-int", "plus", "param"])
    sh("param-other", "h_param", b, ftypes=oth, vkinds=VKINDS_CONST + ["false", "fluent-same", "fluent-bool", "param"])
    return out


MANIFEST = dict(
    engine="symex",
    technique="symbolic execution (CrossHair/z3) of the model-building API with symbolic numeric values and symbolic type bounds; independent containment / interval-intersection oracle as one solver query per accepted call; model snapshot comparison on rejected calls",
    text="Bounded model checking: for every combination of declared type, value kind and call in the stated lists, and EVERY value v in [-8,8] (also v/2) and every pair of type bounds lo <= hi in [-3,3]: "
         "an accepted initial value (explicit, per-fluent default, per-type default) is a constant inside the declared type, an accepted effect value / action-instance parameter is type-compatible, "
         "a rejected call leaves the observable model unchanged.",
    note="Trusted: CrossHair's int/Fraction model, z3, the syntactic hash-consing tables. 'Compatible' for effects is the documented Type.is_compatible (intervals intersect). "
         "Completeness (compatible values are accepted) is not part of the property and not checked.",
)
