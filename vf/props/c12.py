"""C12 NNF and DNF conversions are equivalent and in normal form.

Symbolic: the integer constants c1, c2 that occur in the atoms  n <= c1,  n == c2,  c1 <= c2,  c2 < c1,
c1 == c2  (unbounded solver variables: the constant-only atoms fold to true/false inside the real
Simplifier on solver-chosen sides; `c1 <= c2` and `c2 < c1` are complementary, so the correlated
outcomes are explored too).  Structure: Boolean skeletons chosen production by production with
ctx.choice from the grammar
    phi ::= atom | not phi | phi and phi | phi or phi | phi -> phi | phi <-> phi        (size <= max_nodes)
(an atom counts one node; Boolean fluents are introduced in first-occurrence order a, b, c, which only
removes renamings).  Shards fix the production at the root (and for the larger families at its first child).
Real code: Nnf.get_nnf_expression, Dnf.get_dnf_expression (with the real Simplifier inside Dnf.walk_and).
Assertions per path:
  * shape, structurally: NNF has only and/or/not, `not` only on atoms; DNF is an Or of (And of literals | literal),
    or degenerate: a single And of literals, a single literal, true/false.  Boolean constants count as atoms.
  * equivalence: one solver query per conversion, over ALL interpretations of the fluents (and, on the path
    condition, all values of c1, c2 on this side of the folds):  exists I.  [[e]]_I != [[nf(e)]]_I   (vf/exprsem.py).
A second family runs on the choice-only engine with concrete constants (atoms 1 <= 2, 2 < 1, 1 == 1 fold
to true / false / true) and reaches the full 7-node bound.
"""
PROPERTY = "C12"
LEVEL = "model_checking"
FUNCTIONS = [
    "unified_planning.model.walkers.dnf:Nnf.get_nnf_expression",
    "unified_planning.model.walkers.dnf:Dnf.get_dnf_expression",
    "unified_planning.model.walkers.dnf:Dnf.walk_and",
    "unified_planning.model.walkers.dnf:Dnf.walk_or",
    "unified_planning.model.walkers.dnf:Dnf.walk_all",
    "unified_planning.model.walkers.simplifier:Simplifier.walk_and",
    "unified_planning.model.walkers.simplifier:Simplifier.walk_not",
    "unified_planning.model.walkers.simplifier:Simplifier.walk_le",
    "unified_planning.model.walkers.simplifier:Simplifier.walk_lt",
    "unified_planning.model.walkers.simplifier:Simplifier.walk_equals",
]
BOUNDS = ("Boolean skeletons over {not, and, or, implies, iff}; atoms: Boolean fluents a, b, c, `n <= c1`, `n == c2` (n an integer fluent), "
          "constant-only atoms `c1 <= c2`, `c2 < c1`, `c1 == c2`; c1, c2 unbounded symbolic integers. "
          "Symbolic-constant family: all skeletons with <= 5 nodes (quick) / <= 6 nodes and the 7-node skeletons of depth <= 2 (thorough). "
          "Concrete-constant family (choice-only engine; atoms a, b, c, n <= 1, 1 <= 2, 2 < 1): all skeletons with <= 6 nodes (quick) / <= 7 nodes (thorough).")
OUTSIDE = ("skeletons with more than 7 nodes; quantifiers, temporal operators and non-Boolean `Equals` over user types below the Boolean structure "
           "(the converters treat any other node as an atom); real-valued constants; more than two distinct symbolic constants")
ASSUMPTIONS = [
    "hash-consing tables keyed syntactically for symbolic constants (S2'): Int(c1) and Int(c2) are distinct nodes even where c1 = c2 is possible; "
    "atoms are built once per skeleton leaf kind so equal leaf kinds are the same node, as with real hash-consing; counterexamples are replayed with the real tables",
    "Boolean constants count as atoms in both shape checks (degenerate normal forms true / false are legal)",
    "vf/exprsem.py is the meaning of expressions (Boolean connectives, =, <, <= over integers); fluents are free z3 constants",
]

LEAVES_SYM = ["fl", "n<=c1", "c1<=c2", "c2<c1", "n==c2", "c1==c2"]
LEAVES_SYM5 = LEAVES_SYM[:5]   # quick tier and the 7-node family: without `c1 == c2`
LEAVES_CONC = ["fl", "n<=1", "1<=2", "2<1"]
BINOPS = ["and", "or", "implies", "iff"]


# ---------------------------------------------------------------------------------------------
# skeleton generation (production by production; each ctx.choice is one fork)
def _gen(ctx, leaves, budget, depth, st, path, forced):
    """-> (skeleton, size).  skeleton: ["fl", i] | [leafkind] | ["not", s] | [op, s1, s2]"""
    prods = list(leaves)
    if budget >= 2 and depth > 0:
        prods.append("not")
    if budget >= 3 and depth > 0:
        prods.extend(BINOPS)
    if path in forced:  # shard key: the production (or the list of productions) allowed at this position
        allowed = forced[path] if isinstance(forced[path], list) else [forced[path]]
        prods = [p for p in prods if p in allowed]
        if not prods:
            ctx.assume(False)
    p = prods[ctx.choice("p" + path, len(prods))]
    if p == "fl":
        nopt = min(st["nfl"] + 1, 3)
        i = ctx.choice("f" + path, nopt)
        if i == st["nfl"]:
            st["nfl"] += 1
        return ["fl", i], 1
    if p in leaves:
        return [p], 1
    if p == "not":
        s, n = _gen(ctx, leaves, budget - 1, depth - 1, st, path + "0", forced)
        return ["not", s], n + 1
    s1, n1 = _gen(ctx, leaves, budget - 2, depth - 1, st, path + "0", forced)
    s2, n2 = _gen(ctx, leaves, budget - 1 - n1, depth - 1, st, path + "1", forced)
    return [p, s1, s2], n1 + n2 + 1


def count_skeletons(leaves, max_nodes, max_depth, forced):
    """number of skeletons of a shard (plain python; used to size shards and in BOUNDS bookkeeping)"""
    from vf.direct import DirectCtx, Prune, _next_prefix

    n, prefix = 0, []
    while prefix is not None:
        c = DirectCtx(prefix, 0)
        try:
            _gen(c, leaves, max_nodes, max_depth, {"nfl": 0}, "r", forced)
            n += 1
        except Prune:
            pass
        prefix = _next_prefix(c.trail)
    return n


def _leaf_kinds(sk):
    if sk[0] == "fl" or len(sk) == 1:
        return {sk[0]}
    r = set()
    for s in sk[1:]:
        r |= _leaf_kinds(s)
    return r


def _show(sk):
    if sk[0] == "fl":
        return "abc"[sk[1]]
    if len(sk) == 1:
        return sk[0]
    if sk[0] == "not":
        return f"!({_show(sk[1])})"
    return f"({_show(sk[1])} {sk[0]} {_show(sk[2])})"


# ---------------------------------------------------------------------------------------------
def _build(em, sk, atoms):
    k = sk[0]
    if k == "fl":
        return atoms["fl"][sk[1]]
    if len(sk) == 1:
        return atoms[k]
    if k == "not":
        return em.Not(_build(em, sk[1], atoms))
    x, y = _build(em, sk[1], atoms), _build(em, sk[2], atoms)
    return {"and": em.And, "or": em.Or, "implies": em.Implies, "iff": em.Iff}[k](x, y)


BOOL_OPS = ("is_and", "is_or", "is_not", "is_implies", "is_iff")


def _is_atom(e):
    return not (e.is_and() or e.is_or() or e.is_not() or e.is_implies() or e.is_iff())


def _is_literal(e):
    return _is_atom(e) or (e.is_not() and _is_atom(e.arg(0)))


def nnf_shape_error(e):
    """None when e is in negation normal form, else a short reason"""
    stack = [e]
    while stack:
        x = stack.pop()
        if x.is_implies() or x.is_iff():
            return "implication/equivalence left in the result"
        if x.is_not():
            if not _is_atom(x.arg(0)):
                return "negation applied to a non-atom"
        elif x.is_and() or x.is_or():
            stack.extend(x.args)
    return None


def dnf_shape_error(e):
    def conj_err(c):
        if c.is_and():
            for l in c.args:
                if not _is_literal(l):
                    return "a conjunct is not a literal"
            return None
        if _is_literal(c):
            return None
        return "a disjunct is neither a literal nor a conjunction of literals"

    if e.is_or():
        for c in e.args:
            r = conj_err(c)
            if r:
                return r
        return None
    return conj_err(e)


# ---------------------------------------------------------------------------------------------
# classification of an inequivalent DNF (used only to label the signature, never to accept one):
# the recorded defect (Dnf.walk_and answers [] = false for a product whose conjunction simplifies to TRUE) can only fire
# when the negation normal form has a conjunction and a constant-only literal that is true.
def _polar_literals(sk, pos, out):
    k = sk[0]
    if k == "fl" or len(sk) == 1:
        out["lits"].append((k, pos))
    elif k == "not":
        _polar_literals(sk[1], not pos, out)
    elif k in ("and", "or"):
        if (k == "and") == pos:
            out["and"] = True
        _polar_literals(sk[1], pos, out)
        _polar_literals(sk[2], pos, out)
    elif k == "implies":
        if not pos:
            out["and"] = True
        _polar_literals(sk[1], not pos, out)
        _polar_literals(sk[2], pos, out)
    else:  # iff: both polarities of both sides, conjunctions in either polarity
        out["and"] = True
        for p in (pos, not pos):
            _polar_literals(sk[1], p, out)
            _polar_literals(sk[2], p, out)


def classify(sk, c1, c2):
    vals = {"c1<=c2": c1 <= c2, "c2<c1": c2 < c1, "c1==c2": c1 == c2, "1<=2": True, "2<1": False}
    out = {"lits": [], "and": False}
    _polar_literals(sk, True, out)
    true_const = any(k in vals and vals[k] == pos for k, pos in out["lits"])
    return "true-constant-literal-under-conjunction" if (true_const and out["and"]) else "other"


# ---------------------------------------------------------------------------------------------
def h_nf(ctx, leaves, max_nodes, max_depth, forced=None, symbolic=True):
    from unified_planning.model import Fluent
    from unified_planning.model.walkers.dnf import Dnf, Nnf
    from vf.ctx import Violation
    from vf.exprsem import equivalent_query

    sk, size = _gen(ctx, leaves, max_nodes, max_depth, {"nfl": 0}, "r", forced or {})
    env = ctx.fresh_env(hashcons="syntactic")
    em, tm = env.expression_manager, env.type_manager
    with ctx.untraced():
        fl = [em.FluentExp(Fluent(nm, tm.BoolType(), environment=env)) for nm in "abc"]
        n = em.FluentExp(Fluent("n", tm.IntType(), environment=env))
    text = _show(sk)
    used = _leaf_kinds(sk)
    atoms = {"fl": fl}
    c1 = c2 = 0
    if symbolic:
        if used & {"n<=c1", "c1<=c2", "c2<c1", "c1==c2"}:
            c1 = ctx.int("c1")
        if used & {"n==c2", "c1<=c2", "c2<c1", "c1==c2"}:
            c2 = ctx.int("c2")
        # every leaf kind is ONE node (as real hash-consing would give); Int(c1), Int(c2) are built once
        k1, k2 = em.Int(c1), em.Int(c2)
        mk = {"n<=c1": lambda: em.LE(n, k1), "n==c2": lambda: em.Equals(n, k2), "c1<=c2": lambda: em.LE(k1, k2),
              "c2<c1": lambda: em.LT(k2, k1), "c1==c2": lambda: em.Equals(k1, k2)}
    else:
        mk = {"n<=1": lambda: em.LE(n, em.Int(1)), "1<=2": lambda: em.LE(em.Int(1), em.Int(2)),
              "2<1": lambda: em.LT(em.Int(2), em.Int(1))}
    for k in used:
        if k != "fl":
            atoms[k] = mk[k]()
    e = _build(em, sk, atoms)
    ctx.note("expression", text)

    nnf = Nnf(env).get_nnf_expression(e)
    dnf = Dnf(env).get_dnf_expression(e)

    with ctx.untraced():
        r1 = nnf_shape_error(nnf)
        r2 = dnf_shape_error(dnf)
    ctx.check(r1 is None, "nnf:shape", f"NNF of {text} is not in negation normal form: {r1}")
    ctx.check(r2 is None, "dnf:shape", f"DNF of {text} is not a disjunction of conjunctions of literals: {r2}")
    ctx.check(nnf.type.is_bool_type() and dnf.type.is_bool_type(), "nf:type", "a normal form is not Boolean")

    ctx.forall(lambda: equivalent_query(e, nnf), None, "nnf:not-equivalent",
               f"NNF of {text} is not equivalent to it (some interpretation of the fluents separates them)")
    try:
        ctx.forall(lambda: equivalent_query(e, dnf), None, "dnf:not-equivalent",
                   f"DNF of {text} is not equivalent to it (some interpretation of the fluents separates them)")
    except Violation as v:
        vals = v.extra.get("_values") or {}
        v1, v2 = int(vals.get("c1", c1)), int(vals.get("c2", c2))  # sym: the model's values; replay: the recorded ones
        v.sig = "dnf:not-equivalent:" + classify(sk, v1, v2)
        raise
    ctx.witness("dnf-degenerate" if (_is_literal(dnf) or dnf.is_and()) else "dnf-proper")
    if size >= 3:
        ctx.witness("nodes>=3")


# ---------------------------------------------------------------------------------------------
def _mk(name, leaves, n, d, forced, symbolic, budget):
    sh = dict(name=name, fn="h_nf", kwargs=dict(leaves=leaves, max_nodes=n, max_depth=d, forced=forced, symbolic=symbolic),
              budget=budget, per_path=20)
    if not symbolic:
        sh["engine"] = "direct"
    return sh


def shards(tier, seed):
    out = []
    tops = ["not"] + BINOPS
    if tier == "quick":
        P = LEAVES_SYM5
        out.append(_mk("sym-n5-atom+not", P, 5, 4, {"r": P + ["not"]}, True, 100))
        groups = [("atomA", P[:3]), ("atomB", P[3:]), ("not+and+or", ["not", "and", "or"]), ("implies+iff", ["implies", "iff"])]
        for op in BINOPS:
            for gname, g in groups:
                out.append(_mk(f"sym-n5-{op}-{gname}", P, 5, 4, {"r": op, "r0": g}, True, 100))
        for op in tops:
            # the choice-only driver's budget is wall-clock: generous, the shard needs ~30 s CPU
            out.append(_mk(f"conc-n6-{op}", LEAVES_CONC, 6, 5, {"r": op}, False, 400))
    else:
        P = LEAVES_SYM
        out.append(_mk("sym-n6-atom", P, 1, 0, {}, True, 100))
        for op in tops:
            for lk in P + tops:
                if op == "not" and lk in P:
                    continue
                out.append(_mk(f"sym-n6-{op}-{lk}", P, 6, 5, {"r": op, "r0": lk}, True, 900))
        out.append(_mk("sym-n6-not-atom", P, 6, 5, {"r": "not", "r0": P}, True, 100))
        for op in BINOPS:
            for l2 in BINOPS:
                for r2 in BINOPS:
                    out.append(_mk(f"sym-n7d2-{op}-{l2}-{r2}", LEAVES_SYM5, 7, 2, {"r": op, "r0": l2, "r1": r2}, True, 900))
        for op in tops:
            for lk in LEAVES_CONC + tops:
                if op == "not" and lk in LEAVES_CONC:
                    continue
                out.append(_mk(f"conc-n7-{op}-{lk}", LEAVES_CONC, 7, 6, {"r": op, "r0": lk}, False, 900))
    return out


MANIFEST = dict(
    engine="symex",
    technique="symbolic execution (CrossHair/z3) of the real Nnf/Dnf converters on grammar-generated Boolean skeletons whose comparison atoms carry symbolic integer constants; "
              "normal-form shape checked structurally, equivalence decided by one z3 query per conversion over all interpretations of the fluents",
    text="Bounded model checking: every Boolean skeleton within the node bound over 3 Boolean fluents, numeric comparison/equality atoms and constant-only atoms, "
         "for EVERY value of the two integer constants (the constant-only atoms fold to true/false on solver-chosen sides). NNF and DNF must be in normal form and "
         "equivalent to the input under every interpretation. A choice-only family with concrete constants extends the structural bound to 7 nodes.",
    note="Trusted: vf/exprsem.py as the meaning of Boolean/comparison expressions, CrossHair's int model, z3. The defect found on the snapshot (Dnf.walk_and returned [] when a product "
         "conjunction simplifies to true; scratch/fixes/C12-dnf-true-conjunct.md) has since been repaired in /repo; an inequivalent DNF is labelled by whether the input has a "
         "true constant-only literal under a conjunction, so that such a finding can be recorded narrowly.",
)
