"""C15 Expression type inference is sound and symmetric.

Layer 1 (h_interval): numeric skeletons <= 5 nodes (6 in the thorough tier) over int/real fluents and constants.  The
real TypeChecker computes the type while the ExpressionManager constructors build the node.  ONE solver query per path:
exists leaf values inside their declared types (divisors non-zero) with the value of e outside the inferred interval.
  * "sym" shards (engine symex): every type bound and every constant is a solver variable (unbounded integers);
    int fluents bounded / half-bounded / unbounded in every combination, real fluents with symbolic two-sided bounds.
  * "conc" shards (engine direct): unbounded / half-bounded / bounded int and real fluents with concrete bounds from a
    sign-covering pool (the type checker runs concretely; the leaf VALUES are the solver variables of the query),
    including division by constants and by point-typed fluents.
Layer 1b (h_exact): Boolean / user-typed / leaf expressions get exactly their type (bounds symbolic).
Layer 2 (h_divconst, engine direct + own numeric proxies): the REAL TypeChecker.walk_div runs on proxy operands whose
  `/` is IEEE-754 binary64 division in z3's FloatingPoint theory (and whose Fraction(...) is exact); exists l, r != 0
  (64-bit, |.| <= 2^53) with l/r outside [lower, upper]; counterexamples are replayed on the real checker.
Layer 3 (h_symmetry, engine direct): accepted(Equals(l, r)) == accepted(Equals(r, l)) for all ordered pairs of operands.
"""
from fractions import Fraction

PROPERTY = "C15"
LEVEL = "model_checking"
FUNCTIONS = [
    "unified_planning.model.walkers.type_checker:TypeChecker.walk_plus",
    "unified_planning.model.walkers.type_checker:TypeChecker.walk_minus",
    "unified_planning.model.walkers.type_checker:TypeChecker.walk_times",
    "unified_planning.model.walkers.type_checker:TypeChecker.walk_div",
    "unified_planning.model.walkers.type_checker:TypeChecker.walk_equals",
    "unified_planning.model.walkers.type_checker:TypeChecker.walk_identity_int",
    "unified_planning.model.walkers.type_checker:TypeChecker.walk_identity_real",
    "unified_planning.model.walkers.type_checker:TypeChecker.walk_fluent_exp",
    "unified_planning.model.walkers.type_checker:TypeChecker.walk_bool_to_bool",
    "unified_planning.model.walkers.type_checker:TypeChecker.walk_math_relation",
    "unified_planning.model.walkers.type_checker:TypeChecker.get_type",
    "unified_planning.model.type_manager:TypeManager.IntType",
    "unified_planning.model.type_manager:TypeManager.RealType",
    "unified_planning.model.types:is_compatible_type",
    "unified_planning.model.expression:ExpressionManager.create_node",
]
BOUNDS = ("layer 1: expression trees of <= 5 nodes (binary + - * /, n-ary + * with 3 / 4 operands; thorough: also 6-node mixes). "
          "sym shards: leaves = int fluent with bounds (s,s'), (s,None), (None,s), (None,None), real fluent with bounds (s,s') "
          "(integer-valued; halves in the thorough tier), int constant s, real constant s -- every s an UNBOUNDED solver integer; "
          "every 1-node and 3-node tree over every leaf-kind combination; 4/5-node trees over reduced leaf pools in the quick tier; "
          "divisors in sym shards: half-/un-bounded or non-point bounded fluents and concrete constants -4,-3,-1,1,2,7. "
          "conc shards: leaves from a pool of 15 int types, 13 real types (bounds in {None,-4,-3,-2,-3/2,0,1/2,2,3}) and 7 "
          "constants; every 3-node tree over the full pool, 4/5-node trees over a 7-kind pool (quick) / 16-kind pool (thorough). "
          "layer 1c: binary trees over constants / bounds of magnitude 2^1100. "
          "layer 2: Div(l, r), Div(x:[a,b], r), Div(x:[a,None] / [None,b], r), int and real dividends, with l, r, a, b integers of "
          "magnitude <= 2^53 (plus a shard with magnitude < 1000). layer 3: 14 x 14 ordered operand pairs")
OUTSIDE = ("larger trees; real bounds / constants with symbolic denominators; symbolic real bounds next to unbounded operands "
           "(concrete there); symbolic constant divisors in layer 1 (all values are covered by layer 2 for Div(l, r) only); "
           "timing arithmetic; operands above 2^53 in layer 2 when walk_div divides floats")
ASSUMPTIONS = [
    "sym shards: CrossHair's float model is pinned to its real-based one; the type checker only ever mixes the floats "
    "+inf/-inf (and 0*inf = nan) with the integer bounds, for which Python's int/float comparison and arithmetic are "
    "exact below 2^1024 -- the model is exact there; every counterexample is replayed without any model",
    "sym shards: the module global `math` of type_checker.py is wrapped so that math.isnan(<int or Fraction>) answers "
    "False without converting (CrossHair would realise the value); exact for magnitudes below 2^1024",
    "sym shards: hash-consing tables keyed syntactically (S2'); node sharing is not the subject here",
    "sym shards with '/': constant divisors are concrete (pool -4,-3,-1,1,2,7) and bounded divisor fluents are not point-typed, "
    "because exact Fraction division by a symbolic integer loops in gcd under CrossHair; all dividends stay symbolic. These "
    "shards decide the interval LOGIC of walk_div; all operand VALUES of Div(l, r) are decided in layer 2 (if walk_div used "
    "float division again, the pinned real-based float model would treat int / int as the exact quotient here and layer 2 "
    "would decide the rounding with the IEEE-754 encoding)",
    "layer 2 encodes: int / int  as  fp.div(RNE, to_fp(RNE, l), to_fp(RNE, r)) on Float64 (equal to Python's correctly "
    "rounded quotient because |l|, |r| <= 2^53 are exactly representable), float(+-inf) / int by sign, Fraction(float) "
    "as fp.to_real, Fraction(int[, int]) and Fraction arithmetic exactly in rationals, min/max/comparisons by forking "
    "on the sign of the difference; everything else of walk_div is the real code, executed on proxy operands; "
    "TypeManager.RealType is a recording stub in this layer",
    "division by a divisor whose type is the point 0 raises ZeroDivisionError in the checker: not a well-formed "
    "expression, pruned",
]


# ---------------------------------------------------------------------------------------------------------------
# skeleton grammar
# ---------------------------------------------------------------------------------------------------------------
# shapes: "L" is a leaf slot, ["o", a, b] a binary operator slot, ["n", a, b, c...] an n-ary +/* slot
SHAPES = {
    "leaf": "L",
    "bin": ["o", "L", "L"],
    "nary3": ["n", "L", "L", "L"],
    "left": ["o", ["o", "L", "L"], "L"],
    "right": ["o", "L", ["o", "L", "L"]],
    "nary4": ["n", "L", "L", "L", "L"],
    "nary-in-bin": ["o", ["n", "L", "L", "L"], "L"],   # 6 nodes
    "bin-in-nary": ["n", ["o", "L", "L"], "L", "L"],   # 6 nodes
}


def _count(shape, what):
    if shape == "L":
        return 1 if what == "L" else 0
    return (1 if shape[0] == what else 0) + sum(_count(s, what) for s in shape[1:])


# concrete pool of the "conc" shards: (lower, upper); None = unbounded.  Signs: negative / zero / positive on each side.
# Point types and constants (the divisor candidates of walk_div's constant branch) are powers of two so that the
# float division in walk_div is exact in this layer: its rounding is the subject of layer 2, decided for all operands.
CONC_INT = [(None, None), (None, -2), (None, 0), (None, 3), (-3, None), (0, None), (2, None),
            (-3, -2), (-3, 0), (-3, 3), (0, 0), (0, 3), (2, 3), (2, 2), (-4, -4)]
_H = Fraction(1, 2)
CONC_REAL = [(None, None), (None, -3 * _H), (None, 0), (None, _H), (-3 * _H, None), (0, None), (_H, None),
             (-3 * _H, -_H), (-3 * _H, _H), (0, _H), (_H, 3), (_H, _H), (-2, -2)]
CONC_CONST = [-4, -1, 0, 2, _H, -_H, Fraction(4)]     # Fraction(4): a REAL constant with an integer value
SYM_KINDS = ["Ib", "Il", "Iu", "In", "c", "Rb", "q"]
DIVISORS = [-4, -3, -1, 1, 2, 7]


def conc_kinds():
    return [f"i{j}" for j in range(len(CONC_INT))] + [f"r{j}" for j in range(len(CONC_REAL))] + \
           [f"k{j}" for j in range(len(CONC_CONST))]


def _unbounded_side(kind):
    if kind in ("Il", "Iu", "In"):
        return True
    if kind[0] in "ir" and kind[1:].isdigit():
        lo, hi = (CONC_INT if kind[0] == "i" else CONC_REAL)[int(kind[1:])]
        return lo is None or hi is None
    return False


def _pin_engine(ctx):
    """sym mode only: see ASSUMPTIONS (float model pinned, math.isnan shortcut for exact numbers)."""
    if ctx.mode != "sym":
        return
    import math

    from crosshair.libimpl.builtinslib import ModelingDirector, RealBasedSymbolicFloat
    from crosshair.statespace import context_statespace
    from crosshair.tracers import NoTracing
    import unified_planning.model.walkers.type_checker as tcm

    from vf import shims

    if not hasattr(shims.SynMap, "__delitem__"):  # create_node removes a rejected node from its table again
        def __delitem__(self, k):
            del self._d[self._k(k)]

        shims.SynMap.__delitem__ = __delitem__
    with NoTracing():
        context_statespace().extra(ModelingDirector).global_representations[float] = RealBasedSymbolicFloat
        if not isinstance(tcm.math, _MathProxy):
            tcm.math = _MathProxy(math)


class _MathProxy:
    def __init__(self, math):
        self._math = math

    def __getattr__(self, name):
        return getattr(self._math, name)

    def isnan(self, x):
        if isinstance(x, (int, Fraction)):
            return False
        return self._math.isnan(x)


def _frac(k, den):
    return Fraction(k) if den == 1 else Fraction(k, den)


def _leaf(ctx, env, i, kind, den=1, win=(None, None)):
    """-> FNode for leaf slot i of the given kind."""
    import unified_planning as up

    em, tm = env.expression_manager, env.type_manager

    def fluent(t):
        with ctx.untraced():
            f = up.model.Fluent(f"x{i}", t, environment=env)
        return em.FluentExp(f)

    if kind == "Ib":
        lo, hi = ctx.int(f"lo{i}", *win), ctx.int(f"hi{i}", *win)
        ctx.assume(lo <= hi)
        return fluent(tm.IntType(lo, hi))
    if kind == "Il":
        return fluent(tm.IntType(ctx.int(f"lo{i}", *win), None))
    if kind == "Iu":
        return fluent(tm.IntType(None, ctx.int(f"hi{i}", *win)))
    if kind == "In":
        return fluent(tm.IntType(None, None))
    if kind == "c":
        return em.Int(ctx.int(f"c{i}", *win))
    if kind == "cd":   # concrete constant (divisor candidates in the sym shards: Fraction division by a symbolic
        return em.Int(DIVISORS[ctx.choice(f"cd{i}", len(DIVISORS))])  # integer would loop in gcd)
    if kind == "Ibn":  # bounded, not a point
        lo, hi = ctx.int(f"lo{i}", *win), ctx.int(f"hi{i}", *win)
        ctx.assume(lo < hi)
        return fluent(tm.IntType(lo, hi))
    if kind == "Rb":
        lo, hi = ctx.int(f"lo{i}", *win), ctx.int(f"hi{i}", *win)
        ctx.assume(lo <= hi)
        return fluent(tm.RealType(_frac(lo, den), _frac(hi, den)))
    if kind == "q":
        return em.Real(_frac(ctx.int(f"c{i}", *win), den))
    j = int(kind[1:])
    if kind[0] == "i":
        return fluent(tm.IntType(*CONC_INT[j]))
    if kind[0] == "r":
        lo, hi = CONC_REAL[j]
        return fluent(tm.RealType(None if lo is None else Fraction(lo), None if hi is None else Fraction(hi)))
    if kind[0] == "k":
        v = CONC_CONST[j]
        return em.Real(v) if isinstance(v, Fraction) else em.Int(v)
    raise ValueError(kind)


def _is_zero_point(t):
    return (t.is_int_type() or t.is_real_type()) and t.lower_bound is not None and t.upper_bound is not None \
        and t.lower_bound == 0 and t.upper_bound == 0


def _build(ctx, env, shape, leaves, ops, text):
    """Builds the tree with the real constructors (the type checker runs inside create_node)."""
    em = env.expression_manager
    if shape == "L":
        e = next(leaves)
        text.append("L")
        return e
    tag = shape[0]
    op = next(ops)
    text.append("(" + op)
    args = [_build(ctx, env, s, leaves, ops, text) for s in shape[1:]]
    text.append(")")
    if op == "/":
        # x / y with y : [0,0] is not a well-formed expression (the checker raises ZeroDivisionError): prune
        ctx.assume(not _is_zero_point(args[1].type))
    if tag == "n":
        return (em.Plus if op == "+" else em.Times)(*args)
    return {"+": em.Plus, "-": em.Minus, "*": em.Times, "/": em.Div}[op](args[0], args[1])


def _interval_violation(e, t):
    """z3: exists leaf values within their types, divisors non-zero, value of e outside [t.lower_bound, t.upper_bound]."""
    import z3

    from vf.exprsem import ExprSem
    from vf.refsem import _real, znum

    I = ExprSem()
    v = I.term(e)
    bad = []
    if t.is_int_type() and v.sort() != z3.IntSort():
        bad.append(z3.BoolVal(True))  # an integer type for a real-valued expression
    if t.lower_bound is not None:
        bad.append(_real(v) < _real(znum(t.lower_bound)))
    if t.upper_bound is not None:
        bad.append(_real(v) > _real(znum(t.upper_bound)))
    qv = {n: x for n, (x, _t) in I.leaves.items()}
    if not bad:
        return False, qv
    return z3.And(I.domain(), I.defined(), z3.Or(bad)), qv


def h_interval(ctx, shape, combos=None, kinds=None, ops=None, op_lists=None, den=1, win=None):
    """combos: explicit list of leaf-kind tuples (one choice) or kinds: per-leaf choice among `kinds`;
    ops: per-operator choice among `ops`, or op_lists: explicit list of operator tuples."""
    from unified_planning.exceptions import UPTypeError

    _pin_engine(ctx)
    env = ctx.fresh_env(hashcons="syntactic")
    sh = SHAPES[shape]
    n_leaves, n_bin, n_nary = _count(sh, "L"), _count(sh, "o"), _count(sh, "n")
    if op_lists is not None:
        opl = list(op_lists[ctx.choice("ops", len(op_lists))])
    else:
        opl = None
    if combos is not None:
        ks = list(combos[ctx.choice("combo", len(combos))])
    else:
        ks = [kinds[ctx.choice(f"kind{i}", len(kinds))] for i in range(n_leaves)]
    # symbolic Fraction bounds next to an unbounded side would make the checker compute float(Fraction): concrete only
    ctx.assume(not (any(k in ("Rb", "q") for k in ks) and any(_unbounded_side(k) for k in ks)))
    leaves = [_leaf(ctx, env, i, k, den=den, win=win or (None, None)) for i, k in enumerate(ks)]

    def op_iter():
        i = 0
        pos = [0]

        def walk(s):
            if s == "L":
                return
            yield s[0]
            for c in s[1:]:
                yield from walk(c)

        for tag in walk(sh):
            if opl is not None:
                o = opl[i]
            elif tag == "n":
                o = [x for x in ops if x in "+*"][ctx.choice(f"op{i}", len([x for x in ops if x in "+*"]))]
            else:
                o = ops[ctx.choice(f"op{i}", len(ops))]
            i += 1
            yield o

    text = []
    try:
        e = _build(ctx, env, sh, iter(leaves), op_iter(), text)
        t = e.type
    except UPTypeError:
        ctx.fail("rejected:" + "".join(text), f"a well-formed numeric expression over leaves {ks} is rejected by the type checker")
    skel = "".join(text)
    ctx.note("skeleton", skel + " " + ",".join(ks))
    ctx.check(t.is_int_type() or t.is_real_type(), "not-numeric", f"{skel} over {ks}: inferred type is not numeric")
    has_div = "/" in skel
    ctx.witness("typed")
    ctx.forall(lambda: _interval_violation(e, t), None, "unsound-interval:" + ("div" if has_div else "nodiv"),
               f"skeleton {skel} over leaf kinds {ks}: a value of the expression (leaves within their declared types) lies "
               f"outside the inferred type")


# ---------------------------------------------------------------------------------------------------------------
# layer 1b: exactness for leaves, Boolean and user-typed expressions
# ---------------------------------------------------------------------------------------------------------------
def h_exact(ctx):
    import unified_planning as up
    from unified_planning.model.types import BOOL

    _pin_engine(ctx)
    env = ctx.fresh_env(hashcons="syntactic")
    em, tm = env.expression_manager, env.type_manager
    a, b, c = ctx.int("a"), ctx.int("b"), ctx.int("c")
    ctx.assume(a <= b)
    with ctx.untraced():
        T = tm.UserType("T")
        S = tm.UserType("S", T)
        o = up.model.Object("o", S, env)
    ti, tr = tm.IntType(a, b), tm.RealType(Fraction(a), Fraction(b))
    with ctx.untraced():
        fi = up.model.Fluent("fi", ti, environment=env)
        fr = up.model.Fluent("fr", tr, environment=env)
        fb = up.model.Fluent("fb", tm.BoolType(), environment=env, p=T)
        fs = up.model.Fluent("fs", S, environment=env, p=T)
        pT = up.model.Parameter("pt", T, env)
        pi = up.model.Parameter("pi", ti, env)
        vS = up.model.Variable("vs", S, env)
    which = ctx.choice("case", 12)
    xi, xr = em.FluentExp(fi), em.FluentExp(fr)

    def same_bounds(t, lo, hi, real):
        return (t.is_real_type() if real else t.is_int_type()) and t.lower_bound == lo and t.upper_bound == hi

    if which == 0:
        ctx.check(xi.type is ti, "exact:int-fluent", "an int fluent expression does not have the fluent's type")
    elif which == 1:
        ctx.check(xr.type is tr, "exact:real-fluent", "a real fluent expression does not have the fluent's type")
    elif which == 2:
        t = em.Int(c).type
        ctx.check(same_bounds(t, c, c, False), "exact:int-constant", "Int(c) is not typed int[c, c]")
    elif which == 3:
        t = em.Real(Fraction(c, 2)).type
        ctx.check(same_bounds(t, Fraction(c, 2), Fraction(c, 2), True), "exact:real-constant", "Real(c/2) is not typed real[c/2, c/2]")
    elif which == 4:
        ctx.check(em.ParameterExp(pi).type is ti and em.ParameterExp(pT).type is T, "exact:parameter", "a parameter expression does not have the parameter's type")
    elif which == 5:
        ctx.check(em.ObjectExp(o).type is S and em.VariableExp(vS).type is S, "exact:object", "object / variable expression type differs from the declared one")
    elif which == 6:
        e = em.FluentExp(fs, [em.ObjectExp(o)])
        ctx.check(e.type is S, "exact:user-fluent", "a user-typed fluent applied to a subtype object does not have exactly the fluent's type")
    elif which == 7:
        e = em.FluentExp(fs, [em.FluentExp(fs, [em.ParameterExp(pT)])])
        ctx.check(e.type is S, "exact:user-nested", "nested user-typed fluent expression mistyped")
    elif which == 8:
        es = [em.LE(xi, em.Int(c)), em.LT(xr, xi), em.Equals(xi, xr), em.Equals(em.ObjectExp(o), em.ParameterExp(pT)),
              em.FluentExp(fb, [em.ObjectExp(o)])]
        for e in es:
            ctx.check(e.type is BOOL, "exact:bool-atom", "a relation / Boolean fluent is not typed bool")
    elif which == 9:
        p, q = em.LE(em.Plus(xi, c), xr), em.FluentExp(fb, [em.ParameterExp(pT)])
        es = [em.And(p, q), em.Or(p, q), em.Not(p), em.Implies(p, q), em.Iff(p, q), em.Exists(em.FluentExp(fb, [em.VariableExp(vS)]), vS),
              em.Forall(em.Or(p, em.FluentExp(fb, [em.VariableExp(vS)])), vS)]
        for e in es:
            ctx.check(e.type is BOOL, "exact:bool-connective", "a Boolean connective / quantifier is not typed bool")
    elif which == 10:
        e = em.Plus(xi, xi)
        ctx.check(e.type.is_int_type(), "exact:int-closed", "a sum of int fluents is not typed int")
        e = em.Times(xi, em.Int(c))
        ctx.check(e.type.is_int_type(), "exact:int-closed", "a product of ints is not typed int")
    else:
        e = em.Plus(xi, xr)
        ctx.check(e.type.is_real_type(), "exact:real-absorbs", "int + real is not typed real")
        with ctx.untraced():
            fn = up.model.Fluent("fn", tm.IntType(), environment=env)
        e = em.Div(xi, em.FluentExp(fn))
        ctx.check(e.type.is_real_type(), "exact:div-real", "a quotient of ints is not typed real")
    ctx.witness("exact")


# ---------------------------------------------------------------------------------------------------------------
# layer 1c: constants and bounds beyond the float range (the checker mixes float infinities with exact bounds)
# ---------------------------------------------------------------------------------------------------------------
HUGE = 2 ** 1100
HUGE_KINDS = ["n", "l", "u", "b", "r", "hb", "H", "-H", "RH", "c3", "q"]


def _huge_leaf(env, i, kind):
    import unified_planning as up

    em, tm = env.expression_manager, env.type_manager
    F = lambda t: em.FluentExp(up.model.Fluent(f"x{i}", t, environment=env))  # noqa: E731
    return {
        "n": lambda: F(tm.IntType()), "l": lambda: F(tm.IntType(-2, None)), "u": lambda: F(tm.IntType(None, 5)),
        "b": lambda: F(tm.IntType(-3, 4)), "r": lambda: F(tm.RealType()), "hb": lambda: F(tm.IntType(-HUGE, HUGE)),
        "H": lambda: em.Int(HUGE), "-H": lambda: em.Int(-HUGE), "RH": lambda: em.Real(Fraction(HUGE, 3)),
        "c3": lambda: em.Int(3), "q": lambda: em.Real(Fraction(-1, 2)),
    }[kind]()


def h_huge(ctx, ops):
    """Well-formed arithmetic over constants / bounds of magnitude 2^1100: the type must be inferred (no exception) and sound."""
    from unified_planning.exceptions import UPTypeError

    env = ctx.fresh_env(hashcons="syntactic")
    em = env.expression_manager
    op = ops[ctx.choice("op", len(ops))]
    kl = HUGE_KINDS[ctx.choice("l", len(HUGE_KINDS))]
    kr = HUGE_KINDS[ctx.choice("r", len(HUGE_KINDS))]
    ctx.assume(any(k in ("hb", "H", "-H", "RH") for k in (kl, kr)))
    l, r = _huge_leaf(env, 0, kl), _huge_leaf(env, 1, kr)
    skel = f"({kl} {op} {kr})"
    ctx.note("skeleton", skel)
    try:
        e = {"+": em.Plus, "-": em.Minus, "*": em.Times, "/": em.Div}[op](l, r)
        t = e.type
    except UPTypeError:
        ctx.fail("huge:rejected", f"{skel} with H = 2^1100 is rejected by the type checker")
    except (OverflowError, ValueError) as exc:
        ctx.fail(f"huge:{type(exc).__name__}", f"{skel} with H = 2^1100: the type checker raises {type(exc).__name__}: {exc}")
    ctx.witness("huge-typed")
    ctx.forall(lambda: _interval_violation(e, t), None, "unsound-interval:huge", f"{skel}: a value lies outside the inferred type {t}")


# ---------------------------------------------------------------------------------------------------------------
# layer 2: the real walk_div on IEEE-exact proxies
# ---------------------------------------------------------------------------------------------------------------
class _P:
    """Numeric proxy.  kind: 'int' (z3 Int term, optionally a 64-bit BV twin), 'rat' (z3 Real term, exact),
    'fp' (z3 Float64 term).  Python semantics of the operators used by interval arithmetic."""

    def __init__(self, eng, kind, term, bv=None, finite=False):
        # finite: (fp only) known to be neither infinite nor NaN by construction (quotient of bounded non-zero ints)
        self.eng, self.kind, self.term, self.bv, self.is_finite = eng, kind, term, bv, finite or kind != "fp"

    # -- conversions
    def real(self):
        import z3

        if self.kind == "int":
            return z3.ToReal(self.term)
        if self.kind == "rat":
            return self.term
        return z3.fpToReal(self.term)

    def fp(self):
        import z3

        F = z3.Float64()
        if self.kind == "fp":
            return self.term
        if self.kind == "int" and self.bv is not None:
            if callable(self.bv):
                self.bv = self.bv()  # the 64-bit twin is only created when a float conversion really happens
            return z3.fpSignedToFP(z3.RNE(), self.bv, F)
        return z3.fpRealToFP(z3.RNE(), self.real(), F)

    def _lift(self, o):
        import z3

        if isinstance(o, _P):
            return o
        if isinstance(o, bool):
            raise TypeError("bool operand")
        if isinstance(o, int):
            return _P(self.eng, "int", z3.IntVal(o), z3.BitVecVal(o, 64) if -2**63 <= o < 2**63 else None)
        if isinstance(o, Fraction):
            return _P(self.eng, "rat", z3.RealVal(o))
        if isinstance(o, float):
            if o != o or o in (float("inf"), float("-inf")):
                return o
            return _P(self.eng, "fp", z3.FPVal(o, z3.Float64()))
        raise TypeError(f"proxy operand {type(o)}")

    def _arith(self, o, op, swap=False):
        import z3

        o = self._lift(o)
        if isinstance(o, float):  # +-inf / nan
            return self._with_nonfinite(o, op, swap)
        a, b = (o, self) if swap else (self, o)
        if a.kind == "fp" or b.kind == "fp":
            if a.kind == "rat" or b.kind == "rat":  # Fraction op float -> float(Fraction) op float
                pass
            x, y, rm = a.fp(), b.fp(), z3.RNE()
            t = {"+": z3.fpAdd, "-": z3.fpSub, "*": z3.fpMul, "/": z3.fpDiv}[op](rm, x, y)
            if op == "/":
                self.eng.nonzero(b)
            return _P(self.eng, "fp", t)
        if op == "/":
            self.eng.nonzero(b)
            if a.kind == "int" and b.kind == "int":  # int / int: correctly rounded float quotient
                # |a|, |b| < 2^63 and b != 0 (BV twins)  =>  |a/b| < 2^63: finite, not NaN
                return _P(self.eng, "fp", z3.fpDiv(z3.RNE(), a.fp(), b.fp()), finite=a.bv is not None and b.bv is not None)
            return _P(self.eng, "rat", a.real() / b.real())
        if a.kind == "int" and b.kind == "int":
            t = {"+": a.term + b.term, "-": a.term - b.term, "*": a.term * b.term}[op]
            return _P(self.eng, "int", t)
        x, y = a.real(), b.real()
        return _P(self.eng, "rat", {"+": x + y, "-": x - y, "*": x * y}[op])

    def _with_nonfinite(self, f, op, swap):
        """self (finite) op +-inf, Python float semantics (int/Fraction are converted to float first)."""
        inf = float("inf")
        if f != f:
            return f
        if op in "+-":
            if op == "+":
                return f
            return f if swap else -f
        sgn = self.eng.sign(self)
        if op == "*":
            return float("nan") if sgn == 0 else (f if sgn > 0 else -f)
        # division
        if swap:  # inf / self
            if sgn == 0:
                raise ZeroDivisionError("division by zero")
            return f if sgn > 0 else -f
        import z3

        return _P(self.eng, "fp", z3.FPVal(0.0 if sgn >= 0 else -0.0, z3.Float64())) if self.kind == "fp" else 0.0 * sgn

    def __add__(self, o):
        return self._arith(o, "+")

    def __radd__(self, o):
        return self._arith(o, "+", True)

    def __sub__(self, o):
        return self._arith(o, "-")

    def __rsub__(self, o):
        return self._arith(o, "-", True)

    def __mul__(self, o):
        return self._arith(o, "*")

    def __rmul__(self, o):
        return self._arith(o, "*", True)

    def __truediv__(self, o):
        return self._arith(o, "/")

    def __rtruediv__(self, o):
        return self._arith(o, "/", True)

    def __neg__(self):
        import z3

        if self.kind == "fp":
            return _P(self.eng, "fp", z3.fpNeg(self.term))
        return _P(self.eng, self.kind, -self.term)

    # -- comparisons (exact: Python compares int/Fraction/float by value)
    def _cmp(self, o, op):
        import z3

        o = self._lift(o)
        if isinstance(o, float):
            if o != o:
                return op == "!="
            big = o > 0
            if self.kind == "fp" and not self.is_finite:  # the proxy itself may be infinite
                t = z3.fpIsInf(self.term)
                pos = z3.And(t, z3.Not(z3.fpIsNegative(self.term)))
                neg = z3.And(t, z3.fpIsNegative(self.term))
                same = pos if big else neg
                table = {"==": same, "!=": z3.Not(same), "<": z3.Not(same) if big else z3.BoolVal(False),
                         "<=": z3.BoolVal(True) if big else same, ">": z3.BoolVal(False) if big else z3.Not(same),
                         ">=": same if big else z3.BoolVal(True)}
                return self.eng.decide(table[op])
            return {"==": False, "!=": True, "<": big, "<=": big, ">": not big, ">=": not big}[op]
        if (self is o or self.term.eq(o.term)) and self.is_finite and o.is_finite and self.kind == o.kind:
            return op in ("==", "<=", ">=")
        if self.kind == "fp" and o.kind == "fp":
            f = {"==": z3.fpEQ, "!=": z3.fpNEQ, "<": z3.fpLT, "<=": z3.fpLEQ, ">": z3.fpGT, ">=": z3.fpGEQ}[op]
            return self.eng.decide(f(self.term, o.term))
        x, y = (self.term, o.term) if (self.kind == "int" and o.kind == "int") else (self.real(), o.real())
        t = {"==": x == y, "!=": x != y, "<": x < y, "<=": x <= y, ">": x > y, ">=": x >= y}[op]
        if self.kind == "fp" or o.kind == "fp":  # an infinite float compares by sign, a finite one by value
            fpx = self if self.kind == "fp" else o
            if not fpx.is_finite:
                self.eng.finite(fpx)
        return self.eng.decide(t)

    def __eq__(self, o):
        return self._cmp(o, "==")

    def __ne__(self, o):
        return self._cmp(o, "!=")

    def __lt__(self, o):
        return self._cmp(o, "<")

    def __le__(self, o):
        return self._cmp(o, "<=")

    def __gt__(self, o):
        return self._cmp(o, ">")

    def __ge__(self, o):
        return self._cmp(o, ">=")

    __hash__ = None

    def __bool__(self):
        return self._cmp(0, "!=")


class _Eng:
    """Branch bookkeeping of the proxy run: path condition + DFS through ctx.choice."""

    def __init__(self, ctx, timeout_ms=20000):
        import z3

        self.ctx, self.pc, self.n, self.known = ctx, [], 0, {}
        self.z3 = z3
        self.timeout_ms = timeout_ms

    def feasible(self):
        """is the path condition satisfiable?  (only asked when the real code raises on the path)"""
        s = self.z3.Solver()
        s.set("timeout", self.timeout_ms)
        s.add(self.pc)
        return s.check()

    def decide(self, cond):
        """Fork on a symbolic condition.  Feasibility is NOT checked here (floating-point queries are expensive):
        the literal joins the path condition, which is part of the final query; an infeasible path ends unsat."""
        z3 = self.z3
        cond = z3.simplify(cond)
        if z3.is_true(cond):
            return True
        if z3.is_false(cond):
            return False
        key = cond.sexpr()
        if key in self.known:
            return self.known[key]
        v = bool(self.ctx.choice(f"br{self.n}", 2))
        self.n += 1
        lit = cond if v else z3.Not(cond)
        self.pc.append(lit)
        self.known[key] = v
        return v

    def assume_fact(self, cond):
        self.pc.append(cond)
        self.known[self.z3.simplify(cond).sexpr()] = True

    def sign(self, p):
        if self.decide(p.real() > 0 if p.kind != "fp" else self.z3.fpGT(p.term, self.z3.FPVal(0.0, self.z3.Float64()))):
            return 1
        if self.decide(p.real() < 0 if p.kind != "fp" else self.z3.fpLT(p.term, self.z3.FPVal(0.0, self.z3.Float64()))):
            return -1
        return 0

    def nonzero(self, p):
        """Python raises ZeroDivisionError on a zero divisor: fork, the zero side raises."""
        z3 = self.z3
        c = (p.term != 0) if p.kind == "int" else (p.real() != 0 if p.kind == "rat" else z3.Not(z3.fpIsZero(p.term)))
        if not self.decide(c):
            raise ZeroDivisionError("division by zero")

    def finite(self, p):
        z3 = self.z3
        if not self.decide(z3.Not(z3.Or(z3.fpIsInf(p.term), z3.fpIsNaN(p.term)))):
            raise _Unsupported("comparison of a non-finite float proxy with an exact number")


class _Unsupported(Exception):
    pass


def _proxy_fraction(eng):
    """Replacement of the name `Fraction` inside type_checker.py during the proxy run: exact on proxies."""
    import z3

    class PFraction(Fraction):
        def __new__(cls, numerator=0, denominator=None):
            if isinstance(numerator, _P) or isinstance(denominator, _P):
                n = numerator if isinstance(numerator, _P) else _P(eng, "int", z3.IntVal(0))._lift(numerator)
                if denominator is None:
                    if n.kind == "fp" and not n.is_finite:
                        eng.finite(n)  # Fraction(inf) / Fraction(nan) raise
                    return _P(eng, "rat", n.real())
                d = denominator if isinstance(denominator, _P) else n._lift(denominator)
                eng.nonzero(d)
                return _P(eng, "rat", n.real() / d.real())
            return Fraction.__new__(Fraction, numerator, denominator)

    return PFraction


class _StubType:
    def __init__(self, lo, hi, real=False):
        self.lower_bound, self.upper_bound, self._real = lo, hi, real

    def is_int_type(self):
        return not self._real

    def is_real_type(self):
        return self._real

    def is_bool_type(self):
        return False

    def is_user_type(self):
        return False

    def is_time_type(self):
        return False


class _StubTM:
    def __init__(self):
        self.calls = []

    def RealType(self, lower_bound=None, upper_bound=None):
        self.calls.append(("real", lower_bound, upper_bound))
        return self.calls[-1]

    def IntType(self, lower_bound=None, upper_bound=None):
        self.calls.append(("int", lower_bound, upper_bound))
        return self.calls[-1]


class _StubEnv:
    def __init__(self):
        self.type_manager = _StubTM()


def _exact_in(lo, hi, q):
    return (lo is None or Fraction(lo) <= q) and (hi is None or q <= Fraction(hi))


def h_divconst(ctx, dividend, mag_bits=53, small=None, real_dividend=False):
    """dividend: 'const' Div(l, r) | 'interval' Div(x:[a,b], r) | 'lower' Div(x:[a,None], r) | 'upper' Div(x:[None,b], r)."""
    import unified_planning as up
    from unified_planning.exceptions import UPTypeError

    if isinstance(dividend, list):  # several variants in one shard: [[dividend, real_dividend], ...]
        dividend, real_dividend = dividend[ctx.choice("variant", len(dividend))]
    env = ctx.fresh_env(hashcons="syntactic")
    em, tm = env.expression_manager, env.type_manager

    def real_verdict(m):
        """Replay on the real type checker with exact rationals. m: {'l':..,'h':..,'r':..}"""
        l, h, r = (None if m.get(k) is None else int(m[k]) for k in ("l", "h", "r"))
        if dividend == "const":
            num = em.Int(l)
            pts = [l]
        else:
            lo = l if dividend in ("interval", "lower") else None
            hi = h if dividend in ("interval", "upper") else None
            t0 = tm.RealType(lo, hi) if real_dividend else tm.IntType(lo, hi)
            num = em.FluentExp(up.model.Fluent("x", t0, environment=env))
            pts = [p for p in (lo, hi) if p is not None]
        t = em.Div(num, em.Int(r)).type
        out = [p for p in pts if not _exact_in(t.lower_bound, t.upper_bound, Fraction(p, r))]
        if out:
            ctx.note("real", f"Div({'x:' + str(t0) if dividend != 'const' else l}, {r}).type = {t}; {out[0]}/{r} lies outside")
        return bool(out)

    if ctx.mode == "replay":
        # the recorded model is judged by the real code alone
        ctx.forall(None, real_verdict, "div-interval-unsound",
                   "the inferred type of a division by a non-zero integer constant does not contain the exact quotient "
                   f"(recorded operands: {[m['model'] for m in ctx.models]})")
        return

    import z3
    import unified_planning.model.walkers.type_checker as tcm
    from unified_planning.model.walkers.type_checker import TypeChecker

    eng = _Eng(ctx)
    bound = (small - 1) if small else 2 ** mag_bits

    def sym_int(name):
        it = z3.Int(name)
        eng.pc.append(z3.And(it >= -bound, it <= bound))

        def twin():  # 64-bit signed twin for int -> float conversion (only if the code under test divides floats)
            bv = z3.BitVec(name + "!bv", 64)
            eng.pc.append(z3.BV2Int(bv, is_signed=True) == it)
            return bv

        return _P(eng, "int", it, twin), it

    (r, rbv) = sym_int("r")
    eng.assume_fact(r.term != 0)
    qv = {"r": r.term}
    lo = hi = None
    if dividend in ("const", "interval", "lower"):
        lo, lbv = sym_int("l")
        qv["l"] = lo.term
    if dividend == "const":
        hi = lo
    elif dividend in ("interval", "upper"):
        hi, hbv = sym_int("h")
        qv["h"] = hi.term
        if lo is not None:
            eng.pc.append(lbv <= hbv)
    if real_dividend:
        lo = None if lo is None else _P(eng, "rat", lo.real())
        hi = lo if dividend == "const" else (None if hi is None else _P(eng, "rat", hi.real()))
    TL, TR = _StubType(lo, hi, real=real_dividend), _StubType(r, r)
    senv = _StubEnv()
    tc = TypeChecker.__new__(TypeChecker)
    tc.environment = senv
    saved = tcm.Fraction
    tcm.Fraction = _proxy_fraction(eng)
    try:
        try:
            TypeChecker.walk_div(tc, None, [TL, TR])
        finally:
            tcm.Fraction = saved
    except (ZeroDivisionError, _Unsupported, OverflowError, ValueError) as exc:
        f = eng.feasible()
        if f == z3.unsat:
            ctx.assume(False)  # the branch decisions taken on this path are contradictory
        if f == z3.unknown:
            ctx.forall_unknown += 1
            ctx.assume(False)
        ctx.fail(f"div-raises:{type(exc).__name__}", f"walk_div raises {type(exc).__name__} for a non-zero integer divisor: {exc}")
    ctx.check(len(senv.type_manager.calls) == 1 and senv.type_manager.calls[0][0] == "real", "div-not-real",
              "walk_div did not build exactly one RealType")
    _k, rl, ru = senv.type_manager.calls[0]

    def as_real(b):
        if b is None:
            return None
        if isinstance(b, _P):
            return b.real()
        return z3.RealVal(Fraction(b))

    zl, zu = as_real(rl), as_real(ru)

    def build():
        # v / r is monotone in v and [zl, zu] is convex: some value of the dividend escapes iff an endpoint escapes, or the
        # dividend is unbounded towards a side on which the result has a bound.  Division-free, split on the sign of r.
        rr = r.real()
        pos, neg = rr > 0, rr < 0

        def escapes(p):  # p / r < zl or p / r > zu
            lowp = ([p < zl * rr] if zl is not None else [])
            upp = ([p > zu * rr] if zu is not None else [])
            lown = ([p > zl * rr] if zl is not None else [])
            upn = ([p < zu * rr] if zu is not None else [])
            return z3.Or(z3.And(pos, z3.Or(lowp + upp)), z3.And(neg, z3.Or(lown + upn)))

        cases = []
        for end, towards_minus in ((lo, True), (hi, False)):
            if end is not None:
                cases.append(escapes(end.real()))
            else:  # v -> -inf (towards_minus) or +inf
                lower_hit = pos if towards_minus else neg   # quotient -> -inf
                upper_hit = neg if towards_minus else pos   # quotient -> +inf
                if zl is not None:
                    cases.append(lower_hit)
                if zu is not None:
                    cases.append(upper_hit)
        if lo is hi and lo is not None:
            cases = cases[:1]
        if not cases:
            return False, qv
        return z3.And(eng.pc + [z3.Or(cases)]), qv

    ctx.note("encoding", "float" if any(isinstance(b, _P) and _has_fp(b.term) for b in (rl, ru)) else "exact")
    ctx.witness("div-path-" + ctx.notes["encoding"])
    ctx.forall(build, real_verdict, "div-interval-unsound",
               "the inferred type of a division by a non-zero integer constant does not contain the exact quotient")


def _has_fp(term):
    import z3

    seen, todo = set(), [term]
    while todo:
        t = todo.pop()
        if t.get_id() in seen:
            continue
        seen.add(t.get_id())
        if z3.is_fp(t):
            return True
        todo.extend(t.children())
    return False


# ---------------------------------------------------------------------------------------------------------------
# layer 3: symmetry of Equals
# ---------------------------------------------------------------------------------------------------------------
OPERANDS = ["bool-fluent", "bool-const", "int-fluent", "int-bounded", "real-fluent", "int-const", "real-const",
            "T-fluent", "T-object", "S-object", "S-param", "U-object", "U-var", "time"]
_CLASS = {"bool-fluent": "bool", "bool-const": "bool", "int-fluent": "numeric", "int-bounded": "numeric", "real-fluent": "numeric",
          "int-const": "numeric", "real-const": "numeric", "T-fluent": "user", "T-object": "user", "S-object": "user", "S-param": "user",
          "U-object": "user", "U-var": "user", "time": "time"}


def _operand(env, kind):
    import unified_planning as up

    em, tm = env.expression_manager, env.type_manager
    T = tm.UserType("T")
    S = tm.UserType("S", T)
    U = tm.UserType("U")
    F = lambda n, t: em.FluentExp(up.model.Fluent(n, t, environment=env))  # noqa: E731
    return {
        "bool-fluent": lambda: F("b", tm.BoolType()),
        "bool-const": lambda: em.TRUE(),
        "int-fluent": lambda: F("i", tm.IntType()),
        "int-bounded": lambda: F("ib", tm.IntType(0, 5)),
        "real-fluent": lambda: F("r", tm.RealType()),
        "int-const": lambda: em.Int(5),
        "real-const": lambda: em.Real(Fraction(1, 2)),
        "T-fluent": lambda: F("t", T),
        "T-object": lambda: em.ObjectExp(up.model.Object("ot", T, env)),
        "S-object": lambda: em.ObjectExp(up.model.Object("os", S, env)),
        "S-param": lambda: em.ParameterExp(up.model.Parameter("ps", S, env)),
        "U-object": lambda: em.ObjectExp(up.model.Object("ou", U, env)),
        "U-var": lambda: em.VariableExp(up.model.Variable("vu", U, env)),
        "time": lambda: em.TimingExp(up.model.StartTiming()),
    }[kind]()


def _accepted(ctx, kl, kr):
    from unified_planning.exceptions import UPTypeError

    env = ctx.fresh_env(hashcons="syntactic")
    l, r = _operand(env, kl), _operand(env, kr)
    try:
        e = env.expression_manager.Equals(l, r)
        return e.type.is_bool_type()
    except UPTypeError:
        return False


def h_symmetry(ctx, left=None):
    kl = left if left is not None else OPERANDS[ctx.choice("l", len(OPERANDS))]
    kr = OPERANDS[ctx.choice("r", len(OPERANDS))]
    a, b = _accepted(ctx, kl, kr), _accepted(ctx, kr, kl)
    cls = "/".join(sorted((_CLASS[kl], _CLASS[kr])))
    ctx.check(a == b, f"asym:{cls}", f"Equals({kl}, {kr}) is {'accepted' if a else 'rejected'} but Equals({kr}, {kl}) is "
              f"{'accepted' if b else 'rejected'}")
    # sanity anchors (documented: Equals is not for Booleans; same-type operands are comparable)
    if kl == kr and _CLASS[kl] != "bool":
        ctx.check(a, "refl-rejected", f"Equals({kl}, {kl}) rejected")
    if _CLASS[kl] == "bool" and _CLASS[kr] == "bool":
        ctx.check(not a, "bool-equals-accepted", "Equals on two Boolean operands accepted (documented: use Iff)")
    ctx.witness("accepted-pair" if a else "rejected-pair")


# ---------------------------------------------------------------------------------------------------------------
def _sym_combos(n, kinds):
    import itertools

    out = []
    for ks in itertools.product(kinds, repeat=n):
        if any(k in ("Rb", "q") for k in ks) and any(_unbounded_side(k) for k in ks):
            continue
        out.append(list(ks))
    return out


NM = {"+": "plus", "-": "minus", "*": "times", "/": "div"}
# reduced concrete pools for the deeper trees of the quick tier: one representative per sign pattern
POOL7 = ["i0", "i1", "i4", "i9", "i13", "r8", "k4"]           # (None,None) (None,-2) (-3,None) (-3,3) (2,2) real(-3/2,1/2) 1/2
POOL16 = ["i0", "i1", "i3", "i4", "i6", "i8", "i9", "i10", "i13", "i14", "r0", "r3", "r4", "r8", "k0", "k4"]


def shards(tier, seed):
    out = []
    quick = tier == "quick"
    B, PP = (150, 20) if quick else (900, 40)

    def sym(name, shape, combos, op_lists, **kw):
        out.append(dict(name="sym-" + name, fn="h_interval", kwargs=dict(shape=shape, combos=combos, op_lists=op_lists, **kw),
                        budget=B, per_path=PP))

    def conc(name, shape, kinds, op_lists):
        out.append(dict(name="conc-" + name, fn="h_interval", kwargs=dict(shape=shape, kinds=kinds, op_lists=op_lists),
                        budget=B, per_path=PP, engine="direct", query_timeout=20))

    def div(name, **kw):
        # FloatingPoint queries take 10-40 s of CPU each on the unrepaired tree (pure LRA and instant once walk_div is exact)
        out.append(dict(name="div-" + name, fn="h_divconst", kwargs=kw, budget=600 if quick else 1500, engine="direct",
                        query_timeout=600 if quick else 900))

    PAIRS = [[a, b] for a in "+-*" for b in "+-*"]          # [top, inner] in pre-order
    PAIRS4 = [[a, b] for a in "+-*/" for b in "+-*/"]
    K = conc_kinds()
    c2 = _sym_combos(2, SYM_KINDS)

    # ---- layer 1, symbolic bounds and constants: every 1- and 3-node tree over every leaf-kind combination (both tiers)
    sym("leaf", "leaf", _sym_combos(1, SYM_KINDS), [[]])
    sym("bin-plus-minus", "bin", c2, [["+"], ["-"]])
    for nm, firsts in (("Ib", ["Ib"]), ("half-In-c-q", ["Il", "Iu", "In", "c", "q"]), ("Rb", ["Rb"])):
        sym(f"bin-times-{nm}", "bin", [c for c in c2 if c[0] in firsts], [["*"]])
    INTK = ["Ib", "Il", "Iu", "In", "c"]
    sym("bin-div", "bin", [[a, b] for a in INTK for b in ["Ibn", "Il", "Iu", "In", "cd"]], [["/"]])
    # ---- layer 1, concrete bounds, every 3-node tree over the full pool (both tiers)
    conc("bin-plus-minus", "bin", K, [["+"], ["-"]])
    conc("bin-times-div", "bin", K, [["*"], ["/"]])
    if quick:
        slim = [["Ib", "Ib", "c"], ["c", "Ib", "Ib"], ["Ib", "c", "Il"], ["Iu", "Ib", "Ib"]]
        for shape in ("left", "right"):
            sym(f"{shape}-top-plus-minus", shape, slim[:3], [p for p in PAIRS if p[0] in "+-"])
            sym(f"{shape}-top-times", shape, slim, [p for p in PAIRS if p[0] == "*"])
            conc(f"{shape}-top-plus-minus", shape, POOL7, [p for p in PAIRS4 if p[0] in "+-"])
            conc(f"{shape}-top-times-div", shape, POOL7, [p for p in PAIRS4 if p[0] in "*/"])
        sym("nary3-plus", "nary3", _sym_combos(3, ["Ib", "Il", "Iu", "c", "Rb"]), [["+"]])
        sym("nary3-times", "nary3", _sym_combos(3, ["Ib", "c"]) + [["Iu", "Ib", "c"], ["Ib", "Il", "Iu"]], [["*"]])
        sym("nary4-plus", "nary4", _sym_combos(4, ["Ib", "c"]), [["+"]])
        sym("nary4-times", "nary4", [["Ib", "c", "c", "Ib"], ["c", "Ib", "Ib", "c"], ["Ib", "Ib", "c", "c"]], [["*"]])
        conc("nary", "nary3", POOL7 + ["k0"], [["+"], ["*"]])
        # exact (rational) walk_div: every query is linear real arithmetic and instant; a float-based walk_div makes each of
        # these a FloatingPoint query of 10-60 s CPU
        div("const-small", dividend="const", small=1000)
        div("const-2^53", dividend="const")
        div("intervals-2^53", dividend=[["interval", False], ["lower", False], ["upper", False], ["interval", True], ["const", True]])
    else:
        I4 = ["Ib", "Il", "Iu", "c"]
        for shape in ("left", "right"):
            for p in PAIRS:
                sym(f"{shape}-{NM[p[0]]}-{NM[p[1]]}-int", shape, _sym_combos(3, I4 + ["In"]), [p])
            for top in "+-*":
                sym(f"{shape}-top-{NM[top]}-real", shape, [c for c in _sym_combos(3, ["Ib", "Rb", "c", "q"]) if "Rb" in c or "q" in c],
                    [p for p in PAIRS if p[0] == top])
            sym(f"{shape}-top-div-int", shape, _sym_combos(3, ["Ibn", "Iu", "cd"]), [p for p in PAIRS4 if p[0] == "/"])
            sym(f"{shape}-inner-div-int", shape, _sym_combos(3, ["Ibn", "Iu", "cd"]), [p for p in PAIRS4 if p[0] != "/" and p[1] == "/"])
        sym("bin-halves", "bin", _sym_combos(2, ["Ib", "c", "Rb", "q"]), [["+"], ["-"], ["*"]], den=2)
        sym("nary3-plus", "nary3", _sym_combos(3, SYM_KINDS), [["+"]])
        for k0 in I4:
            sym(f"nary3-times-{k0}", "nary3", [c for c in _sym_combos(3, I4) if c[0] == k0], [["*"]])
        sym("nary3-times-real", "nary3", [c for c in _sym_combos(3, ["Ib", "Rb", "q"]) if "Rb" in c or "q" in c], [["*"]])
        sym("nary4-plus", "nary4", _sym_combos(4, ["Ib", "Iu", "c", "Rb"]), [["+"]])
        sym("nary4-times", "nary4", _sym_combos(4, ["Ib", "c"]), [["*"]])
        for shape in ("nary-in-bin", "bin-in-nary"):
            sym(f"{shape}", shape, _sym_combos(4, ["Ib", "c"]), [[a, b] for a in "+-*" for b in "+*"] if shape == "nary-in-bin"
                else [[a, b] for a in "+*" for b in "+-*"])
        for shape in ("left", "right"):
            for top in "+-*/":
                conc(f"{shape}-top-{NM[top]}", shape, POOL16, [p for p in PAIRS4 if p[0] == top])
        conc("nary3-plus", "nary3", K, [["+"]])
        conc("nary3-times", "nary3", K, [["*"]])
        conc("nary4", "nary4", POOL7 + ["k0", "i10", "r3"], [["+"], ["*"]])
        for shape in ("nary-in-bin", "bin-in-nary"):
            conc(f"{shape}", shape, POOL7, [[a, b] for a in "+-*/" for b in "+*"] if shape == "nary-in-bin"
                 else [[a, b] for a in "+*" for b in "+-*/"])
        for d in ("const", "interval", "lower", "upper"):
            div(f"{d}-2^53", dividend=d)
            div(f"{d}-small", dividend=d, small=1000)
        div("real-interval-2^53", dividend="interval", real_dividend=True)
        div("real-const-2^53", dividend="const", real_dividend=True)
    # ---- layer 1c: magnitudes beyond the float range
    out.append(dict(name="huge", fn="h_huge", kwargs=dict(ops=["+", "-", "*", "/"]), budget=B, engine="direct", query_timeout=20))
    # ---- layer 1b and layer 3
    out.append(dict(name="exact", fn="h_exact", kwargs={}, budget=B, per_path=PP))
    out.append(dict(name="symmetry", fn="h_symmetry", kwargs={}, budget=B, engine="direct"))
    return out


MANIFEST = dict(
    engine="symex",
    technique="symbolic execution (CrossHair/z3) of the real TypeChecker on numeric expression skeletons with symbolic type bounds and constants; "
              "one SMT query per path for a leaf valuation whose value escapes the inferred interval (z3 NRA for products); "
              "IEEE-754-exact proxy execution of the real walk_div (z3 FloatingPoint) for division by constants; exhaustive Equals symmetry table",
    text="Bounded model checking: for every expression tree within the bounds and EVERY integer value of every type bound and constant, the inferred type "
         "contains every value the expression can take (unsat of the escape query on every path); division by non-zero constants is decided with an exact "
         "binary64 model of the arithmetic walk_div performs, over all operand pairs up to 2^53; Equals well-formedness is compared for all ordered operand-kind pairs.",
    note="Trusted: ExprSem (vf/exprsem.py) as the meaning of + - * /, CrossHair's int model, z3 (NRA, FP). Shims: float model pinned to reals in sym shards "
         "(only +-inf/nan floats occur there), math.isnan shortcut for exact numbers. Outside: trees > 5/6 nodes, symbolic denominators, magnitudes beyond the float range.",
)
