"""C15 Expression type inference is sound and symmetric.

Layer 1 (h_interval, symex / direct): numeric skeletons <= 5 nodes over int/real fluents and constants.  The real
TypeChecker computes the type while the ExpressionManager constructors build the node.  One solver query per path:
exists leaf values inside their declared types (divisors non-zero) with the value of e outside the inferred interval.
  * "sym" shards: every type bound and every constant is a solver variable (two-sided bounds), engine symex.
  * "conc" shards: unbounded / half-bounded / bounded fluents with concrete bounds from a sign-covering pool, engine
    direct (the type checker runs concretely, the leaf VALUES stay solver variables in the query).
Layer 1b (h_exact): Boolean / user-typed / leaf expressions get exactly their type.
Layer 2 (h_divconst): Div(l, r) of integer constants: IEEE-754 exact model of the arithmetic walk_div performs
  (regenerated from the current source), exists l, r != 0 with l/r outside [lower, upper]; replayed on the real checker.
Layer 3 (h_symmetry): accepted(Equals(l, r)) == accepted(Equals(r, l)) for all ordered pairs of typed operands.
"""
from fractions import Fraction

PROPERTY = "C15"
LEVEL = "model_checking"
FUNCTIONS = [
    "unified_planning.model.walkers.type_checker:TypeChecker.walk_plus",
    "unified_planning.model.walkers.type_checker:TypeChecker.walk_minus",
    "unified_planning.model.walkers.type_checker:TypeChecker.walk_times",
    "unified_planning.model.walkers.type_checker:TypeChecker.walk_div",
    "unified_planning.model.walkers.type_checker:TypeChecker.walk_equals",
    "unified_planning.model.walkers.type_checker:TypeChecker.walk_identity_int",
    "unified_planning.model.walkers.type_checker:TypeChecker.walk_identity_real",
    "unified_planning.model.walkers.type_checker:TypeChecker.walk_fluent_exp",
    "unified_planning.model.walkers.type_checker:TypeChecker.walk_bool_to_bool",
    "unified_planning.model.walkers.type_checker:TypeChecker.walk_math_relation",
    "unified_planning.model.walkers.type_checker:TypeChecker.get_type",
    "unified_planning.model.type_manager:TypeManager.IntType",
    "unified_planning.model.type_manager:TypeManager.RealType",
    "unified_planning.model.types:is_compatible_type",
    "unified_planning.model.expression:ExpressionManager.create_node",
]

# ---------------------------------------------------------------------------------------------------------------
# skeleton grammar
# ---------------------------------------------------------------------------------------------------------------
# shapes: nested lists; "L" is a leaf slot, ["op?", a, b] a binary operator slot, ["nary?", a, b, c] an n-ary +/* slot
SHAPES = {
    "leaf": "L",
    "bin": ["o", "L", "L"],
    "nary3": ["n", "L", "L", "L"],
    "left": ["o", ["o", "L", "L"], "L"],
    "right": ["o", "L", ["o", "L", "L"]],
    "nary4": ["n", "L", "L", "L", "L"],
    "nary-in-bin": ["o", ["n", "L", "L", "L"], "L"],  # 6 nodes: thorough only
}
OPS = ["+", "-", "*", "/"]

# concrete pool for the "conc" shards: (lower, upper); None = unbounded.  Signs: negative, zero, positive on each side;
# point types (divisor candidates for walk_div's constant-divisor branch) use powers of two so that the float
# division of walk_div is exact here (its rounding is the subject of layer 2, decided for all 64-bit operands).
CONC_TYPES = [
    (None, None), (None, -2), (None, 0), (None, 3), (-3, None), (0, None), (2, None),
    (-3, -2), (-3, 0), (-3, 3), (0, 0), (0, 3), (2, 3), (2, 2), (-4, -4),
]
CONC_CONSTS = [-4, -1, 0, 2]
