"""C38 Writer renamings are valid, injective and invertible.

What runs: the REAL PDDLWriter (get_domain, get_problem, get_pddl_name, get_item_named) and the REAL
ANMLWriter (get_problem) on a small real Problem built in a fresh Environment on every path.  The NAMES of
the model elements are the explored input: they are drawn by choice variables from adversarial pool slices
("families": a base name, its case variants, names equal to the mangled form the writers would produce for
OTHER names of the family, keywords, symbols, leading digits, non-ASCII, the empty name).  Engine: direct
(plain re-execution DFS over the choice variables; no tracer, no solver query).  Symbolic strings were probed
in the design phase (CrossHair realises them inside _get_pddl_name): out of reach, so the claim is the POOL.

Target-language definitions used as oracle (written here, not taken from the writers):
  * PDDL name:  a letter followed by letters, digits, '-' and '_', ASCII only (PDDL 2.1/3.1 BNF <name>);
    variables/parameters: '?' followed by a name.  PDDL is case-insensitive: every comparison of PDDL names
    (keywords, distinctness) is made on the lower-cased name.
  * PDDL reserved words demanded here: the alphabetic literal terminals of the BNF for the fragment written
    (define domain problem either and or not imply exists forall when assign scale-up scale-down increase
    decrease minimize maximize total-time number), for problems with durative actions also (at over start end
    all) and the variable ?duration.  Requirement names (":strips") are not names.  'object' (the predefined
    root type) is NOT demanded: the writer deliberately identifies a user type called 'object' with it.
    'at'/'start'/... are NOT demanded for problems without durative actions ('at' is an ordinary predicate of
    the classical benchmark domains).
  * PDDL namespaces: types | objects+constants | predicates+functions | actions | the parameters of ONE action
    (or of one predicate declaration).  The language lets a type, an object, a predicate and an action share a
    name, so distinctness is demanded within each category only (case-insensitively).  The inverse-lookup part
    of the property (get_item_named o get_pddl_name = id) is demanded for every element of every category and
    therefore forces the writer's map to be injective globally anyway.
  * ANML identifier: unified_planning/io/anml_grammar.py  identifier = Word(alphas + "_", alphanums + "_"),
    i.e. [A-Za-z_][A-Za-z0-9_]* ASCII, case-sensitive.  ANML keywords: the keywords of that grammar plus the
    keyword list of the ANML manual (literal copy below), compared case-sensitively.
  * ANML namespaces: types, fluents/constants, actions and instances live in ONE global scope; parameters are
    scoped per action / per fluent declaration.  Demanded: global names pairwise distinct; parameters of one
    declaration pairwise distinct; a parameter must not carry the name of a fluent or instance that the body
    of the same action refers to (whatever the scoping rule, the reference would be captured or ambiguous).
    A parameter equal to an unrelated global name is not demanded.
ANMLWriter has no public lookup and its name map is a local variable: the emitted names are read back from the
emitted text (declaration lines, positionally: the harness knows how many types/fluents/actions/instances it
built and in which order the writer emits them) and the references in the text (father types, parameter
types, instance types, goals) are compared with the declarations.
"""
import re

PROPERTY = "C38"
LEVEL = "exploration"
FUNCTIONS = [
    "unified_planning.io.pddl_writer:_get_pddl_name",
    "unified_planning.io.pddl_writer:PDDLWriter._get_mangled_name",
    "unified_planning.io.pddl_writer:PDDLWriter.get_item_named",
    "unified_planning.io.pddl_writer:PDDLWriter.get_pddl_name",
    "unified_planning.io.pddl_writer:PDDLWriter._write_domain",
    "unified_planning.io.pddl_writer:PDDLWriter._write_problem",
    "unified_planning.io.pddl_writer:PDDLWriter._write_parameters",
    "unified_planning.io.pddl_writer:PDDLWriter.__init__",
    "unified_planning.io.anml_writer:_is_valid_anml_name",
    "unified_planning.io.anml_writer:_get_anml_valid_name",
    "unified_planning.io.anml_writer:_get_anml_name",
    "unified_planning.io.anml_writer:ANMLWriter._write_problem",
]
BOUNDS = ("names from a fixed adversarial pool (about 140 distinct names; 8 families of 12-15 names per element category: "
          "case variants, the suffix forms _0/_1/_0_0 and the initial-letter forms x_/o_/f_/a_/p_ that the writers' mangling "
          "produces for OTHER names of the family, PDDL and ANML keywords in several case forms and with trailing '_', symbols, "
          "leading digits, non-ASCII, the empty name) plus a sweep of 103 keywords of both languages (three case forms, next to "
          "an element that already carries the keyword's mangled form); quick: every ordered pair of every family and every "
          "ordered triple of every family core (first 6 names) as the names of the elements of ONE category (types flat and "
          "hierarchical, objects, fluents, actions instantaneous and durative, parameters of two actions and one fluent "
          "signature), every assignment of one name of a 5-name sub-family to each of type/object/fluent/action/parameter, "
          "the same with equal names across categories (environment flag error_used_name off, 4 names), reader round trip "
          "for every single fluent name; thorough: every ordered 4-selection of every family, 7-name sub-families in the "
          "mixed shards, both orders in the sweep, reader round trip on every pair of every family core; one problem shape "
          "(Boolean fluents, one or two actions that refer to every fluent, parameter and one object, a goal on every fluent)")
OUTSIDE = ("every name outside the pool (symbolic strings are out of reach of the engine: the universal 'for every name' is "
           "NOT claimed); more than 4 adversarial names at once; quantifier variables, HTN tasks/methods, agents, processes, "
           "events, timed effects, trajectory constraints (PDDL3 keywords), contingent problems; PDDLWriter's plan writer; "
           "constructor flags needs_requirements/rewrite_bool_assignments/empty_preconditions (they do not reach the naming code)")
ASSUMPTIONS = [
    "engine 'direct': bounded exhaustive enumeration of the name pool through choice variables; solver role: none/low",
    "the reader round trips read into the global environment (ANMLReader and the default PDDLReader pipeline build "
    "their fluents without passing a non-global environment on); only element counts of the re-read problem are used",
    "model constructions that unified-planning itself rejects (duplicate names) prune the path",
]

# ----------------------------------------------------------------------------------------------------------
# target-language definitions (oracle side)
# ----------------------------------------------------------------------------------------------------------
PDDL_NAME = re.compile(r"[A-Za-z][A-Za-z0-9_\-]*")
ANML_IDENT = re.compile(r"[A-Za-z_][A-Za-z0-9_]*")

PDDL_BNF_WORDS = {"define", "domain", "problem", "either", "and", "or", "not", "imply", "exists", "forall", "when",
                  "assign", "scale-up", "scale-down", "increase", "decrease", "minimize", "maximize", "total-time",
                  "number"}
PDDL_BNF_TEMPORAL = {"at", "over", "start", "end", "all"}

# keywords of unified_planning/io/anml_grammar.py (every word given to keyword()/Keyword) ...
ANML_GRAMMAR_WORDS = {"action", "type", "instance", "fluent", "constant", "goal", "boolean", "integer", "float",
                      "rational", "infinity", "start", "end", "all", "duration", "and", "or", "xor", "implies", "not",
                      "true", "false", "when", "forall", "exists"}
# ... and of the ANML manual (Smith, Frank, Cushing: "The ANML language", keyword table)
ANML_MANUAL_WORDS = {"action", "and", "constant", "duration", "else", "fact", "fluent", "function", "goal", "in",
                     "instance", "motivated", "predicate", "symbol", "variable", "when", "with", "decomposition", "use",
                     "coincident", "comprise", "comprises", "contain", "contains", "exists", "forall", "implies", "iff",
                     "not", "or", "ordered", "unordered", "xor", "UNDEFINED", "all", "end", "false", "infinity", "object",
                     "start", "true", "boolean", "float", "rational", "integer", "string", "type", "set", "subset",
                     "powerset", "intersect", "union", "elt"}
ANML_WORDS = ANML_GRAMMAR_WORDS | ANML_MANUAL_WORDS

# words swept one by one (every category, three case forms): both languages' definitions and the writers' own tables
SWEEP_WORDS = sorted(PDDL_BNF_WORDS | PDDL_BNF_TEMPORAL | ANML_WORDS | {
    "object", "total-cost", "duration", "undefined", "preference", "always", "sometime", "within", "process", "event",
    "observe", "oneof", "unknown", "requirements", "types", "constants", "predicates", "action", "parameters",
    "precondition", "effect", "derived", "objects", "init", "goal", "metric", "strips", "typing", "equality", "fluents",
    "adl", "time", "durative-action", "condition", "constraints", "sqrt", "intersection", "functions"})

INITIAL = dict(types="x", objects="o", fluents="f", actions="a", params="p")
CATS = ("types", "objects", "fluents", "actions", "params")
# fixed names of the elements that are not under test in a shard (not in any family)
FIXED = dict(types="Kt", objects="ko", fluents="kf", actions="kact", params="kp")


def families(cat):
    """Pool slices.  `i` is the letter the writers prepend (with '_') to a name of this category that does not
    start with a letter, so that the family contains names EQUAL to the mangled forms of other family names.
    The first CORE names of each family are its most adversarial part (used where the full family is too large)."""
    i = INITIAL.get(cat, "o")
    return {k: list(dict.fromkeys(v)) for k, v in _families(i).items()}


def _families(i):
    return dict(
        case=["a", "A", "a_0", "A_0", "a_1", "a_0_0", "a_0_1", "Move", "move", "MOVE", "move_0", "Move_0"],
        digit=["1a", "1A", f"{i}_1a", f"{i}_1a_0", "0", f"{i}_0", f"{i.upper()}_1a", f"{i}_1a_1", "_1a", f"{i}__1a", "1-a",
               "x_1a" if i != "x" else "o_1a"],
        symbol=["a-b", "a_b", "a b", "a.b", "a_b_0", "A_b", "a?b", "A-B", "a_b_1", "a-b_0", "a__b", "a-"],
        pkw=["and", "AND", "and_", "and__0", "assign", "And", "AND_", "and__", "and_0", "and__1", "Assign", "assign_"],
        pkw2=["at", "AT", "at_", "object", "Object", "object_0", "at__0", "start", "OBJECT", "object_", "number",
              "total-cost", "duration"],
        akw=["action", "Action", "action_", "action__0", "type", "start", "action__", "action_0", "UNDEFINED", "undefined",
             "boolean", "float"],
        uni=["\u00e9", "", "_", f"{i}__", f"{i}_", f"{i}___0", "\u00c9", f"{i}__0", "a\u00e9", "a\u00e8", "a_", "a__0",
             "\u212a", "k", "\u03b1\u03b2"],
        var=["x", "X", "?x", f"{i}__x", "x_0", "duration", "?X", f"{i}_?x", "?x_0", "Duration", "?duration", "x-0"],
    )


FAMILY_IDS = ("case", "digit", "symbol", "pkw", "pkw2", "akw", "uni", "var")
CORE = 6
# sub-families for the mixed (one name per category) shards
MIXED = dict(
    case=["a", "A", "a_0", "A_0", "a_1", "move", "Move"],
    digit=["1a", "o_1a", "f_1a", "x_1a", "a_1a", "o_1a_0", "p_1a"],
    symbol=["a-b", "a_b", "a b", "a.b", "a_b_0", "A_b", "a?b"],
    pkw=["and", "AND", "and_", "and__0", "assign", "object", "Object"],
    akw=["action", "Action", "action_", "action__0", "type", "start", "action_0"],
    uni=["\u00e9", "", "_", "o__", "x__", "f__", "a__"],
)


def _classify(name, regex):
    if name == "" or name == "?":
        return "empty"
    if regex.fullmatch(name[0]) is None:
        return "leading"
    return "inner"


# ----------------------------------------------------------------------------------------------------------
# problem builder
# ----------------------------------------------------------------------------------------------------------
def _build(env, names, pname, hier, durative, samename, sig_fluent):
    """names: dict category -> list of names.  Returns (problem, elems) with elems[cat] = list of model elements in
    declaration order; elems['pgroups'] = list of parameter groups (one per action / fluent signature)."""
    from collections import OrderedDict

    import unified_planning as up
    from unified_planning.model import DurativeAction, Fluent, InstantaneousAction, Object, Problem
    from unified_planning.model.timing import EndTiming, StartTiming

    tm, em = env.type_manager, env.expression_manager
    if samename:
        env.error_used_name = False
    p = Problem(pname, env)
    types = []
    for j, n in enumerate(names["types"]):
        types.append(tm.UserType(n, types[0]) if (hier and j > 0) else tm.UserType(n))
    t0 = types[0]
    onames = list(names["objects"])
    while len(onames) < len(types):  # every type must be inhabited, otherwise it is not part of the problem
        onames.append(f"{FIXED['objects']}{len(onames) + 1}")
    objects = [Object(n, types[j % len(types)], env) for j, n in enumerate(onames)]
    fluents = [Fluent(n, tm.BoolType(), environment=env) for n in names["fluents"]]
    pnames = list(names["params"])
    fsig = None
    if sig_fluent:  # a fluent whose signature carries the same parameter names as the actions
        fsig = Fluent("kfs", tm.BoolType(), _signature=None, environment=env, **OrderedDict((q, t0) for q in pnames))
    for f in fluents:
        p.add_fluent(f, default_initial_value=em.FALSE())
    if fsig is not None:
        p.add_fluent(fsig, default_initial_value=em.FALSE())
    for o in objects:
        p.add_object(o)
    actions = []
    for n in names["actions"]:
        if durative:
            a = DurativeAction(n, OrderedDict((q, t0) for q in pnames), _env=env)
            a.set_fixed_duration(1)
            for f in fluents:
                a.add_condition(StartTiming(), em.Not(em.FluentExp(f)))
                a.add_effect(EndTiming(), em.FluentExp(f), em.TRUE())
            if fsig is not None:
                a.add_effect(EndTiming(), em.FluentExp(fsig, [em.ParameterExp(q) for q in a.parameters]), em.TRUE())
        else:
            a = InstantaneousAction(n, OrderedDict((q, t0) for q in pnames), _env=env)
            for f in fluents:
                a.add_precondition(em.Not(em.FluentExp(f)))
                a.add_effect(em.FluentExp(f), em.TRUE())
            if fsig is not None:
                a.add_effect(em.FluentExp(fsig, [em.ParameterExp(q) for q in a.parameters]), em.TRUE())
        p.add_action(a)
        actions.append(a)
    for f in fluents:
        p.add_goal(em.FluentExp(f))
    if fsig is not None:
        o0 = [o for o in objects if o.type == t0]
        if o0:
            p.add_goal(em.FluentExp(fsig, [em.ObjectExp(o0[0])] * len(pnames)))
    pgroups = [list(a.parameters) for a in actions]
    if fsig is not None:
        pgroups.append(list(fsig.signature))
    return p, dict(types=types, objects=objects, fluents=fluents, actions=actions, pgroups=pgroups, fsig=fsig)


# ----------------------------------------------------------------------------------------------------------
# PDDL side
# ----------------------------------------------------------------------------------------------------------
def _pddl_declared(domain, problem):
    """Names DECLARED in the emitted text, per category (the text is a token stream once names are valid)."""
    def block(text, head):
        k = text.find(head)
        if k < 0:
            return None
        depth, j = 0, k
        while j < len(text):
            if text[j] == "(":
                depth += 1
            elif text[j] == ")":
                depth -= 1
                if depth == 0:
                    return text[k + len(head):j]
            j += 1
        return None

    def untyped(tokens):  # "a b - t c - u" -> [a, b, c]
        out, skip = [], False
        for t in tokens:
            if skip:
                skip = False
            elif t == "-":
                skip = True
            else:
                out.append(t)
        return out

    tb = block(domain, "(:types")
    types = untyped(tb.split()) if tb is not None else []
    pb = block(domain, "(:predicates")
    preds = re.findall(r"\(\s*([^\s()]+)", pb) if pb is not None else []
    acts = re.findall(r"\(:(?:durative-)?action\s+([^\s()]+)", domain)
    pgroups = [[t for t in untyped(m.split())] for m in re.findall(r":parameters\s*\(([^()]*)\)", domain)]
    if pb is not None:
        pgroups += [untyped(m.split()) for m in re.findall(r"\(\s*[^\s()]+((?:\s+[^\s()]+)+)\s*\)", pb)]
    ob = block(problem, "(:objects")
    objs = untyped(ob.split()) if ob is not None else []
    dn = re.search(r"\(domain\s+([^\s()]+)\)", domain)
    pn = re.search(r"\(problem\s+([^\s()]+)\)", problem)
    dn2 = re.search(r"\(:domain\s+([^\s()]+)\)", problem)
    return dict(types=types, fluents=preds, actions=acts, pgroups=pgroups, objects=objs,
                heads=[m.group(1) if m else None for m in (dn, pn, dn2)])


def _check_pddl(ctx, problem, el, durative, roundtrip, env):
    from unified_planning.exceptions import UPException
    from unified_planning.io import PDDLWriter

    w = PDDLWriter(problem)
    domain = w.get_domain()
    ptext = w.get_problem()
    ctx.witness("pddl")
    reserved = set(PDDL_BNF_WORDS) | (PDDL_BNF_TEMPORAL if durative else set())

    def name_of(x, what):
        try:
            n = w.get_pddl_name(x)
        except UPException as e:
            ctx.fail("pddl:lookup-missing", f"get_pddl_name({what}) raises after get_domain()+get_problem(): {e}")
        ctx.check(isinstance(n, str), "pddl:lookup-missing", f"get_pddl_name({what}) = {n!r}")
        return n

    def valid(n, what, is_param):
        body = n[1:] if is_param else n
        if is_param:
            ctx.check(n.startswith("?"), "pddl:invalid-identifier:leading", f"{what}: PDDL variable {n!r} does not start with '?'")
        if PDDL_NAME.fullmatch(body) is None:
            ctx.fail("pddl:invalid-identifier:" + _classify(body, PDDL_NAME), f"{what}: emitted PDDL name {n!r} is not a PDDL <name>")
        if not is_param and body.lower() in reserved:  # a variable '?and' is not the word 'and'
            ctx.fail("pddl:keyword-emitted:" + body.lower(), f"{what}: emitted PDDL name {n!r} is the reserved word {body.lower()!r}")
        if is_param and durative and body.lower() == "duration":
            ctx.fail("pddl:keyword-emitted:?duration", f"{what}: parameter emitted as {n!r}, the built-in duration variable of durative actions")

    emitted = {}
    # 1. validity + keywords, per element, in declaration order
    for cat in ("types", "objects", "fluents", "actions"):
        names = []
        for x in el[cat]:
            what = f"{cat[:-1]} {getattr(x, 'name', None)!r}"
            n = name_of(x, what)
            valid(n, what, False)
            names.append(n)
        emitted[cat] = names
    if el["fsig"] is not None:
        n = name_of(el["fsig"], "fluent 'kfs'")
        valid(n, "fluent 'kfs'", False)
    pg_names = []
    for g in el["pgroups"]:
        ns = []
        for q in g:
            n = name_of(q, f"parameter {q.name!r}")
            valid(n, f"parameter {q.name!r}", True)
            ns.append(n)
        pg_names.append(ns)
    # 2. distinct per namespace, case-insensitively
    for cat in ("types", "objects", "fluents", "actions"):
        low = [n.lower() for n in emitted[cat]]
        if el["fsig"] is not None and cat == "fluents":
            low = low + [w.get_pddl_name(el["fsig"]).lower()]
        ctx.check(len(set(low)) == len(low), "pddl:case-collision",
                  f"{cat} {[x.name for x in el[cat]]} are emitted as {emitted[cat]}: not pairwise distinct in case-insensitive PDDL")
    for g, ns in zip(el["pgroups"], pg_names):
        low = [n.lower() for n in ns]
        ctx.check(len(set(low)) == len(low), "pddl:case-collision",
                  f"parameters {[q.name for q in g]} of one declaration are emitted as {ns}: not pairwise distinct")
    # 3. lookups are inverse of each other
    everything = [(x, True) for cat in ("types", "objects", "fluents", "actions") for x in el[cat]]
    if el["fsig"] is not None:
        everything.append((el["fsig"], True))
    everything += [(q, False) for g in el["pgroups"] for q in g]
    for x, ident in everything:
        n = w.get_pddl_name(x)
        try:
            back = w.get_item_named(n)
        except UPException as e:
            ctx.fail("pddl:lookup-not-inverse", f"get_item_named(get_pddl_name({x.name!r}) = {n!r}) raises: {e}")
        ok = (back is x) if ident else (back == x)  # equal Parameters of two actions are one key by design
        ctx.check(ok, "pddl:lookup-not-inverse", f"get_item_named(get_pddl_name(x)) is not x for x = {x.name!r}: {n!r} -> {getattr(back, 'name', back)!r}")
    decl = _pddl_declared(domain, ptext)
    text_names = set(decl["types"]) | set(decl["fluents"]) | set(decl["actions"]) | set(decl["objects"])
    for g in decl["pgroups"]:
        text_names |= set(g)
    for n in sorted(text_names | set(w.nto_renamings)):
        if n == "object" and n not in w.nto_renamings:
            continue  # the predefined root type, not a renamed item
        try:
            item = w.get_item_named(n)
            again = w.get_pddl_name(item)
        except UPException as e:
            ctx.fail("pddl:lookup-not-inverse", f"name {n!r} is declared in the emitted text but the lookup raises: {e}")
        ctx.check(again == n, "pddl:lookup-not-inverse", f"get_pddl_name(get_item_named({n!r})) = {again!r}")
    # 4. the text declares exactly the names the lookup reports
    flat = not w.problem_kind.has_hierarchical_typing()
    flat_types = [n for x, n in zip(el["types"], emitted["types"]) if not (x.name == "object" and flat)]
    want_fl = emitted["fluents"] + ([w.get_pddl_name(el["fsig"])] if el["fsig"] is not None else [])
    for cat, want, got in (("types", flat_types, decl["types"]), ("fluents", want_fl, decl["fluents"]),
                           ("actions", emitted["actions"], decl["actions"]), ("objects", emitted["objects"], decl["objects"])):
        ctx.check(sorted(want) == sorted(got), "pddl:text-lookup-mismatch",
                  f"{cat}: get_pddl_name reports {sorted(want)} but the emitted text declares {sorted(got)}")
    ctx.check(sorted(map(tuple, pg_names)) == sorted(map(tuple, decl["pgroups"])), "pddl:text-lookup-mismatch",
              f"parameters: get_pddl_name reports {pg_names} but the emitted text declares {decl['pgroups']}")
    # domain / problem names chosen by the writer
    for h in decl["heads"]:
        if h is None or PDDL_NAME.fullmatch(h) is None:
            ctx.fail("pddl:invalid-identifier:" + ("empty" if not h else _classify(h, PDDL_NAME)), f"domain/problem name {h!r} (problem name {problem.name!r}) is not a PDDL <name>")
        ctx.check(h.lower() not in reserved, "pddl:keyword-emitted:" + h.lower(), f"domain/problem name {h!r} is a reserved word")
    ctx.check(decl["heads"][0] == decl["heads"][2], "pddl:text-lookup-mismatch", f"(domain {decl['heads'][0]}) vs (:domain {decl['heads'][2]})")
    if roundtrip:
        _roundtrip_pddl(ctx, problem, el, domain, ptext, flat, {t: w.get_pddl_name(t) for t in el["types"]})


def _roundtrip_pddl(ctx, problem, el, domain, ptext, flat, type_names):
    import warnings

    from unified_planning.io import PDDLReader

    try:
        with warnings.catch_warnings():
            warnings.simplefilter("ignore")
            q = PDDLReader(disable_warnings=True).parse_problem_string(domain, ptext)
    except Exception as e:  # a reader that rejects the writer's output: evidence that a name is not acceptable PDDL
        ctx.fail("pddl:reader-rejects", f"PDDLReader rejects the emitted text ({type(e).__name__}: {str(e)[:200]}); names {_names(el)}")
    nt = len([t for t in q.user_types if t.name != "object"])
    # the user type that is EMITTED as 'object' is the predefined root type (the writer's deliberate identification: a type called
    # 'object', or 'Object' -- PDDL is case-insensitive -- when no other type has taken that name)
    want_t = len([t for t in el["types"] if not (type_names[t] == "object" and flat)])
    got = (nt, len(q.fluents), len(q.actions), len(q.all_objects))
    want = (want_t, len(problem.fluents), len(problem.actions), len(problem.all_objects))
    ctx.check(got == want, "pddl:reader-count-mismatch", f"re-read PDDL has (types, fluents, actions, objects) = {got}, written {want}; names {_names(el)}")
    ctx.witness("pddl-roundtrip")


def _names(el):
    return {c: [x.name for x in el[c]] for c in ("types", "objects", "fluents", "actions")} | {
        "params": [[q.name for q in g] for g in el["pgroups"][:1]]}


# ----------------------------------------------------------------------------------------------------------
# ANML side
# ----------------------------------------------------------------------------------------------------------
def _anml_declared(ctx, text, problem, el):
    """Read the declarations back from the emitted text, positionally (names may be invalid, e.g. contain blanks;
    no pool name contains ',', ';', '(', ')', '<' or a line break, so the structure is unambiguous)."""
    lines = text.split("\n")
    tl = [ln for ln in lines if ln.startswith("type ")]
    fl = [ln for ln in lines if ln.startswith("fluent ") or ln.startswith("constant ")]
    al = [ln for ln in lines if ln.startswith("action ")]
    il = [ln for ln in lines if ln.startswith("instance ")]
    gl = [ln for ln in lines if ln.startswith("[ end ] ")]
    st = "anml:text-structure"
    ctx.check(len(tl) == len(problem.user_types), st, f"{len(tl)} type declarations for {len(problem.user_types)} types")
    ctx.check(len(fl) == len(problem.fluents), st, f"{len(fl)} fluent declarations for {len(problem.fluents)} fluents")
    ctx.check(len(al) == len(problem.actions), st, f"{len(al)} action declarations for {len(problem.actions)} actions")
    tname = {}
    for t, ln in zip(problem.user_types, tl):
        m = re.fullmatch(r"type (.*?)(?: < (.*))?;", ln)
        ctx.check(m is not None, st, f"type line {ln!r}")
        tname[t] = m.group(1)
        if t.father is not None:
            ctx.check(m.group(2) == tname.get(t.father), "anml:reference-mismatch", f"{ln!r}: father declared as {tname.get(t.father)!r}")
        else:
            ctx.check(m.group(2) is None, st, f"type line {ln!r}")

    def params(chunk, plist, where):
        if not plist:
            ctx.check(chunk in ("", None), st, f"{where}: unexpected parameter text {chunk!r}")
            return []
        parts = chunk.split(", ")
        ctx.check(len(parts) == len(plist), st, f"{where}: {len(parts)} parameters in {chunk!r} for {len(plist)}")
        out = []
        for q, part in zip(plist, parts):
            pre = tname[q.type] + " "
            ctx.check(part.startswith(pre), "anml:reference-mismatch", f"{where}: parameter {part!r} does not use the declared type name {tname[q.type]!r}")
            out.append(part[len(pre):])
        return out

    fname, pgroups = {}, []
    fsig_params = None
    for f, ln in zip(problem.fluents, fl):
        m = re.fullmatch(r"(?:fluent|constant) boolean (.*?)(?:\((.*)\))?;", ln)
        ctx.check(m is not None, st, f"fluent line {ln!r}")
        fname[f] = m.group(1)
        ps = params(m.group(2), list(f.signature), f"fluent {f.name!r}")
        if f.signature:
            fsig_params = ps
    aname = {}
    for a, ln in zip(problem.actions, al):
        m = re.fullmatch(r'action (.*?)\((.*)\) (?:::\("InstantaneousAction"\))?\{', ln)
        ctx.check(m is not None, st, f"action line {ln!r}")
        aname[a] = m.group(1)
        pgroups.append(params(m.group(2), list(a.parameters), f"action {a.name!r}"))
    if fsig_params is not None:
        pgroups.append(fsig_params)
    oname = {}
    with_objs = [t for t in problem.user_types if any(o.type == t for o in problem.all_objects)]
    ctx.check(len(il) == len(with_objs), st, f"{len(il)} instance lines for {len(with_objs)} inhabited types")
    for t, ln in zip(with_objs, il):
        pre = f"instance {tname[t]} "
        ctx.check(ln.startswith(pre) and ln.endswith(";"), "anml:reference-mismatch", f"{ln!r} does not use the declared type name {tname[t]!r}")
        objs = [o for o in problem.objects(t) if o.type == t]
        parts = ln[len(pre):-1].split(", ")
        ctx.check(len(parts) == len(objs), st, f"{ln!r}: {len(parts)} names for {len(objs)} objects")
        for o, n in zip(objs, parts):
            oname[o] = n
    # goals refer to the fluents by their declared names (goal i is fluent i for the 0-ary fluents)
    zero = [f for f in problem.fluents if not f.signature]
    goals = gl[:len(zero)]  # the builder adds the goals on the 0-ary fluents first
    ctx.check([f"[ end ] {fname[f]};" for f in zero] == goals[:len(zero)], "anml:reference-mismatch",
              f"goal lines {goals} do not use the declared fluent names {[fname[f] for f in zero]}")
    return tname, fname, aname, oname, pgroups


def _check_anml(ctx, problem, el, roundtrip):
    from unified_planning.io import ANMLWriter

    text = ANMLWriter(problem).get_problem()
    ctx.witness("anml")
    tname, fname, aname, oname, pgroups = _anml_declared(ctx, text, problem, el)

    def valid(n, what, src):
        if ANML_IDENT.fullmatch(n) is None:  # sig: was the model's name kept verbatim or produced by the mangling; where is it wrong
            how = "verbatim" if n == src else "mangled"
            ctx.fail(f"anml:invalid-identifier:{how}:{_classify(n, ANML_IDENT)}",
                     f"{what}: emitted ANML name {n!r} is not an identifier of the ANML grammar")
        if n in ANML_WORDS:
            ctx.fail("anml:keyword-emitted:" + n, f"{what}: emitted ANML name {n!r} is an ANML keyword")

    glob = []
    for cat, m, xs in (("type", tname, problem.user_types), ("fluent", fname, problem.fluents), ("action", aname, problem.actions),
                       ("object", oname, problem.all_objects)):
        for x in xs:
            valid(m[x], f"{cat} {x.name!r}", x.name)
            glob.append((m[x], f"{cat} {x.name!r}"))
    for g, ns in zip(el["pgroups"], pgroups):
        for q, n in zip(g, ns):
            valid(n, f"parameter {q.name!r}", q.name)
    seen = {}
    for n, what in glob:
        if n in seen:  # two sigs: elements that carry the SAME name in the model (legal when error_used_name is off) / others
            same = what.split(" ", 1)[1] == seen[n].split(" ", 1)[1]
            ctx.fail("anml:name-clash:equal-source-names" if same else "anml:name-clash",
                     f"{what} and {seen[n]} are both emitted as {n!r} in ANML's global scope")
        seen[n] = what
    for g, ns in zip(el["pgroups"], pgroups):
        ctx.check(len(set(ns)) == len(ns), "anml:param-clash", f"parameters {[q.name for q in g]} of one declaration are emitted as {ns}")
    referenced = {fname[f]: f"fluent {f.name!r}" for f in problem.fluents}
    referenced.update({oname[o]: f"object {o.name!r}" for o in problem.all_objects})
    for g, ns in zip(el["pgroups"][:len(problem.actions)], pgroups):
        for q, n in zip(g, ns):
            ctx.check(n not in referenced, "anml:param-shadows-global",
                      f"parameter {q.name!r} is emitted as {n!r}, the emitted name of {referenced.get(n)} which the action body refers to")
    if roundtrip:
        _roundtrip_anml(ctx, problem, el, text)


def _roundtrip_anml(ctx, problem, el, text):
    import warnings

    from unified_planning.io import ANMLReader

    try:
        with warnings.catch_warnings():
            warnings.simplefilter("ignore")
            q = ANMLReader().parse_problem_string(text)
    except Exception as e:
        ctx.fail("anml:reader-rejects", f"ANMLReader rejects the emitted text ({type(e).__name__}: {str(e)[:200]}); names {_names(el)}")
    got = (len(q.user_types), len(q.fluents), len(q.actions), len(q.all_objects))
    want = (len(problem.user_types), len(problem.fluents), len(problem.actions), len(problem.all_objects))
    ctx.check(got == want, "anml:reader-count-mismatch", f"re-read ANML has (types, fluents, actions, objects) = {got}, written {want}; names {_names(el)}")
    ctx.witness("anml-roundtrip")


# ----------------------------------------------------------------------------------------------------------
# harness functions
# ----------------------------------------------------------------------------------------------------------
def _run(ctx, lang, names, pname="kprob", hier=False, durative=False, samename=False, roundtrip=False, sig_fluent=False):
    from unified_planning.exceptions import UPProblemDefinitionError, UPValueError

    env = ctx.fresh_env()
    ctx.note("names", {k: list(v) for k, v in names.items()})
    try:
        import warnings

        with warnings.catch_warnings():
            warnings.simplefilter("ignore")
            problem, el = _build(env, names, pname, hier, durative, samename, sig_fluent)
    except (UPProblemDefinitionError, UPValueError):
        ctx.assume(False)  # the library itself rejects the model (duplicate name): not a problem
    if lang == "pddl":
        _check_pddl(ctx, problem, el, durative, roundtrip, env)
    else:
        _check_anml(ctx, problem, el, roundtrip)


def _defaults():
    d = {c: [FIXED[c]] for c in CATS}
    d["objects"] = [FIXED["objects"], FIXED["objects"] + "2"]
    return d


def h_category(ctx, lang, cat, fams, plans, hier=False, durative=False, roundtrip=False):
    """k distinct names of one family, in every order, for k elements of ONE category.
    plans: alternatives [k, core] (core=1: only the first CORE names of the family); hier: "both" forks."""
    fam_id = ctx.pick("family", fams)
    k, core = ctx.pick("plan", plans)
    if hier == "both":
        hier = bool(ctx.choice("hier", 2))
    pool = list(families(cat)[fam_id])
    if core:
        pool = pool[:CORE]
    picked = []
    for j in range(k):
        picked.append(pool.pop(ctx.choice(f"name{j}", len(pool))))
    names = _defaults()
    names[cat] = picked
    if cat == "params":
        names["actions"] = [FIXED["actions"], FIXED["actions"] + "2"]
    _run(ctx, lang, names, hier=bool(hier), durative=durative, roundtrip=roundtrip, sig_fluent=(cat == "params"))


def h_mixed(ctx, lang, fams, size, samename=False, durative=False, roundtrip=False):
    """One family name for each of type / object / fluent / action / parameter (repetition allowed only when the
    environment flag error_used_name is off = samename; otherwise the library rejects equal global names)."""
    pool = MIXED[ctx.pick("family", fams)][:size]
    names = _defaults()
    glob = []
    for cat in CATS:
        n = ctx.pick(cat, pool)
        names[cat] = [n]
        if cat != "params":
            glob.append(n)
    if not samename:
        ctx.assume(len(set(glob)) == len(glob))  # add_fluent/add_object/add_action would raise
    names["objects"].append(FIXED["objects"])
    _run(ctx, lang, names, samename=samename, durative=durative, roundtrip=roundtrip, sig_fluent=True)


def h_sweep(ctx, lang, cats, orders, durative=True, roundtrip=False):
    """Every keyword (both languages, the writers' tables and the language definitions) in three case forms, as the
    name of one element, next to a second element that already carries the keyword's mangled form (keyword + '_').
    durative=True: the action is durative, so PDDL's temporal words are reserved too."""
    cat = ctx.pick("cat", cats)
    w = ctx.pick("word", SWEEP_WORDS)
    n = (w, w.upper(), w.capitalize())[ctx.choice("form", 3)]
    order = ctx.choice("order", orders)
    other = w + "_"
    names = _defaults()
    names[cat] = [other, n] if order == 0 else [n, other]
    _run(ctx, lang, names, durative=durative, roundtrip=roundtrip, sig_fluent=(cat == "params"))


def h_pname(ctx, fams):
    """The problem name (PDDL only: it becomes the domain and the problem name)."""
    fam_id = ctx.pick("family", fams)
    pool = families("params")[fam_id] + (SWEEP_WORDS if fam_id == "pkw" else [])
    n = ctx.pick("pname", pool)
    _run(ctx, "pddl", _defaults(), pname=n)


def shards(tier, seed):
    out = []
    quick = tier == "quick"
    fams = list(FAMILY_IDS)

    def add(name, fn, budget=None, **kw):
        out.append(dict(name=name, fn=fn, kwargs=kw, budget=budget or (400 if quick else 900), per_path=10, engine="direct"))

    variants = [("types", {}), ("types", dict(hier=True)), ("objects", {}), ("fluents", {}), ("actions", {}), ("actions", dict(durative=True)),
                ("params", {}), ("params", dict(durative=True))]
    for lang in ("pddl", "anml"):
        for cat, v in variants:
            tag = "-durative" if v.get("durative") else "-hier" if v.get("hier") else ""
            if quick:  # all ordered pairs of every family + all ordered triples of every family core
                add(f"{lang}-{cat}{tag}", "h_category", lang=lang, cat=cat, fams=fams, plans=[[2, 0], [3, 1]], **v)
            else:      # all ordered 4-selections of every family; reader round trip on the pairs of every core
                for f in fams:
                    add(f"{lang}-{cat}{tag}-k4-{f}", "h_category", lang=lang, cat=cat, fams=[f], plans=[[4, 0]], **v)
                add(f"{lang}-{cat}{tag}-roundtrip", "h_category", lang=lang, cat=cat, fams=fams, plans=[[2, 1]], roundtrip=True, **v)
        if quick:
            add(f"{lang}-mixed", "h_mixed", lang=lang, fams=list(MIXED), size=5)
            add(f"{lang}-mixed-samename", "h_mixed", lang=lang, fams=["case"], size=4, samename=True)
            add(f"{lang}-sweep", "h_sweep", lang=lang, cats=list(CATS), orders=1)
            # a small reader round trip: every single name of every family as a fluent name
            add(f"{lang}-roundtrip-fluents", "h_category", lang=lang, cat="fluents", fams=fams, plans=[[1, 1 if lang == "anml" else 0]],
                roundtrip=True)
        else:
            for f in MIXED:
                add(f"{lang}-mixed-{f}", "h_mixed", lang=lang, fams=[f], size=7)
            add(f"{lang}-mixed-samename", "h_mixed", lang=lang, fams=["case", "pkw", "uni"], size=5, samename=True)
            add(f"{lang}-mixed-roundtrip", "h_mixed", lang=lang, fams=list(MIXED), size=3, roundtrip=True)
            for cat in CATS:
                add(f"{lang}-sweep-{cat}", "h_sweep", lang=lang, cats=[cat], orders=2)
                add(f"{lang}-sweep-{cat}-classical", "h_sweep", lang=lang, cats=[cat], orders=2, durative=False)
    add("pddl-problem-name", "h_pname", fams=fams)
    return out


MANIFEST = dict(
    engine="direct",
    technique="bounded exhaustive enumeration (re-execution DFS over choice variables, no solver query) of adversarial name "
              "assignments from a fixed pool; the real PDDLWriter/ANMLWriter run on each problem; oracle = identifier "
              "grammars and keyword lists of PDDL (BNF) and ANML (the reader's grammar + manual), case-insensitive "
              "distinctness, inverse lookups, agreement of the emitted text with the lookups",
    text="Exploration, not proof: symbolic strings are out of reach of the symbolic-execution engine here (probed: "
         "_get_pddl_name on a symbolic str realises the string), so names are enumerated from a pool built to hit the "
         "writers' mangling scheme (lower-casing, '_' substitution, initial letter + '_', '_<count>' suffixes, keyword + '_'). "
         "Within the pool every ordered selection of 3 (thorough: 4) names per element category and every cross-category "
         "assignment is executed; path trees are exhausted.  The universal 'for every name' of the property is outside the claim.",
    note="Solver role: none (choice variables only).  Trusted: the PDDL/ANML identifier and keyword definitions written in "
         "the harness; the positional read-back of declarations from the emitted text.",
)
