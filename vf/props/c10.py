"""C10 Problem kind reports every feature the problem uses.

Explored: feature toggles (choice variables) that place each syntactic construct in each position the property lists --
a negation / disjunction / implication / equality / quantifier (also nested, also over a subtype) in an action precondition,
effect condition, goal, timed goal, durative condition, state invariant, trajectory constraint, timed-effect condition,
event precondition, oversubscription goal, method precondition, task-network constraint, agent goal, sensing-action
precondition, activity condition / constraint; conditional / forall / increase / decrease / continuous effects and
fluent-dependent assignments in instantaneous, durative, timed, event, process, agent and activity effects; fluent and parameter
types; numeric bounds (their values are solver variables in the symex shard: present => BOUNDED_TYPES whatever the value);
fluents in duration bounds; timed effects / goals; invariants / trajectory constraints; quality metrics; undefined initial
values -- over classical, numeric, temporal, hierarchical, contingent, multi-agent and scheduling skeletons.  Plus the bundled
corpora (unified_planning.test.examples, up_test_cases.builtin), concrete.
Real code: AbstractProblem.kind of the five problem classes (_KindFactory).
Oracle: an INDEPENDENT syntactic feature extractor (this file: own expression walk, public accessors only).  Each extracted
requirement is a set of alternative features of which the computed kind must contain one (alternatives only where the docs
leave the choice open: static vs non-static fluent).  Assertion: every requirement is met by problem.kind.features.
Not demanded: SIMPLE/GENERAL_NUMERIC_PLANNING, linearity, INTERMEDIATE/EXTERNAL conditions, deprecated features, anything whose
"use" is debatable (operators inside metric / cost / effect-value expressions, INT/REAL_FLUENTS for a fluent that only occurs in a
duration or an action cost or nowhere, BOUNDED_TYPES for bounded parameters).
"""
from fractions import Fraction

PROPERTY = "C10"
LEVEL = "exploration"
FUNCTIONS = [
    "unified_planning.model.problem:Problem.kind",
    "unified_planning.model.problem:Problem._kind_factory",
    "unified_planning.model.problem:_KindFactory.__init__",
    "unified_planning.model.problem:_KindFactory.finalize",
    "unified_planning.model.problem:_KindFactory.update_problem_kind_expression",
    "unified_planning.model.problem:_KindFactory.update_problem_kind_effect",
    "unified_planning.model.problem:_KindFactory.update_problem_kind_fluent",
    "unified_planning.model.problem:_KindFactory.update_problem_kind_action",
    "unified_planning.model.problem:_KindFactory.update_action_duration",
    "unified_planning.model.problem:_KindFactory.update_problem_kind_metric",
    "unified_planning.model.problem:_KindFactory.update_problem_kind_initial_state",
    "unified_planning.model.problem:_KindFactory.update_problem_kind_process",
    "unified_planning.model.problem:_KindFactory.update_problem_kind_event",
    "unified_planning.model.htn.hierarchical_problem:HierarchicalProblem.kind",
    "unified_planning.model.multi_agent.ma_problem:MultiAgentProblem.kind",
    "unified_planning.model.scheduling.scheduling_problem:SchedulingProblem.kind",
    "unified_planning.model.contingent.contingent_problem:ContingentProblem.kind",
]
BOUNDS = ("generated: one construct (10 condition constructs, 12 effect constructs, 20 type constructs, 25 further constructs) in one position "
          "(up to 16 positions per class) of a minimal skeleton of each of the 5 problem classes; numeric bound values symbolic in "
          "[-8,8] (ints) / k/4 (reals) in the symex shard; corpora: every problem of get_example_problems() and up_test_cases.builtin")
OUTSIDE = ("combinations of several constructs (each construct is tried alone: an omission shows when the construct appears only in that "
           "position); TAMP / motion constraints; interpreted functions; simulated effects; features whose meaning of 'uses' is debatable "
           "(see module docstring); linearity / SIMPLE_NUMERIC_PLANNING (C17)")
ASSUMPTIONS = ["'uses' is syntactic occurrence in the listed positions, read from docs/problem_representation and problem_kind.py",
               "static fluent = never the target of an effect anywhere in the problem; where the extractor cannot be sure the requirement "
               "is the disjunction STATIC_FLUENTS_IN_x or FLUENTS_IN_x",
               "scheduling skeleton: Activity objects are created in the path's environment and appended to problem.activities "
               "(add_activity always builds them in the global environment)",
               "corpora are built in the global environment by their own factories (concrete, one path)"]


# =====================================================================================================================
# the independent extractor
# =====================================================================================================================
def _walk(e):
    seen, stack = set(), [e]
    while stack:
        n = stack.pop()
        if id(n) in seen:
            continue
        seen.add(id(n))
        yield n
        stack.extend(n.args)


class Extractor:
    def __init__(self, problem):
        self.p = problem
        self.req = []  # (alternatives tuple, where)
        self.used = set()  # fluents occurring in conditions / effects / goals / constraints (not durations, not costs)
        self.targets = set()  # fluents that some effect writes

    def need(self, where, *alts):
        self.req.append((tuple(alts), where))

    # ---- types
    def typ(self, t, where):
        if t is not None and t.is_user_type():
            self.need(where, "FLAT_TYPING")
            if t.father is not None:
                self.need(where, "HIERARCHICAL_TYPING")

    # ---- expressions in condition position
    def cond(self, e, where):
        for n in _walk(e):
            if n.is_not():
                self.need(where, "NEGATIVE_CONDITIONS")
            elif n.is_or() or n.is_implies():
                self.need(where, "DISJUNCTIVE_CONDITIONS")
            elif n.is_equals():
                self.need(where, "EQUALITIES")
            elif n.is_exists():
                self.need(where, "EXISTENTIAL_CONDITIONS")
            elif n.is_forall():
                self.need(where, "UNIVERSAL_CONDITIONS")
            elif n.is_fluent_exp():
                self.used.add(n.fluent())

    def fluents_of(self, e):
        return {n.fluent() for n in _walk(e) if n.is_fluent_exp()}

    def _static_alts(self, fl, suffix, ma):
        if (not ma) and any(f in self.targets for f in fl):
            return ("FLUENTS_IN_" + suffix,)
        return ("STATIC_FLUENTS_IN_" + suffix, "FLUENTS_IN_" + suffix)

    def effect(self, e, where, ma=False):
        self.used.add(e.fluent.fluent())
        self.used |= self.fluents_of(e.value)
        for a in e.fluent.args:
            self.used |= self.fluents_of(a)
        if e.is_conditional():
            self.need(where, "CONDITIONAL_EFFECTS")
            self.cond(e.condition, where + ":effect-condition")
        if e.is_forall():
            self.need(where, "FORALL_EFFECTS")
            for v in e.forall:
                self.typ(v.type, where + ":forall-variable")
        k = e.kind.name
        if k == "INCREASE":
            self.need(where, "INCREASE_EFFECTS")
        elif k == "DECREASE":
            self.need(where, "DECREASE_EFFECTS")
        elif k == "CONTINUOUS_INCREASE":
            self.need(where, "INCREASE_CONTINUOUS_EFFECTS")
        elif k == "CONTINUOUS_DECREASE":
            self.need(where, "DECREASE_CONTINUOUS_EFFECTS")
        fl = self.fluents_of(e.value)
        if fl and k in ("ASSIGN", "INCREASE", "DECREASE"):
            vt = e.value.type
            if vt.is_bool_type():
                suffix = "BOOLEAN_ASSIGNMENTS"
            elif vt.is_user_type():
                suffix = "OBJECT_ASSIGNMENTS"
            else:
                suffix = "NUMERIC_ASSIGNMENTS"
            self.need(where + ":fluent-in-value", *self._static_alts(fl, suffix, ma))

    def params(self, params, where, action_like=True):
        for q in params:
            t = q.type
            self.typ(t, where + ":parameter")
            if not action_like:
                continue
            if t.is_bool_type():
                self.need(where, "BOOL_ACTION_PARAMETERS")
            elif t.is_real_type():
                self.need(where, "REAL_ACTION_PARAMETERS")
            elif t.is_int_type():
                if t.lower_bound is None or t.upper_bound is None:
                    self.need(where, "UNBOUNDED_INT_ACTION_PARAMETERS")
                else:
                    self.need(where, "BOUNDED_INT_ACTION_PARAMETERS")

    def duration(self, d, where, ma=False):
        for b in (d.lower, d.upper):
            fl = self.fluents_of(b)
            if fl:
                self.need(where + ":fluent-in-duration", *self._static_alts(fl, "DURATIONS", ma))

    def timed_holder(self, a, where, ma=False):
        """conditions/effects of a durative action or activity"""
        for _i, cl in a.conditions.items():
            for c in cl:
                self.cond(c, where + ":durative-condition")
        for _t, el in a.effects.items():
            for e in el:
                self.effect(e, where + ":durative-effect", ma)
        for _i, el in getattr(a, "continuous_effects", {}).items():
            for e in el:
                self.effect(e, where + ":continuous-effect", ma)

    def action(self, a, where, ma=False):
        from unified_planning.model import DurativeAction, InstantaneousAction

        self.params(a.parameters, where)
        if isinstance(a, InstantaneousAction):
            for c in a.preconditions:
                self.cond(c, where + ":precondition")
            for e in a.effects:
                self.effect(e, where + ":effect", ma)
        elif isinstance(a, DurativeAction):
            self.need(where, "CONTINUOUS_TIME", "DISCRETE_TIME")
            self.duration(a.duration, where, ma)
            self.timed_holder(a, where, ma)

    def fluent(self, f, where):
        t = f.type
        self.typ(t, where + ":fluent-type")
        if t.is_user_type():
            self.need(where, "OBJECT_FLUENTS")
        if (t.is_int_type() or t.is_real_type()) and (t.lower_bound is not None or t.upper_bound is not None):
            self.need(where, "BOUNDED_TYPES")
        for q in f.signature:
            self.typ(q.type, where + ":fluent-parameter")
            if q.type.is_bool_type():
                self.need(where, "BOOL_FLUENT_PARAMETERS")
            elif q.type.is_int_type():
                self.need(where, "BOUNDED_INT_FLUENT_PARAMETERS")

    def _collect_targets(self, holders):
        for effs in holders:
            for e in effs:
                self.targets.add(e.fluent.fluent())

    def _all_effect_lists(self):
        from unified_planning.model import DurativeAction, InstantaneousAction

        p = self.p
        acts = []
        if hasattr(p, "agents"):
            for ag in p.agents:
                acts += list(ag.actions)
        elif hasattr(p, "actions"):
            acts += list(p.actions)
        for a in acts:
            if isinstance(a, InstantaneousAction):
                yield a.effects
            elif isinstance(a, DurativeAction):
                for el in a.effects.values():
                    yield el
                for el in a.continuous_effects.values():
                    yield el
        for x in list(getattr(p, "events", [])) + list(getattr(p, "processes", [])):
            yield x.effects
        for el in getattr(p, "timed_effects", {}).values():
            yield el
        if hasattr(p, "activities"):
            for act in p.activities:
                for el in act.effects.values():
                    yield el
            yield [e for _t, e in p.base_effects]

    def undefined(self, fluents, explicit, defaults, objects_of, hidden, where):
        import itertools

        for f in fluents:
            if f in defaults or f in hidden:
                continue
            doms = []
            ok = True
            for q in f.signature:
                t = q.type
                if t.is_user_type():
                    doms.append(len(list(objects_of(t))))
                elif t.is_bool_type():
                    doms.append(2)
                elif t.is_int_type() and t.lower_bound is not None and t.upper_bound is not None:
                    doms.append(t.upper_bound - t.lower_bound + 1)
                else:
                    ok = False
            if not ok:
                continue
            total = 1
            for d in doms:
                total *= d
            have = sum(1 for fe in explicit if fe.is_fluent_exp() and fe.fluent() == f)
            if have < total:
                t = f.type
                self.need(where, "UNDEFINED_INITIAL_NUMERIC" if (t.is_int_type() or t.is_real_type()) else "UNDEFINED_INITIAL_SYMBOLIC")

    # ---- the classes
    def run(self):
        from unified_planning.model import Problem
        from unified_planning.model.contingent import ContingentProblem
        from unified_planning.model.htn import HierarchicalProblem
        from unified_planning.model.multi_agent import MultiAgentProblem
        from unified_planning.model.scheduling import SchedulingProblem

        p = self.p
        self._collect_targets(self._all_effect_lists())
        if isinstance(p, MultiAgentProblem):
            self.need("class", "ACTION_BASED_MULTI_AGENT")
            self._ma()
        elif isinstance(p, SchedulingProblem):
            self.need("class", "SCHEDULING")
            self._common_fluents_objects()
            self._scheduling()
            self._metrics()
        elif isinstance(p, Problem):
            if isinstance(p, HierarchicalProblem):
                self.need("class", "HIERARCHICAL")
            elif isinstance(p, ContingentProblem):
                self.need("class", "CONTINGENT")
            else:
                self.need("class", "ACTION_BASED", "CONTINGENT", "TAMP")
            self._common_fluents_objects()
            self._problem()
            self._metrics()
            if isinstance(p, HierarchicalProblem):
                self._htn()
        # INT/REAL_FLUENTS only for numeric fluents that occur in a condition / effect / goal / constraint
        for f in self._all_fluents():
            if f in self.used:
                if f.type.is_int_type():
                    self.need(f"fluent {f.name}:used", "INT_FLUENTS")
                elif f.type.is_real_type():
                    self.need(f"fluent {f.name}:used", "REAL_FLUENTS")
        return self.req

    def _all_fluents(self):
        p = self.p
        if hasattr(p, "agents"):
            out = list(p.ma_environment.fluents)
            for ag in p.agents:
                out += list(ag.fluents)
            return out
        return list(p.fluents)

    def _common_fluents_objects(self):
        p = self.p
        for f in p.fluents:
            self.fluent(f, f"fluent {f.name}")
        for o in p.all_objects:
            self.typ(o.type, "object")
        hidden = set()
        for hf in getattr(p, "hidden_fluents", ()):  # contingent: unknown is not undefined
            a = hf.arg(0) if hf.is_not() else hf
            if a.is_fluent_exp():
                hidden.add(a.fluent())
        self.undefined(p.fluents, p.explicit_initial_values, p.fluents_defaults, p.objects, hidden, "initial-state")

    def _problem(self):
        p = self.p
        for a in p.actions:
            self.action(a, f"action {a.name}")
        for ev in p.events:
            self.params(ev.parameters, f"event {ev.name}")
            for c in ev.preconditions:
                self.cond(c, f"event {ev.name}:precondition")
            for e in ev.effects:
                self.effect(e, f"event {ev.name}:effect")
        for pr in p.processes:
            self.params(pr.parameters, f"process {pr.name}")
            for e in pr.effects:
                self.effect(e, f"process {pr.name}:effect")
        if p.timed_effects:
            self.need("timed-effects", "TIMED_EFFECTS")
            self.need("timed-effects", "CONTINUOUS_TIME", "DISCRETE_TIME")
            for _t, el in p.timed_effects.items():
                for e in el:
                    self.effect(e, "timed-effect")
        if p.timed_goals:
            self.need("timed-goals", "TIMED_GOALS")
            self.need("timed-goals", "CONTINUOUS_TIME", "DISCRETE_TIME")
            for _i, gl in p.timed_goals.items():
                for g in gl:
                    self.cond(g, "timed-goal")
        for g in p.goals:
            self.cond(g, "goal")
        for tc in p.trajectory_constraints:
            self.cond(tc, "trajectory-constraint")
            if tc.is_always():
                self.need("trajectory-constraint:always", "STATE_INVARIANTS")
            elif tc.is_sometime() or tc.is_sometime_before() or tc.is_sometime_after() or tc.is_at_most_once():
                self.need("trajectory-constraint", "TRAJECTORY_CONSTRAINTS")
            else:
                inner = [n for n in _walk(tc) if n.is_always() or n.is_sometime() or n.is_sometime_before() or n.is_sometime_after() or n.is_at_most_once()]
                if any(not n.is_always() for n in inner):
                    self.need("trajectory-constraint:nested", "TRAJECTORY_CONSTRAINTS")
                elif inner:
                    self.need("trajectory-constraint:nested-always", "STATE_INVARIANTS", "TRAJECTORY_CONSTRAINTS")

    def _metrics(self):
        for m in self.p.quality_metrics:
            if m.is_minimize_action_costs():
                self.need("metric", "ACTIONS_COST")
                costs = list(m.costs.values()) + ([m.default] if m.default is not None else [])
                for c in costs:
                    fl = self.fluents_of(c) if c is not None else set()
                    if fl:
                        self.need("metric:fluent-in-cost", *self._static_alts(fl, "ACTIONS_COST", False))
            elif m.is_minimize_expression_on_final_state() or m.is_maximize_expression_on_final_state():
                self.need("metric", "FINAL_VALUE")
                self.used |= self.fluents_of(m.expression)
            elif m.is_minimize_makespan():
                self.need("metric", "MAKESPAN")
            elif m.is_minimize_sequential_plan_length():
                self.need("metric", "PLAN_LENGTH")
            elif m.is_oversubscription():
                self.need("metric", "OVERSUBSCRIPTION")
                for g in m.goals.keys():
                    self.cond(g, "oversubscription-goal")
            elif m.is_temporal_oversubscription():
                self.need("metric", "TEMPORAL_OVERSUBSCRIPTION")
                for (_i, g) in m.goals.keys():
                    self.cond(g, "temporal-oversubscription-goal")

    def _htn(self):
        p = self.p
        for m in p.methods:
            for q in m.parameters:
                self.typ(q.type, f"method {m.name}:parameter")
            for c in m.preconditions:
                self.need(f"method {m.name}", "METHOD_PRECONDITIONS")
                self.cond(c, f"method {m.name}:precondition")
            for c in m.non_temporal_constraints():
                self.need(f"method {m.name}", "TASK_NETWORK_CONSTRAINTS")
                self.cond(c, f"method {m.name}:constraint")
        tn = p.task_network
        if tn.variables:
            self.need("task-network", "INITIAL_TASK_NETWORK_VARIABLES")
            for v in tn.variables:
                self.typ(v.type, "task-network:variable")
        for c in tn.non_temporal_constraints():
            self.need("task-network", "TASK_NETWORK_CONSTRAINTS")
            self.cond(c, "task-network:constraint")
        for t in p.tasks:
            for q in t.parameters:
                self.typ(q.type, f"task {t.name}:parameter")

    def _ma(self):
        p = self.p
        for f in p.ma_environment.fluents:
            self.fluent(f, f"env-fluent {f.name}")
        for o in p.all_objects:
            self.typ(o.type, "object")
        for ag in p.agents:
            for f in ag.fluents:
                self.fluent(f, f"agent-fluent {f.name}")
            for a in ag.actions:
                self.action(a, f"agent-action {a.name}", ma=True)
            if ag.public_goals:
                self.need("agent-goal", "AGENT_SPECIFIC_PUBLIC_GOAL")
            if ag.private_goals:
                self.need("agent-goal", "AGENT_SPECIFIC_PRIVATE_GOAL")
            for g in list(ag.public_goals) + list(ag.private_goals):
                self.cond(g, "agent-goal")
        for g in p.goals:
            self.cond(g, "goal")
        # undefined initial values: environment fluents and agent fluents without default and without (all) explicit values
        expl = [fe.arg(0) if fe.is_dot() else fe for fe in p.explicit_initial_values]
        self.undefined(p.ma_environment.fluents, [fe for fe in p.explicit_initial_values if not fe.is_dot()],
                       p.ma_environment.fluents_defaults, p.objects, set(), "initial-state:environment")
        for ag in p.agents:
            mine = [fe.arg(0) for fe in p.explicit_initial_values if fe.is_dot() and fe.agent() == ag.name]
            self.undefined(ag.fluents, mine, ag.fluents_defaults, p.objects, set(), "initial-state:agent")

    def _scheduling(self):
        p = self.p
        self.need("scheduling", "CONTINUOUS_TIME", "DISCRETE_TIME")
        for v in p.base_variables:
            self.typ(v.type, "variable")
        if p.base_conditions:
            self.need("base-condition", "TIMED_GOALS")
        for _span, c in p.base_conditions:
            self.cond(c, "base-condition")
        for c in p.base_constraints:
            self.cond(c, "base-constraint")
        if p.base_effects:
            self.need("base-effect", "TIMED_EFFECTS")
        for _t, e in p.base_effects:
            self.effect(e, "base-effect")
        for act in p.activities:
            w = f"activity {act.name}"
            self.params(act.parameters, w)
            self.duration(act.duration, w)
            self.timed_holder(act, w)
            for c in act.constraints:
                self.cond(c, w + ":constraint")


def check_kind(ctx, problem, tag):
    """assert extracted subset-of kind; returns (#requirements, kind)"""
    reqs = Extractor(problem).run()
    kind = problem.kind
    feats = set(kind.features)
    missing = {}
    for alts, where in reqs:
        if not any(a in feats for a in alts):
            missing.setdefault("|".join(alts), where)
    if missing:
        # one violation per path: the alphabetically first missing feature (the message lists all of them); the signature names the
        # feature and the name-free position
        import re

        first = sorted(missing)[0]
        where = re.sub(r"^(action|agent-action|event|process|method|task|activity|fluent|env-fluent|agent-fluent) [^:]+", r"\1", missing[first])
        ctx.fail(f"missing:{first}@{where}", f"{tag}: the problem uses {sorted(missing.items())} but kind.features = {sorted(feats)}")
    return len(reqs), kind


# =====================================================================================================================
# generated problems
# =====================================================================================================================
class B:
    pass


def _base(ctx, env, cls):
    """minimal skeleton of class `cls`; nothing in it uses a feature beyond typing / the class itself"""
    from unified_planning.model import Fluent, InstantaneousAction, Object, Problem

    em, tm = env.expression_manager, env.type_manager
    b = B()
    b.env, b.em, b.tm, b.cls = env, em, tm, cls
    b.T = tm.UserType("T")
    b.o1, b.o2 = Object("o1", b.T, env), Object("o2", b.T, env)
    b.b = Fluent("b", tm.BoolType(), environment=env)
    b.q = Fluent("q", tm.BoolType(), environment=env, x=b.T)
    b.agent = None
    if cls == "ma":
        from unified_planning.model.multi_agent import Agent, MultiAgentProblem

        P = MultiAgentProblem("m", env)
        ag = Agent("A", P)
        ag.add_public_fluent(b.b, default_initial_value=em.FALSE())
        ag.add_private_fluent(b.q, default_initial_value=em.FALSE())
        P.add_agent(ag)
        P.add_objects([b.o1, b.o2])
        b.agent = ag
        b.holder = ag  # where fluents and actions go
        a = InstantaneousAction("a", _env=env, x=b.T)
        a.add_precondition(em.FluentExp(b.q, [em.ParameterExp(a.parameter("x"))]))
        a.add_effect(em.FluentExp(b.b), em.TRUE())
        ag.add_action(a)
        P.add_goal(em.Dot(ag, em.FluentExp(b.b)))
        b.P, b.a = P, a
        return b
    if cls == "scheduling":
        from unified_planning.model.scheduling import Activity, SchedulingProblem

        P = SchedulingProblem("s", env)
        P.add_fluent(b.b, default_initial_value=em.FALSE())
        P.add_fluent(b.q, default_initial_value=em.FALSE())
        P.add_objects([b.o1, b.o2])
        act = Activity("act", duration=2, _env=env)
        P._activities.append(act)  # add_activity builds the Activity in the global environment
        b.P, b.act, b.holder = P, act, P
        return b
    if cls == "problem":
        P = Problem("p", env)
    elif cls == "hierarchical":
        from unified_planning.model.htn import HierarchicalProblem

        P = HierarchicalProblem("h", env)
    else:
        from unified_planning.model.contingent import ContingentProblem

        P = ContingentProblem("c", env)
    P.add_fluent(b.b, default_initial_value=em.FALSE())
    P.add_fluent(b.q, default_initial_value=em.FALSE())
    P.add_objects([b.o1, b.o2])
    a = InstantaneousAction("a", _env=env, x=b.T)
    a.add_precondition(em.FluentExp(b.q, [em.ParameterExp(a.parameter("x"))]))
    a.add_effect(em.FluentExp(b.b), em.TRUE())
    P.add_action(a)
    P.add_goal(em.FluentExp(b.b))
    b.P, b.a, b.holder = P, a, P
    if cls == "hierarchical":
        from unified_planning.model.htn import Method, Subtask, Task

        tk = Task("tk", _env=env, x=b.T)
        P.add_task(tk)
        mt = Method("mt", _env=env, x=b.T)
        mt.set_task(tk, mt.parameter("x"))
        mt.add_subtask(Subtask(a, em.ParameterExp(mt.parameter("x")), ident="ms1", _env=env))
        P.add_method(mt)
        P.task_network.add_subtask(Subtask(tk, em.ObjectExp(b.o1), ident="s1", _env=env))
        b.mt = mt
    if cls == "contingent":
        from unified_planning.model.contingent import SensingAction

        s = SensingAction("sense", _env=env, x=b.T)
        s.add_observed_fluent(em.FluentExp(b.q, [em.ParameterExp(s.parameter("x"))]))
        P.add_action(s)
        b.sense = s
    return b


def _add_fluent(b, f, default=None):
    if b.cls == "ma":
        b.agent.add_private_fluent(f, default_initial_value=default)
    else:
        b.P.add_fluent(f, default_initial_value=default)


def _num_fluents(b):
    """numeric helpers: n (int, written by an extra action => non-static), c (int, static)"""
    from unified_planning.model import Fluent, InstantaneousAction

    em, tm, env = b.em, b.tm, b.env
    if hasattr(b, "n"):
        return
    b.n = Fluent("n", tm.IntType(), environment=env)
    b.c = Fluent("c", tm.IntType(), environment=env)
    _add_fluent(b, b.n, em.Int(0))
    _add_fluent(b, b.c, em.Int(5))


# ---- condition constructs ---------------------------------------------------------------------------------------
COND = ["not", "or", "implies", "equals-object", "equals-number", "exists", "forall", "exists-subtype", "nested", "numeric-comparison"]


def _cond_expr(b, name, x):
    """construct `name` over the term x of type T (a parameter or the object o1)"""
    from unified_planning.model import Variable

    em, tm, env = b.em, b.tm, b.env
    qx = em.FluentExp(b.q, [x])
    bb = em.FluentExp(b.b)
    if name == "not":
        return em.Not(qx)
    if name == "or":
        return em.Or(bb, qx)
    if name == "implies":
        return em.Implies(bb, qx)
    if name == "equals-object":
        return em.Equals(x, em.ObjectExp(b.o2))
    if name == "equals-number":
        _num_fluents(b)
        return em.Equals(em.FluentExp(b.n), em.Int(3))
    if name == "exists":
        y = Variable("y", b.T, env)
        return em.Exists(em.FluentExp(b.q, [em.VariableExp(y)]), y)
    if name == "forall":
        y = Variable("y", b.T, env)
        return em.Forall(em.FluentExp(b.q, [em.VariableExp(y)]), y)
    if name == "exists-subtype":
        y = Variable("y", tm.UserType("S", b.T), env)
        return em.Exists(em.FluentExp(b.q, [em.VariableExp(y)]), y)
    if name == "nested":
        y = Variable("y", b.T, env)
        return em.And(bb, em.Not(em.Exists(em.Or(em.FluentExp(b.q, [em.VariableExp(y)]), em.Equals(em.VariableExp(y), x)), y)))
    if name == "numeric-comparison":
        _num_fluents(b)
        return em.LE(em.FluentExp(b.n), em.FluentExp(b.c))
    raise ValueError(name)


POSITIONS = {
    "problem": ["precondition", "effect-condition", "goal", "timed-goal", "durative-condition-start", "durative-condition-overall",
                "durative-effect-condition", "state-invariant", "sometime", "timed-effect-condition", "forall-effect-condition",
                "event-precondition", "oversubscription-goal", "temporal-oversubscription-goal"],
    # (the initial task network of a HierarchicalProblem always lives in the global environment: its constraints cannot be built
    #  from expressions of the path's fresh environment; method constraints cover the same kind code)
    "hierarchical": ["precondition", "goal", "method-precondition", "method-constraint", "durative-condition-start"],
    "contingent": ["precondition", "sensing-precondition", "goal", "effect-condition"],
    "ma": ["precondition", "effect-condition", "goal", "public-goal", "private-goal", "durative-condition-start", "durative-effect-condition"],
    "scheduling": ["activity-condition", "activity-constraint", "base-constraint", "base-condition", "activity-effect-condition"],
}


def _new_durative(b, name="d"):
    from unified_planning.model import DurativeAction

    d = DurativeAction(name, _env=b.env, x=b.T)
    d.set_fixed_duration(b.em.Int(3))
    return d


def _add_action(b, a):
    (b.agent if b.cls == "ma" else b.P).add_action(a)


def _place_condition(b, pos, mk):
    """put the condition mk(x) at position pos"""
    from unified_planning.model import (ClosedTimeInterval, EndTiming, Event, GlobalStartTiming, InstantaneousAction, Oversubscription,
                                        StartTiming, TemporalOversubscription, TimePointInterval, Variable)

    em, P = b.em, b.P
    o1 = em.ObjectExp(b.o1)
    if pos == "precondition":
        b.a.add_precondition(mk(em.ParameterExp(b.a.parameter("x"))))
    elif pos == "effect-condition":
        x = em.ParameterExp(b.a.parameter("x"))
        b.a.add_effect(em.FluentExp(b.q, [x]), em.TRUE(), mk(x))
    elif pos == "goal":
        P.add_goal(mk(o1))
    elif pos == "timed-goal":
        P.add_timed_goal(GlobalStartTiming(5), mk(o1))
    elif pos in ("durative-condition-start", "durative-condition-overall", "durative-effect-condition"):
        d = _new_durative(b)
        x = em.ParameterExp(d.parameter("x"))
        if pos == "durative-condition-start":
            d.add_condition(StartTiming(), mk(x))
        elif pos == "durative-condition-overall":
            d.add_condition(ClosedTimeInterval(StartTiming(), EndTiming()), mk(x))
        else:
            d.add_effect(EndTiming(), em.FluentExp(b.q, [x]), em.TRUE(), mk(x))
        _add_action(b, d)
    elif pos == "state-invariant":
        P.add_state_invariant(mk(o1))
    elif pos == "sometime":
        P.add_trajectory_constraint(em.Sometime(mk(o1)))
    elif pos == "timed-effect-condition":
        P.add_timed_effect(GlobalStartTiming(5), em.FluentExp(b.b), em.TRUE(), mk(o1))
    elif pos == "forall-effect-condition":
        y = Variable("z", b.T, b.env)
        b.a.add_effect(em.FluentExp(b.q, [em.VariableExp(y)]), em.FALSE(), mk(em.VariableExp(y)), forall=[y])
    elif pos == "event-precondition":
        ev = Event("ev", _env=b.env, x=b.T)
        ev.add_precondition(mk(em.ParameterExp(ev.parameter("x"))))
        ev.add_effect(em.FluentExp(b.b), em.FALSE())
        P.add_event(ev)
    elif pos == "oversubscription-goal":
        P.add_quality_metric(Oversubscription({mk(o1): 3}, environment=b.env))
    elif pos == "temporal-oversubscription-goal":
        P.add_quality_metric(TemporalOversubscription({(TimePointInterval(GlobalStartTiming(4)), mk(o1)): 3}, environment=b.env))
    elif pos == "method-precondition":
        b.mt.add_precondition(mk(em.ParameterExp(b.mt.parameter("x"))))
    elif pos == "task-network-constraint":
        P.task_network.add_constraint(mk(o1))
    elif pos == "method-constraint":
        b.mt.add_constraint(mk(em.ParameterExp(b.mt.parameter("x"))))
    elif pos == "sensing-precondition":
        b.sense.add_precondition(mk(em.ParameterExp(b.sense.parameter("x"))))
    elif pos == "public-goal":
        b.agent.add_public_goal(mk(o1))
    elif pos == "private-goal":
        b.agent.add_private_goal(mk(o1))
    elif pos == "activity-condition":
        b.act.add_condition(StartTiming(), mk(o1))
    elif pos == "activity-constraint":
        b.act.add_constraint(mk(o1))
    elif pos == "base-constraint":
        P.add_constraint(mk(o1))
    elif pos == "base-condition":
        P.add_condition(TimePointInterval(GlobalStartTiming(3)), mk(o1))
    elif pos == "activity-effect-condition":
        b.act.add_effect(EndTiming(), em.FluentExp(b.b), em.TRUE(), mk(o1))
    else:
        raise ValueError(pos)


STATIC_COND = ["static-equals", "static-not", "static-or", "static-implies"]


def _static_cond_expr(b, name, x):
    """task-network / method constraints must not read fluents: constructs over parameters and objects only"""
    em = b.em
    e1, e2 = em.Equals(x, em.ObjectExp(b.o1)), em.Equals(x, em.ObjectExp(b.o2))
    return {"static-equals": e1, "static-not": em.Not(e2), "static-or": em.Or(e1, e2), "static-implies": em.Implies(e1, e2)}[name]


def h_cond(ctx, cls, positions=None):
    env = ctx.fresh_env()
    positions = positions or POSITIONS[cls]
    pos = positions[ctx.choice("position", len(positions))]
    if pos == "method-constraint":
        name = STATIC_COND[ctx.choice("construct", len(STATIC_COND))]
        b = _base(ctx, env, cls)
        _place_condition(b, pos, lambda x: _static_cond_expr(b, name, x))
        n, _k = check_kind(ctx, b.P, f"{pos}:{name}")
        ctx.witness(f"{cls}:{pos}")
        return
    name = COND[ctx.choice("construct", len(COND))]
    b = _base(ctx, env, cls)
    if cls == "ma" and pos == "goal":
        # a top-level goal of a multi-agent problem talks about agent fluents through Dot
        _place_condition(b, pos, lambda x: _ma_dot(b, _cond_expr(b, name, x)))
    else:
        _place_condition(b, pos, lambda x: _cond_expr(b, name, x))
    n, _k = check_kind(ctx, b.P, f"{pos}:{name}")
    ctx.witness(f"{cls}:{pos}")
    ctx.note("case", f"{cls}: {name} in {pos}; {n} requirements")


def _ma_dot(b, e):
    """wrap every fluent expression of e in Dot(agent, .)"""
    em = b.em

    def rec(n):
        if n.is_fluent_exp():
            return em.Dot(b.agent, n)
        if not n.args:
            return n
        args = [rec(a) for a in n.args]
        if n.is_not():
            return em.Not(args[0])
        if n.is_or():
            return em.Or(args)
        if n.is_and():
            return em.And(args)
        if n.is_implies():
            return em.Implies(*args)
        if n.is_equals():
            return em.Equals(*args)
        if n.is_le():
            return em.LE(*args)
        if n.is_exists():
            return em.Exists(args[0], *n.variables())
        if n.is_forall():
            return em.Forall(args[0], *n.variables())
        raise ValueError(str(n))

    return rec(e)


# ---- effect constructs ------------------------------------------------------------------------------------------
EFFECTS = ["conditional", "forall", "increase", "decrease", "assign-bool-fluent", "assign-bool-static-fluent", "assign-number-fluent",
           "assign-number-static-fluent", "assign-object-fluent", "increase-by-static-fluent", "continuous-increase", "continuous-decrease"]
EFF_POSITIONS = {
    "problem": ["instantaneous", "durative-start", "durative-end", "timed", "event", "process"],
    "hierarchical": ["instantaneous", "durative-end"],
    "contingent": ["instantaneous"],
    "ma": ["instantaneous", "durative-end"],
    "scheduling": ["activity", "base"],
}


def _place_effect(ctx, b, pos, name):
    """returns False when the combination does not exist (continuous effects outside durative actions / processes ...)"""
    from unified_planning.model import (ClosedTimeInterval, EndTiming, Event, Fluent, GlobalStartTiming, Process, StartTiming, Variable)

    em, tm, env, P = b.em, b.tm, b.env, b.P
    cont = name.startswith("continuous")
    if cont != (pos in ("process", "durative-continuous")) and not (cont and pos in ("durative-start",)):
        if cont or pos == "process":
            return False
    # target holders
    if pos == "instantaneous":
        holder, x, timing = b.a, em.ParameterExp(b.a.parameter("x")), None
    elif pos in ("durative-start", "durative-end"):
        holder = _new_durative(b, "de")
        x, timing = em.ParameterExp(holder.parameter("x")), (StartTiming() if pos == "durative-start" else EndTiming())
        _add_action(b, holder)
    elif pos == "timed":
        holder, x, timing = P, em.ObjectExp(b.o1), GlobalStartTiming(5)
    elif pos == "event":
        holder = Event("eve", _env=env, x=b.T)
        holder.add_precondition(em.FluentExp(b.b))
        x, timing = em.ParameterExp(holder.parameter("x")), None
        P.add_event(holder)
    elif pos == "process":
        holder = Process("pr", _env=env)
        holder.add_precondition(em.FluentExp(b.b))
        x, timing = em.ObjectExp(b.o1), None
        P.add_process(holder)
    elif pos == "activity":
        holder, x, timing = b.act, em.ObjectExp(b.o1), EndTiming()
    elif pos == "base":
        holder, x, timing = P, em.ObjectExp(b.o1), GlobalStartTiming(5)
    else:
        raise ValueError(pos)
    T = (timing,) if timing is not None else ()

    def add(fl, val, cond=None, forall=()):
        kw = {}
        if cond is not None:
            kw["condition"] = cond
        if forall:
            kw["forall"] = forall
        if pos in ("timed",):
            P.add_timed_effect(timing, fl, val, **kw)
        else:
            holder.add_effect(*T, fl, val, **kw)

    def incdec(fl, val, dec=False):
        m = "add_decrease_effect" if dec else "add_increase_effect"
        getattr(holder, m)(*T, fl, val)

    bb, qx = em.FluentExp(b.b), em.FluentExp(b.q, [x])
    if name == "conditional":
        add(qx, em.TRUE(), cond=bb)
    elif name == "forall":
        if pos in ("activity", "base"):
            return False
        y = Variable("ze", b.T, env)
        add(em.FluentExp(b.q, [em.VariableExp(y)]), em.FALSE(), forall=[y])
    elif name in ("increase", "decrease", "increase-by-static-fluent"):
        _num_fluents(b)
        incdec(em.FluentExp(b.n), em.FluentExp(b.c) if name == "increase-by-static-fluent" else em.Int(1), dec=(name == "decrease"))
    elif name == "assign-bool-fluent":
        add(qx, bb)  # b is written by the base action (or by nothing in scheduling: then the requirement is the disjunction)
    elif name == "assign-bool-static-fluent":
        sb = Fluent("sb", tm.BoolType(), environment=env)
        _add_fluent(b, sb, em.TRUE())
        add(qx, em.FluentExp(sb))
    elif name == "assign-number-fluent":
        _num_fluents(b)
        add(em.FluentExp(b.n), em.Plus(em.FluentExp(b.n), em.Int(1)))
    elif name == "assign-number-static-fluent":
        _num_fluents(b)
        add(em.FluentExp(b.n), em.FluentExp(b.c))
    elif name == "assign-object-fluent":
        w = Fluent("w", b.T, environment=env)
        w2 = Fluent("w2", b.T, environment=env, x=b.T)
        _add_fluent(b, w, em.ObjectExp(b.o1))
        _add_fluent(b, w2, em.ObjectExp(b.o2))
        add(em.FluentExp(w), em.FluentExp(w2, [x]))
    elif cont:
        r = Fluent("r", tm.RealType(), environment=env)
        _add_fluent(b, r, em.Real(Fraction(0)))
        dec = name.endswith("decrease")
        if pos == "process":
            (holder.add_decrease_continuous_effect if dec else holder.add_increase_continuous_effect)(em.FluentExp(r), em.Int(2))
        else:
            iv = ClosedTimeInterval(StartTiming(), EndTiming())
            (holder.add_decrease_continuous_effect if dec else holder.add_increase_continuous_effect)(iv, em.FluentExp(r), em.Int(2))
    else:
        raise ValueError(name)
    return True


def h_effect(ctx, cls, positions=None):
    env = ctx.fresh_env()
    positions = positions or EFF_POSITIONS[cls]
    pos = positions[ctx.choice("position", len(positions))]
    name = EFFECTS[ctx.choice("construct", len(EFFECTS))]
    b = _base(ctx, env, cls)
    ctx.assume(_place_effect(ctx, b, pos, name))
    n, _k = check_kind(ctx, b.P, f"{pos}:{name}")
    ctx.witness(f"{cls}:{pos}")
    ctx.note("case", f"{cls}: {name} effect in {pos}; {n} requirements")


def h_cond_effect(ctx, cls):
    """thorough tier: one condition construct and one effect construct in the same problem (interaction of the two scans)"""
    env = ctx.fresh_env()
    positions = [q for q in POSITIONS[cls] if q != "method-constraint"]
    pos = positions[ctx.choice("position", len(positions))]
    name = COND[ctx.choice("construct", len(COND))]
    epos = EFF_POSITIONS[cls][ctx.choice("effect-position", len(EFF_POSITIONS[cls]))]
    ename = EFFECTS[ctx.choice("effect", len(EFFECTS))]
    b = _base(ctx, env, cls)
    _place_condition(b, pos, lambda x: _cond_expr(b, name, x))
    ctx.assume(_place_effect(ctx, b, epos, ename))
    check_kind(ctx, b.P, f"{pos}:{name}+{epos}:{ename}")
    ctx.witness(f"{cls}:{pos}+{epos}")


# ---- types ------------------------------------------------------------------------------------------------------
TYPES = ["int-fluent", "real-fluent", "object-fluent", "int-fluent-lower-bound", "int-fluent-upper-bound", "int-fluent-both-bounds",
         "real-fluent-bounds", "unused-bounded-fluent", "bool-fluent-parameter", "int-fluent-parameter", "bool-action-parameter",
         "bounded-int-action-parameter", "half-bounded-int-action-parameter", "unbounded-int-action-parameter", "real-action-parameter",
         "subtype-object-only", "subtype-fluent-parameter", "subtype-action-parameter", "subtype-fluent-type", "subtype-forall-effect-variable"]


def _place_type(ctx, b, name, sym=False):
    from unified_planning.model import Fluent, InstantaneousAction, Object, Variable

    em, tm, env, P = b.em, b.tm, b.env, b.P

    def used_in_goal(f):
        g = em.GE(em.FluentExp(f), em.Int(0)) if f.type.is_int_type() else em.GE(em.FluentExp(f), em.Real(Fraction(0)))
        if b.cls == "ma":
            b.agent.add_private_goal(g)
        elif b.cls == "scheduling":
            P.add_constraint(g)
        else:
            P.add_goal(g)

    def new_action(**params):
        if b.cls == "scheduling":
            return False  # Chronicle.add_parameter builds the Parameter in the global environment
        a = InstantaneousAction("a2", _env=env, **params)
        a.add_effect(em.FluentExp(b.b), em.FALSE())
        _add_action(b, a)
        return a

    def ival(nm, lo=-8, hi=8):
        return ctx.int(nm, lo, hi) if sym else {"lb": 0, "ub": 7}[nm]

    S = lambda: tm.UserType("S", b.T)  # noqa: E731
    if name in ("int-fluent", "int-fluent-lower-bound", "int-fluent-upper-bound", "int-fluent-both-bounds"):
        lb = ival("lb") if name in ("int-fluent-lower-bound", "int-fluent-both-bounds") else None
        ub = ival("ub") if name in ("int-fluent-upper-bound", "int-fluent-both-bounds") else None
        if lb is not None and ub is not None:
            ctx.assume(lb <= ub)
        f = Fluent("n", tm.IntType(lb, ub), environment=env)
        _add_fluent(b, f)
        used_in_goal(f)
    elif name in ("real-fluent", "real-fluent-bounds"):
        if name == "real-fluent-bounds":
            lo = Fraction(ctx.int("rlb", -8, 8), 4) if sym else Fraction(1, 4)
            f = Fluent("r", tm.RealType(lo, None), environment=env)
        else:
            f = Fluent("r", tm.RealType(), environment=env)
        _add_fluent(b, f)
        used_in_goal(f)
    elif name == "unused-bounded-fluent":
        _add_fluent(b, Fluent("n", tm.IntType(None, ival("ub")), environment=env), em.Int(0) if not sym else None)
    elif name == "object-fluent":
        _add_fluent(b, Fluent("w", b.T, environment=env), em.ObjectExp(b.o1))
    elif name == "bool-fluent-parameter":
        _add_fluent(b, Fluent("fb", tm.BoolType(), environment=env, k=tm.BoolType()), em.FALSE())
    elif name == "int-fluent-parameter":
        _add_fluent(b, Fluent("fi", tm.BoolType(), environment=env, k=tm.IntType(0, 2)), em.FALSE())
    elif name == "bool-action-parameter":
        return new_action(k=tm.BoolType()) is not False
    elif name == "bounded-int-action-parameter":
        return new_action(k=tm.IntType(0, 3)) is not False
    elif name == "half-bounded-int-action-parameter":
        return new_action(k=tm.IntType(0, None)) is not False
    elif name == "unbounded-int-action-parameter":
        return new_action(k=tm.IntType()) is not False
    elif name == "real-action-parameter":
        return new_action(k=tm.RealType(Fraction(0), Fraction(1))) is not False
    elif name == "subtype-object-only":
        P.add_object(Object("s1", S(), env))
    elif name == "subtype-fluent-parameter":
        _add_fluent(b, Fluent("fs", tm.BoolType(), environment=env, k=S()), em.FALSE())
    elif name == "subtype-action-parameter":
        return new_action(k=S()) is not False
    elif name == "subtype-fluent-type":
        P.add_object(Object("s1", S(), env))
        _add_fluent(b, Fluent("ws", S(), environment=env), em.ObjectExp(P.object("s1")))
    elif name == "subtype-forall-effect-variable":
        if b.cls == "scheduling":
            return False
        y = Variable("z", S(), env)
        b.a.add_effect(em.FluentExp(b.q, [em.VariableExp(y)]), em.FALSE(), forall=[y])
    else:
        raise ValueError(name)
    return True


def h_types(ctx, cls, names=None, sym=False):
    env = ctx.fresh_env()
    names = names or TYPES
    name = names[ctx.choice("construct", len(names))]
    b = _base(ctx, env, cls)
    ctx.assume(_place_type(ctx, b, name, sym))
    n, _k = check_kind(ctx, b.P, f"type:{name}")
    ctx.witness(f"{cls}:{name}")
    ctx.note("case", f"{cls}: {name}; {n} requirements")


# ---- durations, timed constructs, constraints, metrics, initial state -----------------------------------------------
MISC = ["duration-static-fluent-lower", "duration-static-fluent-upper", "duration-fluent-lower", "duration-fluent-upper", "duration-inequality",
        "timed-effect", "timed-goal", "timed-goal-interval", "state-invariant", "sometime", "at-most-once", "sometime-before",
        "and-of-always-and-sometime", "forall-always", "metric-action-costs", "metric-action-costs-fluent", "metric-final-value",
        "metric-final-value-max", "metric-makespan", "metric-plan-length", "metric-oversubscription", "metric-temporal-oversubscription",
        "undefined-numeric", "undefined-bool", "undefined-object", "undefined-partially"]


def _place_misc(ctx, b, name):
    from unified_planning.model import (ClosedTimeInterval, Fluent, GlobalStartTiming, MaximizeExpressionOnFinalState, MinimizeActionCosts,
                                        MinimizeExpressionOnFinalState, MinimizeMakespan, MinimizeSequentialPlanLength, Oversubscription,
                                        TemporalOversubscription, TimePointInterval, Variable)

    em, tm, env, P, cls = b.em, b.tm, b.env, b.P, b.cls
    classical = cls in ("problem", "hierarchical", "contingent")
    o1 = em.ObjectExp(b.o1)
    bb, q1 = em.FluentExp(b.b), em.FluentExp(b.q, [o1])
    if name.startswith("duration"):
        _num_fluents(b)
        if name in ("duration-fluent-lower", "duration-fluent-upper"):
            # make c non-static: some action writes it
            b.a.add_effect(em.FluentExp(b.c), em.Int(2)) if cls != "scheduling" else b.act.add_effect(b.act.end + 0, em.FluentExp(b.c), em.Int(2))
        cexp = em.FluentExp(b.c)
        if cls == "scheduling":
            tgt = b.act
        else:
            tgt = _new_durative(b)
            _add_action(b, tgt)
        if name.endswith("lower"):
            lo, hi = cexp, em.Int(100)
        elif name.endswith("upper"):
            lo, hi = em.Int(1), cexp
        else:
            lo, hi = em.Int(1), em.Int(4)
        if cls == "scheduling":
            tgt.set_duration_bounds(lo, hi)
        else:
            tgt.set_closed_duration_interval(lo, hi)
        return True
    if name in ("timed-effect", "timed-goal", "timed-goal-interval", "state-invariant", "sometime", "at-most-once", "sometime-before",
                "and-of-always-and-sometime", "forall-always"):
        if not classical:
            return False
        if name == "timed-effect":
            P.add_timed_effect(GlobalStartTiming(5), bb, em.TRUE())
        elif name == "timed-goal":
            P.add_timed_goal(GlobalStartTiming(5), q1)
        elif name == "timed-goal-interval":
            P.add_timed_goal(ClosedTimeInterval(GlobalStartTiming(2), GlobalStartTiming(5)), q1)
        elif name == "state-invariant":
            P.add_state_invariant(em.Or(bb, q1))
        elif name == "sometime":
            P.add_trajectory_constraint(em.Sometime(q1))
        elif name == "at-most-once":
            P.add_trajectory_constraint(em.AtMostOnce(q1))
        elif name == "sometime-before":
            P.add_trajectory_constraint(em.SometimeBefore(q1, bb))
        elif name == "and-of-always-and-sometime":
            P.add_trajectory_constraint(em.And(em.Always(em.Or(bb, q1)), em.Sometime(q1)))
        else:
            y = Variable("y", b.T, env)
            P.add_trajectory_constraint(em.Forall(em.Always(em.Or(bb, em.FluentExp(b.q, [em.VariableExp(y)]))), y))
        return True
    if name.startswith("metric"):
        if cls == "ma":
            return False
        if name == "metric-action-costs":
            if cls == "scheduling":
                return False
            P.add_quality_metric(MinimizeActionCosts({b.a: em.Int(2)}, default=em.Int(1), environment=env))
        elif name == "metric-action-costs-fluent":
            if cls == "scheduling":
                return False
            _num_fluents(b)
            P.add_quality_metric(MinimizeActionCosts({b.a: em.FluentExp(b.c)}, default=em.Int(1), environment=env))
        elif name in ("metric-final-value", "metric-final-value-max"):
            _num_fluents(b)
            M = MinimizeExpressionOnFinalState if name == "metric-final-value" else MaximizeExpressionOnFinalState
            P.add_quality_metric(M(em.FluentExp(b.n), environment=env))
        elif name == "metric-makespan":
            P.add_quality_metric(MinimizeMakespan(environment=env))
        elif name == "metric-plan-length":
            P.add_quality_metric(MinimizeSequentialPlanLength(environment=env))
        elif name == "metric-oversubscription":
            P.add_quality_metric(Oversubscription({q1: Fraction(3, 2)}, environment=env))
        else:
            P.add_quality_metric(TemporalOversubscription({(TimePointInterval(GlobalStartTiming(4)), q1): 2}, environment=env))
        return True
    if name.startswith("undefined"):
        if name == "undefined-numeric":
            _add_fluent(b, Fluent("un", tm.IntType(), environment=env))
        elif name == "undefined-bool":
            _add_fluent(b, Fluent("ub", tm.BoolType(), environment=env))
        elif name == "undefined-object":
            _add_fluent(b, Fluent("uo", b.T, environment=env))
        else:
            f = Fluent("up", tm.BoolType(), environment=env, x=b.T)
            _add_fluent(b, f)
            fe = em.FluentExp(f, [o1])
            P.set_initial_value(em.Dot(b.agent, fe) if cls == "ma" else fe, em.TRUE())
        return True
    raise ValueError(name)


def h_misc(ctx, cls, names=None):
    env = ctx.fresh_env()
    names = names or MISC
    name = names[ctx.choice("construct", len(names))]
    b = _base(ctx, env, cls)
    ctx.assume(_place_misc(ctx, b, name))
    n, _k = check_kind(ctx, b.P, f"misc:{name}")
    ctx.witness(f"{cls}:{name}")
    ctx.note("case", f"{cls}: {name}; {n} requirements")


# =====================================================================================================================
# corpora
# =====================================================================================================================
def _corpus(which):
    import os
    import sys
    import warnings

    warnings.simplefilter("ignore")
    if which == "examples":
        from unified_planning.test.examples import get_example_problems

        return {k: v.problem for k, v in get_example_problems().items()}
    repo = os.environ.get("VERIF_REPO", "/repo").rstrip("/")
    p = os.path.join(repo, "up_test_cases")
    if p not in sys.path:
        sys.path.insert(0, p)  # the builtin cases import `utils` as a top-level module
    from up_test_cases.utils import _get_test_cases

    return {k: v.problem for k, v in _get_test_cases("up_test_cases.builtin").items()}


def h_corpus(ctx, which, part=0, parts=1):
    try:
        try:
            probs = _corpus(which)
        except Exception:  # noqa: BLE001 -- one retry: on a heavily loaded machine the first load has been seen to fail
            probs = _corpus(which)
    except Exception as e:  # noqa: BLE001 -- the corpus cannot be loaded from this tree (e.g. an exported copy without the PDDL files
        # of up_test_cases): nothing to check here; the run on /repo loads both corpora (witness counts in the evidence)
        ctx.note("corpus-unavailable", f"{type(e).__name__}: {e}")
        ctx.assume(False)
    names = sorted(probs)[part::parts]
    bad = []
    for nm in names:
        p = probs[nm]
        try:
            check_kind(ctx, p, f"{type(p).__name__}")
        except Exception as e:  # Violation: collect, report the first by name with all of them in the message
            if type(e).__name__ != "Violation":
                raise
            bad.append((nm, e.sig, e.msg))
        ctx.witness(f"{which}:{type(p).__name__}")
    if bad:
        nm, sig, msg = bad[0]
        ctx.fail(f"{which}:{nm}:{sig}", f"{len(bad)} corpus problems under-report: {[(a, s) for a, s, _ in bad]}; first: {msg}")


# =====================================================================================================================
def shards(tier, seed):
    out = []
    bud = 200 if tier == "quick" else 900

    def add(name, fn, **kw):
        eng = kw.pop("engine", "direct")
        out.append(dict(name=name, fn=fn, kwargs=kw, budget=bud, per_path=30, engine=eng))

    quick = tier == "quick"
    for cls in ("problem", "hierarchical", "contingent", "scheduling"):
        add(f"{cls}-cond", "h_cond", cls=cls)
        add(f"{cls}-effect", "h_effect", cls=cls)
        # hierarchical and contingent problems share Problem's scan of types / metrics / initial state: thorough only
        if not quick or cls in ("problem", "scheduling"):
            add(f"{cls}-types", "h_types", cls=cls)
        if not quick or cls != "contingent":
            add(f"{cls}-misc", "h_misc", cls=cls)
        if not quick and cls != "scheduling":
            add(f"{cls}-cond-x-effect", "h_cond_effect", cls=cls)
    # the multi-agent kind has its own (much shorter) case analysis: the positions it does not inspect get a shard each so that
    # every omission is recorded (at most 4 distinct signatures are kept per shard)
    ma_ok = ["precondition", "effect-condition", "goal", "public-goal", "private-goal"]
    add("ma-cond-instantaneous-and-goals", "h_cond", cls="ma", positions=ma_ok)
    for pos in [q for q in POSITIONS["ma"] if q not in ma_ok]:
        add(f"ma-cond-{pos}", "h_cond", cls="ma", positions=[pos])
    for pos in EFF_POSITIONS["ma"]:
        add(f"ma-effect-{pos}", "h_effect", cls="ma", positions=[pos])
    add("ma-types-fluents", "h_types", cls="ma", names=[n for n in TYPES if "fluent" in n and "forall" not in n])
    add("ma-types-parameters", "h_types", cls="ma", names=[n for n in TYPES if "action-parameter" in n])
    add("ma-types-subtypes", "h_types", cls="ma", names=[n for n in TYPES if n.startswith("subtype")])
    add("ma-misc-durations", "h_misc", cls="ma", names=[n for n in MISC if n.startswith("duration")])
    add("ma-misc-undefined", "h_misc", cls="ma", names=[n for n in MISC if n.startswith("undefined")])
    # numeric bound VALUES as solver variables: bounds present => BOUNDED_TYPES for every value
    add("problem-bounds-sym", "h_types", cls="problem", sym=True, engine="symex",
        names=["int-fluent-lower-bound", "int-fluent-upper-bound", "int-fluent-both-bounds", "real-fluent-bounds", "unused-bounded-fluent"])
    add("corpus-examples", "h_corpus", which="examples")
    add("corpus-up-test-cases", "h_corpus", which="up_test_cases")
    if tier != "quick":
        add("ma-bounds-sym", "h_types", cls="ma", sym=True, engine="symex",
            names=["int-fluent-lower-bound", "int-fluent-upper-bound", "int-fluent-both-bounds", "real-fluent-bounds"])
        add("scheduling-bounds-sym", "h_types", cls="scheduling", sym=True, engine="symex",
            names=["int-fluent-lower-bound", "int-fluent-upper-bound", "int-fluent-both-bounds", "real-fluent-bounds"])
    return out


MANIFEST = dict(
    engine="direct+symex",
    technique="bounded-exhaustive exploration (re-execution DFS over choice variables) of construct x position placements on skeletons of the "
              "five problem classes and the bundled corpora, against an independent syntactic feature extractor; one symex shard with the "
              "values of numeric type bounds as solver variables",
    text="Exploration: every listed construct is placed alone in every listed position of a minimal problem of each class; the computed kind must "
         "contain every feature the independent extractor derives syntactically (alternatives where static/non-static is open). The same check runs "
         "on all example problems and up_test_cases.builtin. Solver role low (structure); z3 only decides that BOUNDED_TYPES does not depend on "
         "the value of a bound.",
    note="Trusted: the extractor's reading of 'uses' (conservative: debatable uses are not demanded). Not a proof beyond the single-construct "
         "placements; linearity/SIMPLE_NUMERIC_PLANNING is C17's.",
)
