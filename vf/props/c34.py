"""C34 HTN task-network ordering extraction is exact.

Layer 1 (symex, values symbolic): the real `_build_total_order(tasks, precedences)` on
tasks {0..n-1} and m precedence pairs whose ENDPOINTS are solver integers in [0,n)
(duplicates, self-loops and cycles included).  Oracle, one solver query per path: over the
n! permutations pi, consistent(pi) = AND_k pos_pi[src_k] < pos_pi[tgt_k] (position lookup as
an if-then-else chain over the symbolic endpoint); the result is a list iff exactly one pi is
consistent, and then it is that pi.

Layer 2 (direct engine, structure by choice variables): the public API.  A TaskNetwork or a
Method gets n subtasks, every ordered pair (i, j) is a
choice bit "end(i) < start(j) is a constraint", inserted through set_strictly_before /
add_constraint(LT) / add_constraint(GT) / set_ordered chains, plus one extra constraint slot
{none, non-temporal, delayed (either side), start-start, end-end, start-end, <=, ==, global
timepoint, quantitative difference}.  Oracle (plain Python over the chosen bits): the set of
linear extensions by enumeration of the n! permutations and the transitive closure of the
relation.
  * total_order() is a list  <=>  exactly one permutation is consistent, and it is that one;
  * partial_order() generates exactly the chosen relation (compared by transitive closure; when
    no total order is reported the list must be exactly the chosen set of pairs);
  * any extra slot that is not a strict end-before-start precedence => both report None;
  * a non-temporal constraint does not change anything;
  * observing does not change the network (constraints list, second call gives the same answer).
"""
import itertools

PROPERTY = "C34"
LEVEL = "model_checking"
FUNCTIONS = [
    "unified_planning.model.htn.ordering:_build_total_order",
    "unified_planning.model.htn.ordering:ordering",
    "unified_planning.model.htn.ordering:PartialOrder.__init__",
    "unified_planning.model.htn.ordering:TotalOrder.__init__",
    "unified_planning.model.htn.task_network:AbstractTaskNetwork.partial_order",
    "unified_planning.model.htn.task_network:AbstractTaskNetwork.total_order",
    "unified_planning.model.htn.task_network:AbstractTaskNetwork._ordering",
    "unified_planning.model.htn.task_network:AbstractTaskNetwork.temporal_constraints",
    "unified_planning.model.htn.task_network:AbstractTaskNetwork.add_constraint",
    "unified_planning.model.htn.task_network:AbstractTaskNetwork.set_ordered",
    "unified_planning.model.htn.task_network:AbstractTaskNetwork.set_strictly_before",
    "unified_planning.model.htn.task_network:AbstractTaskNetwork.add_subtask",
]
BOUNDS = ("layer 1: n <= 4 tasks, m <= 5 precedence pairs with symbolic endpoints in [0,n) (quick: n=3,m<=5 complete, n=4,m=3 complete, n=4,m=4 with the "
          "first pair one representative per renaming class; thorough: n=4,m=4 complete, n=4,m=5 with the first pair one representative per class, n=5,m=3); "
          "layer 2: every relation over 3 subtasks incl. self-loops (2^9) and every acyclic-by-construction relation over 4 and 5 subtasks "
          "under every renaming (quick: 4 subtasks; thorough: every relation over 4 subtasks without self-loops (2^12) and 5 subtasks forward pairs x all renamings), "
          "x 12 extra-constraint slots x {TaskNetwork, Method} x 4 insertion styles")
OUTSIDE = ("more than 5 subtasks; HierarchicalProblem.task_network (it is created in the global environment whatever environment the problem has); precedences that mention identifiers that are not subtasks of the network; "
           "symbolic identifier strings (layer 1 uses ints as task ids); conjunctions/negations of precedences as a single constraint")
ASSUMPTIONS = ["layer 1 calls _build_total_order with int task ids (the function only uses ==/!= and set membership on ids)",
               "layer 2 is explored by plain re-execution over choice variables (no symbolic values: the inputs are pure structure); "
               "oracle = enumeration of permutations / transitive closure in the harness"]


# ----------------------------------------------------------------------------------------------
# oracle helpers (plain python)
# ----------------------------------------------------------------------------------------------
def _linear_extensions(ids, pairs):
    out = []
    for pi in itertools.permutations(ids):
        pos = {t: i for i, t in enumerate(pi)}
        if all(pos[a] < pos[b] for a, b in pairs):
            out.append(list(pi))
    return out


def _closure(pairs):
    rel = set(pairs)
    changed = True
    while changed:
        changed = False
        for a, b in list(rel):
            for c, d in list(rel):
                if b == c and (a, d) not in rel:
                    rel.add((a, d))
                    changed = True
    return rel


# ----------------------------------------------------------------------------------------------
# layer 1
# ----------------------------------------------------------------------------------------------
def h_unit(ctx, n, m, fixed=(), m_free=False, fixed_src=(), src_range=None):
    from unified_planning.model.htn.ordering import _build_total_order

    tasks = set(range(n))
    if m_free:
        m = ctx.choice("m", m + 1)
    precs = []
    for k in range(m):
        if k < len(fixed):
            s, t = fixed[k]
        else:
            lo, hi = (src_range or {}).get(str(k), (0, n - 1))  # shard key: a sub-range of one source endpoint
            s = fixed_src[k] if k < len(fixed_src) else ctx.int(f"s{k}", lo, hi)
            t = ctx.int(f"t{k}", 0, n - 1)
        precs.append((s, t))
    given = list(precs)
    res = _build_total_order(tasks, given)
    ctx.check(tasks == set(range(n)), "unit:tasks-mutated", "_build_total_order changed the task set it was given")
    ctx.check(len(given) == len(precs) and all(a is b for a, b in zip(given, precs)), "unit:precedences-mutated",
              "_build_total_order changed the precedence list it was given")
    if res is not None:
        ctx.check(isinstance(res, list) and len(res) == n and set(res) == tasks, "unit:not-a-permutation",
                  f"_build_total_order returned {res}, not a permutation of the tasks")
        res = [int(x) for x in res]
    perms = list(itertools.permutations(range(n)))
    if ctx.mode == "replay":
        ext = _linear_extensions(range(n), precs)
        if res is None:
            ctx.check(len(ext) != 1, "unit:missed-total-order",
                      f"precedences {precs} admit exactly one linear ordering {ext[:1]} but None was returned")
        else:
            ctx.check(ext == [res], "unit:wrong-total-order",
                      f"precedences {precs}: returned {res} but the consistent linear orderings are {ext[:4]}")
    else:
        import z3
        from vf.symctx import zvar

        def build():
            zs = [(zvar(a), zvar(b)) for a, b in precs]

            def pos(pi, x):
                p = {t: i for i, t in enumerate(pi)}
                e = z3.IntVal(p[n - 1])
                for t in range(n - 2, -1, -1):
                    e = z3.If(x == t, p[t], e)
                return e

            cons = {pi: (z3.And([pos(pi, a) < pos(pi, b) for a, b in zs]) if zs else z3.BoolVal(True)) for pi in perms}
            if res is None:
                viol = z3.Or([z3.And([cons[pi]] + [z3.Not(cons[q]) for q in perms if q != pi]) for pi in perms])
            else:
                me = tuple(res)
                viol = z3.Or([z3.Not(cons[me])] + [cons[q] for q in perms if q != me])
            return viol, {}

        ctx.forall(build, None, "unit:missed-total-order" if res is None else "unit:wrong-total-order",
                   "_build_total_order disagrees with 'exactly one consistent permutation'")
    ctx.witness("total" if res is not None else "not-total")


# ----------------------------------------------------------------------------------------------
# layer 2
# ----------------------------------------------------------------------------------------------
SLOTS = ["none", "nontemporal", "delay-lhs", "delay-rhs", "start-start", "end-end", "start-end", "le", "eq",
         "global-lhs", "global-rhs", "difference"]
STYLES = ["strictly_before", "add_lt", "add_gt", "set_ordered"]
CONTAINERS = ["tn", "method"]


def _chains(pairs):
    """Cover the relation by chains a0<a1<...: each pair is used exactly once (set_ordered on every chain)."""
    todo = list(pairs)
    chains = []
    while todo:
        a, b = todo.pop(0)
        ch = [a, b]
        while True:
            nxt = [p for p in todo if p[0] == ch[-1] and p[1] not in ch]
            if not nxt:
                break
            todo.remove(nxt[0])
            ch.append(nxt[0][1])
        chains.append(ch)
    return chains


def h_api(ctx, n, container, style, slot, pair_mode="all", rename=None, slot_pos=None, bits=None):
    # a list-valued n / container / style / slot is a choice variable
    if isinstance(n, list):
        n = ctx.pick("n", n)
    if isinstance(container, list):
        container = ctx.pick("container", container)
    if isinstance(style, list):
        style = ctx.pick("style", style)
    if isinstance(slot, list):
        slot = ctx.pick("slot", slot)
    ctx.assume(n >= 1 or slot == "none")  # the extra constraint needs a subtask to talk about
    import unified_planning as up
    from unified_planning.model import GlobalStartTiming, Timing
    from unified_planning.model.htn import Method, Subtask, Task, TaskNetwork

    env = ctx.fresh_env()
    em, tm = env.expression_manager, env.type_manager
    loc = tm.UserType("Loc")
    task = Task("T", _env=env)
    if container == "tn":
        net = TaskNetwork(env)
        par = em.ParameterExp(net.add_variable("v", loc))
    elif container == "method":
        net = Method("m", _env=env, v=loc)
        par = em.ParameterExp(net.parameter("v"))
    else:
        raise ValueError(container)
    obj = em.ObjectExp(up.model.Object("l1", loc, env))
    # identifiers: a renaming decouples the identifier text (set iteration order inside `ordering`) from the index
    if rename is None:
        names = [f"s{i}" for i in range(n)]
    elif rename == "choice":
        names = ctx.perm("rename", [f"s{i}" for i in range(n)])
    else:
        names = [f"s{i}" for i in rename]
    subs = [Subtask(task, ident=names[i], _env=env) for i in range(n)]
    for s in subs:
        r = net.add_subtask(s)
        ctx.check(r is s, "api:add_subtask", "add_subtask did not return the subtask it was given")
    if pair_mode == "all":
        cand = [(i, j) for i in range(n) for j in range(n)]
    elif pair_mode == "noself":
        cand = [(i, j) for i in range(n) for j in range(n) if i != j]
    else:  # forward: acyclic by construction
        cand = [(i, j) for i in range(n) for j in range(i + 1, n)]
    chosen = []
    for k, (i, j) in enumerate(cand):
        b = bits[k] if bits is not None and k < len(bits) else ctx.choice(f"p{i}{j}", 2)
        if b:
            chosen.append((i, j))

    def extra():
        if slot == "none":
            return
        a, b = subs[0], subs[1 % n]
        if slot == "nontemporal":
            net.add_constraint(em.Equals(par, obj))
        elif slot == "delay-lhs":
            net.set_strictly_before(Timing(1, a.end), b)
        elif slot == "delay-rhs":
            net.set_strictly_before(a, Timing(1, b.start))
        elif slot == "start-start":
            net.set_strictly_before(a.start, b.start)
        elif slot == "end-end":
            net.set_strictly_before(a.end, b.end)
        elif slot == "start-end":
            net.set_strictly_before(a.start, b.end)
        elif slot == "le":
            net.add_constraint(em.LE(a.end, b.start))
        elif slot == "eq":
            net.add_constraint(em.Equals(a.end, b.start))
        elif slot == "global-lhs":
            net.add_constraint(em.LT(GlobalStartTiming(), b.start))
        elif slot == "global-rhs":
            net.add_constraint(em.LT(a.end, up.model.GlobalEndTiming()))
        elif slot == "difference":
            net.add_constraint(em.LT(em.Minus(b.start, a.end), 5))
        else:
            raise ValueError(slot)

    # where the extra constraint goes relative to the precedences: first / last (by choice unless fixed)
    pos = slot_pos if slot_pos is not None else (ctx.choice("slot_pos", 2) if slot != "none" and chosen else 0)
    if pos == 0:
        extra()
    if style == "set_ordered":
        for ch in _chains(chosen):
            net.set_ordered(*[subs[i] for i in ch])
    else:
        for i, j in chosen:
            if style == "strictly_before":
                net.set_strictly_before(subs[i], subs[j])
            elif style == "add_lt":
                net.add_constraint(em.LT(subs[i].end, subs[j].start))
            else:
                net.add_constraint(em.GT(subs[j].start, subs[i].end))
    if pos == 1:
        extra()

    snapshot = list(net.constraints)
    to1 = net.total_order()
    po1 = net.partial_order()
    po2 = net.partial_order()
    to2 = net.total_order()
    ctx.check(list(net.constraints) == snapshot and all(a is b for a, b in zip(net.constraints, snapshot)),
              "api:constraints-changed", "total_order()/partial_order() changed the constraints of the network")
    ctx.check(to1 == to2 and po1 == po2, "api:unstable", f"two calls disagree: total_order {to1} / {to2}, partial_order {po1} / {po2}")
    ctx.check([s.identifier for s in net.subtasks] == names, "api:subtasks-changed", "the subtask list changed")
    rel = [(names[i], names[j]) for i, j in chosen]
    desc = f"{container}/{style}, subtasks {names}, precedences {rel}, extra constraint {slot}"
    if slot not in ("none", "nontemporal"):
        ctx.check(to1 is None, "api:total-reported-with-other-constraint",
                  f"total_order() = {to1} although the network has a temporal constraint that is not an end-before-start precedence ({desc})")
        ctx.check(po1 is None, "api:partial-reported-with-other-constraint",
                  f"partial_order() = {po1} although the network has a temporal constraint that is not an end-before-start precedence ({desc})")
        ctx.check(len(net.temporal_constraints()) == len(set(rel)) + 1, "api:temporal-constraints",
                  f"temporal_constraints() has {len(net.temporal_constraints())} entries ({desc})")
        ctx.witness("other-constraint")
        return
    ctx.check(len(net.temporal_constraints()) == len(set(rel)), "api:temporal-constraints",
              f"temporal_constraints() has {len(net.temporal_constraints())} entries ({desc})")
    ext = _linear_extensions(names, rel)
    if len(ext) == 1:
        ctx.check(to1 == ext[0], "api:missed-or-wrong-total-order",
                  f"total_order() = {to1}, but exactly one linear ordering is consistent: {ext[0]} ({desc})")
        ctx.check(isinstance(to1, list), "api:total-order-not-a-list", f"total_order() returned a {type(to1).__name__}")
        ctx.witness("total")
    else:
        ctx.check(to1 is None, "api:spurious-total-order",
                  f"total_order() = {to1}, but {len(ext)} linear orderings are consistent ({desc})")
        ctx.witness("partial" if ext else "cyclic")
    ctx.check(po1 is not None, "api:partial-order-missing", f"partial_order() is None for a purely qualitative network ({desc})")
    ctx.check(isinstance(po1, list) and all(isinstance(p, tuple) and len(p) == 2 and p[0] in names and p[1] in names for p in po1),
              "api:partial-order-shape", f"partial_order() = {po1} is not a list of pairs of subtask identifiers ({desc})")
    ctx.check(_closure(po1) == _closure(rel), "api:partial-order-relation",
              f"partial_order() = {po1} does not generate the order relation of the given precedences ({desc})")
    if to1 is None:
        ctx.check(set(po1) == set(rel), "api:partial-order-exact",
                  f"partial_order() = {po1} is not exactly the given set of precedences ({desc})")


def shards(tier, seed):
    out = []

    def unit(name, budget, **kw):
        out.append(dict(name=name, fn="h_unit", kwargs=kw, budget=budget, per_path=30))

    def api(name, budget, **kw):
        out.append(dict(name=name, fn="h_api", kwargs=kw, budget=budget, engine="direct"))

    if tier == "quick":
        unit("unit-n3-m0to3", 100, n=3, m=3, m_free=True)
        unit("unit-n3-m4", 100, n=3, m=4)
        for s in range(3):
            unit(f"unit-n3-m5-{s}", 100, n=3, m=5, fixed_src=[s])
        for s in range(4):
            unit(f"unit-n4-m3-{s}", 100, n=4, m=3, fixed_src=[s])
        # n=4, m=4: first pair fixed to one representative of each class under renaming of the task ids (loop / non-loop);
        # the thorough tier runs all 16 first pairs
        unit("unit-n4-m4-00", 120, n=4, m=4, fixed=[[0, 0]])
        unit("unit-n4-m4-01-a", 120, n=4, m=4, fixed=[[0, 1]], src_range={"1": [0, 1]})
        unit("unit-n4-m4-01-b", 120, n=4, m=4, fixed=[[0, 1]], src_range={"1": [2, 3]})
        # layer 2: n = 3 complete (all 2^9 relations incl. self-loops), every slot, every container/style
        for c in CONTAINERS:
            api(f"api-n3-{c}", 400, n=3, container=c, style=STYLES, slot="none", pair_mode="all")
        api("api-n3-slots-a", 400, n=3, container="tn", style="strictly_before", slot=SLOTS[1:5], pair_mode="all")
        api("api-n3-slots-b", 400, n=3, container="method", style="add_lt", slot=SLOTS[5:9], pair_mode="all")
        api("api-n3-slots-c", 400, n=3, container="tn", style="set_ordered", slot=SLOTS[9:], pair_mode="all")
        api("api-n4-forward-renamed", 400, n=4, container="tn", style="strictly_before", slot="none", pair_mode="forward", rename="choice")
        api("api-n4-forward-renamed-method", 400, n=4, container="method", style="set_ordered", slot="none", pair_mode="forward", rename="choice")
        api("api-n012", 400, n=[0, 1, 2], container=CONTAINERS, style=STYLES, slot=["none", "nontemporal", "delay-lhs", "le"], pair_mode="all")
    else:
        for a in range(4):
            for b in range(4):
                unit(f"unit-n4-m4-{a}{b}", 900, n=4, m=4, fixed=[[a, b]])
        for a in range(2):  # first pair: one representative per renaming class (loop / non-loop); second pair: all 16
            for b in range(4):
                for t in range(4):
                    unit(f"unit-n4-m5-0{a}-{b}{t}", 900, n=4, m=5, fixed=[[0, a], [b, t]])
        for a in range(2):
            unit(f"unit-n5-m3-0{a}", 900, n=5, m=3, fixed=[[0, a]])
        for c in CONTAINERS:
            for st in STYLES:
                for b0 in itertools.product((0, 1), repeat=2):
                    api(f"api-n4-{c}-{st}-{b0[0]}{b0[1]}", 900, n=4, container=c, style=st, slot="none", pair_mode="noself", bits=list(b0))
        for sl in SLOTS[1:]:
            for c in CONTAINERS:
                api(f"api-n4-slot-{sl}-{c}", 900, n=4, container=c, style="add_lt", slot=sl, pair_mode="noself")
                api(f"api-n3-slot-{sl}-{c}-ordered", 900, n=3, container=c, style="set_ordered", slot=sl, pair_mode="all")
        for ren in itertools.permutations(range(5)):
            if ren[0] > ren[-1]:
                continue  # reversal symmetry of identifier order is irrelevant to a set; halves the work
            api(f"api-n5-forward-{''.join(map(str, ren))}", 900, n=5, container="tn", style="strictly_before", slot="none",
                pair_mode="forward", rename=list(ren))
    return out


MANIFEST = dict(
    engine="symex",  # layer 1; the layer-2 shards declare engine="direct" themselves
    technique="layer 1: symbolic execution (CrossHair/z3) of _build_total_order with symbolic precedence endpoints, oracle 'exactly one consistent permutation' as one solver query per path; "
              "layer 2: bounded-exhaustive re-execution of the TaskNetwork/Method API over choice variables with an enumeration oracle",
    text="Bounded model checking. Layer 1: for EVERY assignment of the 2m precedence endpoints in [0,n) (n<=4, m<=5; self-loops, duplicates, cycles) the real _build_total_order returns a list "
         "iff exactly one permutation is consistent, and that permutation. Layer 2: every relation over 3 subtasks (and all acyclic relations over 4 under every renaming) through the public API "
         "with 12 kinds of extra constraint: total_order/partial_order agree with enumeration; neither is reported when a constraint is not a strict end-before-start precedence.",
    note="Solver role: medium in layer 1 (endpoints are solver variables), low in layer 2 (pure structure; the direct engine only enumerates). "
         "'partial_order returns exactly those precedences' is compared as generated order relation (transitive closure) when the implementation answers with the chain of a total order.",
)
