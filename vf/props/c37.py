"""C37 Multi-agent compilers preserve each agent's action semantics (translation validation).

Programs (ctx.choice): multi-agent skeletons with 2 agents (A1: private l, public q, optionally n:int[0,3]; A2: l, m, p(T) over
objects o1,o2), an environment fluent e; A1 has one or two actions whose precondition and effect conditions are
drawn from a pool of templates (own fluents unqualified, the other agent's through Dot, environment fluent,
negation, disjunction, implication, numeric comparison), A2 has a parameterised action; Dot goals (problem level;
agent-specific goals are outside the supported kind of both compilers).
Real code: MAConditionalEffectsRemover.compile / MADisjunctiveConditionsRemover.compile and the result's
map_back_action_instance (called on every compiled ground action instance to group the variants by original).
Solver: RefMA (vf/refsem_ma.py) on both sides over ONE shared fresh symbolic state (all type-correct states, not only
reachable ones):  applicable(original) <=> OR applicable(variant);  applicable(variant) => applicable(original) and
same successor on the original fluents;  (conditional effects) no two variants applicable together;  goals equivalent.
For the disjunctive remover the goal may be replaced by fake-goal fluents set by internal actions (mapped back to
nothing): then "equivalent" is checked as: internal actions touch only the new fluents; from any state with the new
fluents false, some sequence of internal actions reaches the compiled goals iff the original goals hold; every other
compiled action resets the new fluents; the new fluents are initially false.
"""
import itertools

PROPERTY = "C37"
LEVEL = "translation_validation"
FUNCTIONS = [
    "unified_planning.engines.compilers.ma_conditional_effects_remover:MAConditionalEffectsRemover._compile",
    "unified_planning.engines.compilers.conditional_effects_remover:ConditionalEffectsRemover._create_unconditional_actions",
    "unified_planning.engines.compilers.utils:check_and_simplify_preconditions",
    "unified_planning.engines.compilers.ma_disjunctive_conditions_remover:MADisjunctiveConditionsRemover._compile",
    "unified_planning.engines.compilers.ma_disjunctive_conditions_remover:MADisjunctiveConditionsRemover._ma_goals_without_disjunctions_adding_new_elements",
    "unified_planning.engines.compilers.disjunctive_conditions_remover:DisjunctiveConditionsRemover._create_non_disjunctive_actions",
    "unified_planning.engines.compilers.disjunctive_conditions_remover:DisjunctiveConditionsRemover._create_new_action_with_given_precond",
    "unified_planning.engines.compilers.utils:replace_action",
    "unified_planning.model.multi_agent.ma_problem:MultiAgentProblem.clone",
    "unified_planning.model.multi_agent.agent:Agent.clone",
]
BOUNDS = ("2 agents; fluents: environment e:bool; A1: l:bool (private), q:bool (public), n:int[0,3] (optional); A2: l:bool, m:bool (public), "
          "p(T):bool over o1,o2; A1: 1-2 actions with <= 3 effects (Boolean set/reset, conditional, increase / assignment of n, effect on "
          "the environment fluent), A2: one action with parameter x:T; "
          "precondition and the two effect-condition slots range over a pool of 9 condition templates; 4 problem-level goal sets "
          "(Dot goals, negated, disjunctive; agent-specific goals are outside the supported kind of both compilers); all type-correct total states")
OUTSIDE = "more agents/fluents; durative actions; states with undefined fluents; quantified conditions; real-valued fluents"
ASSUMPTIONS = ["RefMA (vf/refsem_ma.py): an agent's action reads its own fluents unqualified, environment fluents unqualified and other agents' "
               "fluents through Dot; step semantics inherited from R (tied to the simulator by C01)",
               "goal equivalence for fake-goal fluents is read as reachability by the internal (mapped-to-nothing) actions only, see module docstring"]

# condition templates, from the point of view of agent A1
COND_NAMES = ["l", "not e", "A2.l", "l or A2.m", "not (e or l)", "e and not A2.l", "l implies e", "n < 2", "q or (e and A2.m)"]
# effect lists for A1.act0: (target, kind, value, cond slot | None); targets: l, q, e, n
EFFS = [
    [("l", "set", True, 0), ("e", "set", False, 1)],
    [("q", "set", True, 0), ("q", "set", False, 1)],          # two conditional effects on one fluent
    [("l", "set", False, None), ("l", "set", True, 0)],         # unconditional reset + conditional set (add-after-delete)
    [("n", "inc", 1, 0), ("e", "set", True, 1)],
    [("n", "assign", 2, 0), ("n", "assign", 0, 1)],           # possibly conflicting assignments
    [("e", "set", False, 0), ("e", "set", True, 1), ("q", "set", False, 1)],   # reset-before-set on the environment fluent
    # (an effect on another agent's fluent through Dot is admitted by add_effect but Effect.__init__ raises KeyError: not in the family)
    [("n", "inc", 1, 0), ("n", "dec", 1, 1), ("l", "set", True, None)],
    [("e", "set", True, 0)],                                     # only a conditional effect: no-op branch
]
GOALS = [
    dict(problem=[("dot", "A1", "l"), ("env", "e")]),
    dict(problem=[("or", ("dot", "A1", "q"), ("dot", "A2", "m"))]),
    dict(problem=[("dot", "A2", "m"), ("not", ("dot", "A1", "q"))]),
    # agent-specific goals are outside the supported kind of both compilers: dict(public={"A1": [...]}, private={...}) is pruned
    dict(problem=[("or", ("env", "e"), ("and", ("dot", "A1", "l"), ("not", ("dot", "A2", "l")))), ("dot", "A1", "q")]),
]


class Built:
    pass


def build(env, eff_i, pre_i, c0, c1, goal_i, second, same_name=False):
    from unified_planning.model import Fluent, InstantaneousAction, Object
    from unified_planning.model.multi_agent import Agent, MultiAgentProblem

    em, tm = env.expression_manager, env.type_manager
    g = Built()
    prob = MultiAgentProblem("ma", env)
    T = tm.UserType("T")
    o1, o2 = Object("o1", T, env), Object("o2", T, env)
    prob.add_objects([o1, o2])
    e = Fluent("e", tm.BoolType(), environment=env)
    prob.ma_environment.add_fluent(e, default_initial_value=False)
    A1, A2 = Agent("A1", prob), Agent("A2", prob)
    l1 = Fluent("l", tm.BoolType(), environment=env)
    q = Fluent("q", tm.BoolType(), environment=env)
    n = Fluent("n", tm.IntType(0, 3), environment=env)
    l2 = Fluent("l", tm.BoolType(), environment=env)
    m = Fluent("m", tm.BoolType(), environment=env)
    p = Fluent("p", tm.BoolType(), environment=env, z=T)
    A1.add_private_fluent(l1, default_initial_value=False)
    A1.add_public_fluent(q, default_initial_value=False)
    uses_n = any(t == "n" for t, *_ in EFFS[eff_i]) or 7 in (pre_i, c0, c1)
    if uses_n:
        A1.add_private_fluent(n, default_initial_value=1)
    A2.add_private_fluent(l2, default_initial_value=True)
    A2.add_public_fluent(m, default_initial_value=False)
    A2.add_public_fluent(p, default_initial_value=False)
    F = em.FluentExp

    def cond(i):
        if i == 0:
            return F(l1)
        if i == 1:
            return em.Not(F(e))
        if i == 2:
            return em.Dot(A2, F(l2))
        if i == 3:
            return em.Or(F(l1), em.Dot(A2, F(m)))
        if i == 4:
            return em.Not(em.Or(F(e), F(l1)))
        if i == 5:
            return em.And(F(e), em.Not(em.Dot(A2, F(l2))))
        if i == 6:
            return em.Implies(F(l1), F(e))
        if i == 7:
            return em.LT(F(n), em.Int(2))
        if i == 8:
            return em.Or(F(q), em.And(F(e), em.Dot(A2, F(m))))
        raise ValueError(i)

    act0 = InstantaneousAction("act0", _env=env)
    if pre_i is not None:
        act0.add_precondition(cond(pre_i))
    slots = [c0, c1]
    tgt = {"l": F(l1), "q": F(q), "e": F(e), "n": F(n)}
    for t, kind, val, slot in EFFS[eff_i]:
        c = cond(slots[slot]) if slot is not None else em.TRUE()
        if kind == "set":
            act0.add_effect(tgt[t], val, c)
        elif kind == "assign":
            act0.add_effect(tgt[t], em.Int(val), c)
        elif kind == "inc":
            act0.add_increase_effect(tgt[t], em.Int(val), c)
        else:
            act0.add_decrease_effect(tgt[t], em.Int(val), c)
    A1.add_action(act0)
    if second:
        act1 = InstantaneousAction("act1", _env=env)
        act1.add_precondition(em.Or(em.Not(F(l1)), em.Dot(A2, F(m))))
        act1.add_effect(F(l1), True)
        act1.add_effect(F(q), True, em.Dot(A2, F(l2)))
        A1.add_action(act1)
    # A2: a parameterised action reading A1's public fluent and the environment
    # action names are unique per agent only: with same_name both agents own an action called act0, with different bodies
    b = InstantaneousAction("act0" if same_name else "mark", _env=env, x=T)
    x = em.ParameterExp(b.parameter("x"))
    b.add_precondition(em.Or(em.Not(F(p, [x])), F(e)))
    b.add_effect(F(p, [x]), True)
    b.add_effect(F(m), True, em.And(em.Dot(A1, F(q)), F(p, [em.ObjectExp(o1)])))
    b.add_effect(F(l2), False, em.Or(F(e), F(l2)))
    A2.add_action(b)
    prob.add_agent(A1)
    prob.add_agent(A2)
    own = {"A1": {"l": l1, "q": q}, "A2": {"l": l2, "m": m}}
    agents = {"A1": A1, "A2": A2}

    def gexp(t, who=None):
        if t[0] == "dot":
            return em.Dot(agents[t[1]], F(own[t[1]][t[2]]))
        if t[0] == "env":
            return F(e)
        if t[0] == "own":
            return F(own[who][t[1]])
        if t[0] == "or":
            return em.Or(gexp(t[1], who), gexp(t[2], who))
        if t[0] == "and":
            return em.And(gexp(t[1], who), gexp(t[2], who))
        if t[0] == "not":
            return em.Not(gexp(t[1], who))
        raise ValueError(t)

    gs = GOALS[goal_i]
    for t in gs.get("problem", []):
        prob.add_goal(gexp(t))
    for who, ts in gs.get("public", {}).items():
        for t in ts:
            agents[who].add_public_goal(gexp(t, who))
    for who, ts in gs.get("private", {}).items():
        for t in ts:
            agents[who].add_private_goal(gexp(t, who))
    g.problem = prob
    g.desc = (f"A1.act0[pre: {COND_NAMES[pre_i] if pre_i is not None else '-'} | "
              + "; ".join((f"when {COND_NAMES[slots[s]]}: " if s is not None else "") + f"{t} {k} {v}" for t, k, v, s in EFFS[eff_i])
              + f"]{' +act1' if second else ''} goals#{goal_i}")
    return g


def _gkey(ma, objs):
    return (ma.agent.name, ma.action.name, tuple(o.name for o in objs))


def h_ma(ctx, compiler, eff_i, second=False, pres=None, conds=None, same_name=False):
    import z3
    from unified_planning.engines import CompilationKind
    from unified_planning.engines.compilers.ma_conditional_effects_remover import MAConditionalEffectsRemover
    from unified_planning.engines.compilers.ma_disjunctive_conditions_remover import MADisjunctiveConditionsRemover
    from unified_planning.exceptions import UPConflictingEffectsException, UPTypeError
    from unified_planning.plans import ActionInstance
    from vf.refsem_ma import RefMA

    pres = pres if pres is not None else [None] + list(range(len(COND_NAMES)))
    conds = conds if conds is not None else list(range(len(COND_NAMES)))
    pre_i = pres[ctx.choice("pre", len(pres))]
    c0 = conds[ctx.choice("c0", len(conds))]
    uses_c1 = any(s == 1 for *_x, s in EFFS[eff_i])
    c1 = conds[ctx.choice("c1", len(conds))] if uses_c1 else 0
    goal_i = ((pre_i or 0) + c0 + c1) % len(GOALS)
    env = ctx.fresh_env()
    try:
        g = build(env, eff_i, pre_i, c0, c1, goal_i, second, same_name)
    except (UPConflictingEffectsException, UPTypeError):
        ctx.assume(False)
    prob = g.problem
    if compiler == "cerm":
        comp, ck = MAConditionalEffectsRemover(), CompilationKind.CONDITIONAL_EFFECTS_REMOVING
    else:
        comp, ck = MADisjunctiveConditionsRemover(), CompilationKind.DISJUNCTIVE_CONDITIONS_REMOVING
    ctx.assume(comp.supports(prob.kind))
    # no program of this family is rejected on the pinned tree (the documented UPProblemDefinitionError concerns timed effects only):
    # an exception escaping compile is reported, not pruned
    res = comp.compile(prob, ck)
    cp = res.problem
    ctx.note("program", g.desc)
    box = {}

    def setup():
        if box:
            return box
        R0, R1 = RefMA(prob, name="S."), RefMA(cp, name="S.")
        s0, s1 = R0.fresh_state("s", all_defined=True), R1.fresh_state("s", all_defined=True)
        gas0, gas1 = R0.ground_actions(), R1.ground_actions()
        groups = {_gkey(ma, objs): [] for ma, objs in gas0}
        internal = []
        for ma, objs in gas1:
            ai = ActionInstance(ma.action, tuple(env.expression_manager.ObjectExp(o) for o in objs), agent=ma.agent)
            back = res.map_back_action_instance(ai)
            if back is None:
                internal.append((ma, objs))
                continue
            bag = back.agent.name if back.agent is not None else ma.agent.name
            key = (bag, back.action.name, tuple(p.object().name for p in back.actual_parameters))
            # the original action object must be the one of the original problem
            assert any(back.action == a for a in prob.agent(bag).actions), f"map_back returned an unknown action {back}"
            groups[key].append((ma, objs))
        new_keys = [k for k in R1.gkeys if k not in R0.gkeys]
        assert all(k in R1.gkeys for k in R0.gkeys), "a fluent disappeared"
        wf = z3.And(R0.state_wf(s0, bounds=True), R1.state_wf(s1, bounds=True))
        box.update(R0=R0, R1=R1, s0=s0, s1=s1, gas0=gas0, groups=groups, internal=internal, new_keys=new_keys, wf=wf)
        box["st0"] = {_gkey(ma, objs): R0.step(s0, ma, R0.bind(ma, objs)) for ma, objs in gas0}
        box["st1"] = {k: [R1.step(s1, ma, R1.bind(ma, objs)) for ma, objs in vs] for k, vs in groups.items()}
        return box

    def changed(b, key):
        """the original action changes the state"""
        ok0, n0 = b["st0"][key]
        return z3.Not(b["R0"].states_equal(b["s0"], n0))

    # label only (narrows known-finding globs): constructs of A1.act0 that are involved in recorded defects
    effs = EFFS[eff_i]
    slots = [c0, c1]
    cls = "plain"
    if compiler == "cerm" and sum(1 for t, k, *_ in effs if t == "n") >= 2 and any(k == "assign" for t, k, *_ in effs if t == "n"):
        cls = "numeric-conflict"
    if compiler == "dcrm" and any(k in ("inc", "dec") and sl is not None and slots[sl] in (3, 6, 8) for _t, k, _v, sl in effs):
        cls = "incdec-under-disjunction"
    deferred = []
    for key in [_gkey(ma, objs) for ma, objs in setup()["gas0"]]:
        lab = f"{key[0]}.{key[1]}"
        lcls = cls if lab == "A1.act0" else "plain"

        def q_lost(key=key, effectful=True):
            b = setup()
            ok0, _ = b["st0"][key]
            anyv = z3.Or([ok for ok, _ in b["st1"][key]]) if b["st1"][key] else z3.BoolVal(False)
            ch = changed(b, key)
            return z3.And(b["wf"], ok0, z3.Not(anyv), ch if effectful else z3.Not(ch)), {}

        ctx.forall(lambda: q_lost(effectful=True), None, f"{compiler}:applicable-but-no-variant:state-changing:{lcls}:{lab}",
                   f"{lab}{key[2]} is applicable and changes the state but no compiled variant mapping back to it is applicable [{g.desc}]")
        deferred.append((q_lost, lab, key))

        def q_variant(key=key):
            b = setup()
            ok0, n0 = b["st0"][key]
            bad = [z3.And(ok, z3.Not(z3.And(ok0, b["R0"].states_equal(n0, n1, keys=b["R0"].gkeys)))) for ok, n1 in b["st1"][key]]
            return z3.And(b["wf"], z3.Or(bad)) if bad else False, {}

        ctx.forall(q_variant, None, f"{compiler}:variant-differs:{lcls}:{lab}",
                   f"a compiled variant of {lab}{key[2]} is applicable where the original is not, or yields a different successor [{g.desc}]")
        if compiler == "cerm":
            def q_multi(key=key):
                b = setup()
                oks = [ok for ok, _ in b["st1"][key]]
                pairs = [z3.And(a, c) for a, c in itertools.combinations(oks, 2)]
                return z3.And(b["wf"], z3.Or(pairs)) if pairs else False, {}

            ctx.forall(q_multi, None, f"{compiler}:two-variants-applicable:{lab}",
                       f"two compiled variants of {lab}{key[2]} are applicable in the same state [{g.desc}]")

    b = setup()
    if not b["new_keys"] and not b["internal"]:
        ctx.forall(lambda: (z3.And(b["wf"], b["R0"].goal(b["s0"]) != b["R1"].goal(b["s1"])), {}), None, f"{compiler}:goals-differ",
                   f"compiled goals (problem + agent goals) are not equivalent to the original goals [{g.desc}]")
        wtag = "program"
    else:
        wtag = "program:fake-goals"
        R0, R1, s1 = b["R0"], b["R1"], b["s1"]
        from vf.refsem import RState, V

        def q_internal_touch():
            bad = []
            for ma, objs in b["internal"]:
                ok, n1 = R1.step(s1, ma, R1.bind(ma, objs))
                bad.append(z3.And(ok, z3.Not(R0.states_equal(s1, n1, keys=R0.gkeys))))
            return z3.And(b["wf"], z3.Or(bad)) if bad else False, {}

        ctx.forall(q_internal_touch, None, f"{compiler}:internal-action-changes-original-fluent", f"an internal action changes an original fluent [{g.desc}]")
        # start: new fluents false
        base = RState({k: (V(z3.BoolVal(False)) if k in b["new_keys"] else v) for k, v in s1.vals.items()})

        def q_goal_sound():
            from vf import tvlib
            u = tvlib.unroll(R1, len(b["internal"]), s0=base, gas=b["internal"], tag="fk")
            return z3.And(b["wf"], tvlib.dom(u), tvlib.executable(u), R1.goal(u["states"][-1]), z3.Not(R0.goal(b["s0"]))), {}

        ctx.forall(q_goal_sound, None, f"{compiler}:goals:compiled-reachable-original-false",
                   f"internal actions reach the compiled goals from a state in which the original goals do not hold [{g.desc}]")

        def q_goal_complete():
            t = base
            for _rep in range(2):
                for ma, objs in b["internal"]:
                    ok, n1 = R1.step(t, ma, R1.bind(ma, objs))
                    t = RState({k: V(z3.If(ok, n1.vals[k].t, t.vals[k].t), z3.If(ok, n1.vals[k].d, t.vals[k].d)) for k in R1.gkeys})
            return z3.And(b["wf"], R0.goal(b["s0"]), z3.Not(R1.goal(t))), {}

        ctx.forall(q_goal_complete, None, f"{compiler}:goals:original-true-compiled-unreachable",
                   f"the original goals hold but applying every applicable internal action does not reach the compiled goals [{g.desc}]")

        def q_reset():
            bad = []
            for vs in b["st1"].values():
                for ok, n1 in vs:
                    bad.append(z3.And(ok, z3.Or([z3.And(n1.vals[k].d, n1.vals[k].t) for k in b["new_keys"]])))
            return z3.And(b["wf"], z3.Or(bad)) if (bad and b["new_keys"]) else False, {}

        ctx.forall(q_reset, None, f"{compiler}:goals:fake-goal-not-reset",
                   f"a compiled (non-internal) action leaves a fake-goal fluent true [{g.desc}]")

        def q_init():
            i1 = R1.init_state()
            return z3.Or([z3.Not(z3.And(i1.vals[k].d, z3.Not(i1.vals[k].t))) for k in b["new_keys"]]) if b["new_keys"] else False, {}

        ctx.forall(q_init, None, f"{compiler}:goals:fake-goal-initially-true", f"a fake-goal fluent is not false initially [{g.desc}]")
    ctx.witness(wtag)
    # last, so that it never masks another check: the branch of an action in which no effect changes anything
    for q, lab, key in deferred:
        ctx.forall(lambda: q(effectful=False), None, f"{compiler}:applicable-but-no-variant:no-op:{lab}",
                   f"{lab}{key[2]} is applicable (none of its effects changes the state) but no compiled variant mapping back to it is "
                   f"applicable [{g.desc}]")


def shards(tier, seed):
    out = []
    if tier == "quick":
        for comp in ("cerm", "dcrm"):
            for i in range(len(EFFS)):
                out.append(dict(name=f"{comp}-eff{i}", fn="h_ma", engine="direct", budget=900, query_timeout=60,
                                kwargs=dict(compiler=comp, eff_i=i, second=(i % 2 == 0), pres=[None, 0, 3, 4, 6], conds=[0, 1, 2, 3, 5, 7, 8])))
            for i in (0, 1):
                out.append(dict(name=f"{comp}-eff{i}-samename", fn="h_ma", engine="direct", budget=900, query_timeout=60,
                                kwargs=dict(compiler=comp, eff_i=i, second=False, pres=[None, 3], conds=[0, 2, 3, 5], same_name=True)))
    else:
        for comp in ("cerm", "dcrm"):
            for i in range(len(EFFS)):
                for second in (False, True):
                    out.append(dict(name=f"{comp}-eff{i}-{'two' if second else 'one'}", fn="h_ma", engine="direct", budget=3000, query_timeout=120,
                                    kwargs=dict(compiler=comp, eff_i=i, second=second)))
                out.append(dict(name=f"{comp}-eff{i}-samename", fn="h_ma", engine="direct", budget=3000, query_timeout=120,
                                kwargs=dict(compiler=comp, eff_i=i, second=False, same_name=True)))
    return out


MANIFEST = dict(
    engine="direct",
    technique="translation validation: the real multi-agent conditional-effects / disjunctive-conditions removers run on every member of a bounded "
              "family of multi-agent problems (choice variables over condition templates); z3 compares every original ground action with the compiled "
              "variants that the real map_back_action_instance maps to it, over one shared fresh symbolic state, using a multi-agent extension of the "
              "reference semantics",
    text="For each program, agent and ground action and for ALL type-correct states: the original action is applicable iff some variant is; every "
         "applicable variant yields the original successor; for the conditional-effects remover no two variants are applicable together; compiled "
         "goals (problem and agent goals) are equivalent to the original ones (through the internal fake-goal actions for the disjunctive remover).",
    note="Trusted: RefMA / R, z3. Outside: more than 2 agents, durative actions, undefined fluents, quantifiers.",
)
