"""C31 Meta-engines return only valid plans and truthful statuses (translation validation of their answers).

Assumption (declared, vf/c31_engine.py): the underlying planner is ExactBfsPlanner, registered through the real
Factory.add_engine -- exhaustive breadth-first search over the reference semantics R, so it returns only valid plans and
is complete on the finite problems of the family.
Programs (ctx.choice): (1) problems with interpreted functions F:int->int, B:int->bool (Python lambdas from a pool) over
n:int[0,4] in preconditions, numeric and Boolean effect values, solvable and unsolvable; (2) problems with an
Oversubscription metric (3 soft goals with gains from a pool incl. negative and zero, optional hard goal).
Real code: Factory.OneshotPlanner(name="interpreted_functions_planning[exact-bfs]" / "oversubscription[exact-bfs]"),
InterpretedFunctionsPlanner._solve (relax with InterpretedFunctionsRemover, validate, learn values, repeat),
OversubscriptionPlanner._solve (power set by weight), MetaEngine plumbing, SequentialPlanValidator.
Solver: R with the function tables spliced in.  IF planner: returned plan valid for the ORIGINAL problem (real validator and
R); a plan is found iff solvable_K(P) (BMC over all plans <= K, K = size of the state space, so exact).  Oversubscription:
SOLVED_OPTIMALLY => plan valid for the hard goals and `exists valid plan <= K whose final state has a larger gain` is unsat;
UNSOLVABLE_PROVEN => hard goals unreachable.
"""
PROPERTY = "C31"
LEVEL = "translation_validation"
FUNCTIONS = [
    "unified_planning.engines.interpreted_functions_planner:InterpretedFunctionsPlanner._solve",
    "unified_planning.engines.interpreted_functions_planner:InterpretedFunctionsPlanner._supported_kind",
    "unified_planning.engines.compilers.interpreted_functions_remover:InterpretedFunctionsRemover._compile",
    "unified_planning.engines.compilers.interpreted_functions_remover:InterpretedFunctionsRemover._expand_action",
    "unified_planning.engines.compilers.interpreted_functions_remover:InterpretedFunctionsRemover._clone_action_with_extras",
    "unified_planning.engines.compilers.interpreted_functions_remover:custom_replace",
    "unified_planning.engines.compilers.interpreted_functions_remover:knowledge_compatible",
    "unified_planning.engines.oversubscription_planner:OversubscriptionPlanner._solve",
    "unified_planning.engines.oversubscription_planner:OversubscriptionPlanner._supported_kind",
    "unified_planning.engines.meta_engine:MetaEngineMeta.__getitem__",
    "unified_planning.engines.meta_engine:MetaEngine.__init__",
    "unified_planning.engines.factory:Factory.add_engine",
    "unified_planning.engines.mixins.oneshot_planner:OneshotPlannerMixin.solve",
    "unified_planning.engines.plan_validator:SequentialPlanValidator._validate",
]
BOUNDS = ("IF programs: n:int[0,4], b:bool; F from 5 lambdas, B from 4 lambdas; 18 problem shapes (IF in a precondition: comparison / equality / "
          "Boolean function / negated / mixed with arithmetic / disjunction / nested F(F(n)) / F(n+1); IF as numeric effect value; as Boolean effect value; in precondition and effect "
          "value of one action; in the condition of a conditional effect), "
          "constants c in {0,2,3}, initial n in {0,1}; K = 10 = |state space|.  Oversubscription programs: a,b,c:bool, n:int[0,2], 3 action "
          "sets, 3 soft goals out of a pool of 6, gains from {-2,0,1,3}, with/without a hard goal; K = 24 = |state space|")
OUTSIDE = "temporal problems (durations with interpreted functions, temporal oversubscription); real-valued gains; larger state spaces; other underlying planners"
ASSUMPTIONS = ["the underlying planner is vf/c31_engine.py:ExactBfsPlanner (exhaustive BFS over R; returns shortest valid plans, SOLVED_SATISFICING / "
               "UNSOLVABLE_PROVEN truthfully; supports every kind) -- this IS the property's hypothesis",
               "R (vf/refsem.py) with the interpreted functions' tables (computed by calling the Python lambdas on the finite domain) is the semantics of the original problem",
               "'maximal gain among all reachable states' is read as: among the final states of all valid plans (states satisfying the hard goals)"]

F_POOL = [lambda v: v * v - 2, lambda v: 4 - v, lambda v: (2 * v) % 5, lambda v: 3, lambda v: v + 1]
F_NAMES = ["v*v-2", "4-v", "(2v)%5", "3", "v+1"]
B_POOL = [lambda v: v % 2 == 0, lambda v: v >= 3, lambda v: False, lambda v: v == 1]
B_NAMES = ["even", ">=3", "false", "==1"]
IF_SHAPES = ["pre-lt", "pre-eq", "pre-bool", "pre-notbool", "pre-arith", "pre-or", "pre-nested", "pre-argplus", "pre-two-calls", "pre-two-calls-mixed", "eff-num", "eff-bool", "eff-both", "eff-cond", "eff-chain", "eff-chain-bool", "eff-then-dec", "eff-stale-bounds"]
NMAX = 4


def build_if(env, shape, fi, bi, c, x0):
    from collections import OrderedDict

    from unified_planning.model import Fluent, InstantaneousAction, InterpretedFunction, Problem

    em, tm = env.expression_manager, env.type_manager
    n = Fluent("n", tm.IntType(0, NMAX), environment=env)
    b = Fluent("b", tm.BoolType(), environment=env)
    F = InterpretedFunction("F", tm.IntType(), OrderedDict(v=tm.IntType()), F_POOL[fi], env)
    B = InterpretedFunction("B", tm.BoolType(), OrderedDict(v=tm.IntType()), B_POOL[bi], env)
    p = Problem("ifp", env)
    p.add_fluent(n, default_initial_value=x0)
    p.add_fluent(b, default_initial_value=False)
    inc = InstantaneousAction("inc", _env=env)
    inc.add_precondition(em.LT(n(), NMAX))
    inc.add_increase_effect(n, 1)
    p.add_action(inc)
    Fn, Bn = F(n()), B(n())
    if shape.startswith("pre-"):
        gate = InstantaneousAction("gate", _env=env)
        cond = {"pre-lt": lambda: em.LT(Fn, c), "pre-eq": lambda: em.Equals(Fn, c), "pre-bool": lambda: Bn,
                "pre-notbool": lambda: em.Not(Bn), "pre-arith": lambda: em.GT(em.Plus(Fn, n()), c + 3),
                "pre-or": lambda: em.Or(Bn, em.Equals(Fn, c)), "pre-nested": lambda: em.Equals(F(Fn), c),
                "pre-argplus": lambda: em.LT(F(em.Plus(n(), 1)), c),
                # ONE atom with two interpreted calls, the argument of one of them never changes (its value is learnt first)
                "pre-two-calls": lambda: em.LT(F(em.Int(c)), Fn),
                "pre-two-calls-mixed": lambda: em.Iff(Bn, em.LT(F(em.Int(c)), 3))}[shape]()
        gate.add_precondition(cond)
        gate.add_effect(b, True)
        p.add_action(gate)
        p.add_goal(b())
    elif shape == "eff-num":
        jump = InstantaneousAction("jump", _env=env)
        jump.add_effect(n, Fn)
        p.add_action(jump)
        gate = InstantaneousAction("gate", _env=env)
        gate.add_precondition(em.Equals(n(), c))
        gate.add_precondition(em.Not(b()))
        gate.add_effect(b, True)
        gate.add_effect(n, 0)
        p.add_action(gate)
        p.add_goal(b())
        p.add_goal(em.GE(n(), 2))
    elif shape in ("eff-chain", "eff-chain-bool"):
        # a fluent that only receives its value from an IF-assigned fluent, through an action declared BEFORE the IF action
        m = Fluent("m", tm.IntType(0, NMAX), environment=env)
        d = Fluent("d", tm.BoolType(), environment=env)
        p.add_fluent(m, default_initial_value=0)
        p.add_fluent(d, default_initial_value=False)
        copy = InstantaneousAction("copy", _env=env)
        if shape == "eff-chain":
            copy.add_effect(m, n())
        else:
            copy.add_effect(d, True, b())
        p.add_action(copy)
        jump = InstantaneousAction("jump", _env=env)
        jump.add_precondition(em.Not(b()))
        if shape == "eff-chain":
            jump.add_effect(n, Fn)
            jump.add_effect(b, True)
            p.add_goal(em.Equals(m(), c))
            p.add_goal(b())
        else:
            jump.add_effect(b, Bn)
            p.add_goal(d())
        p.add_action(jump)
    elif shape in ("eff-then-dec", "eff-stale-bounds"):
        # the IF-assigned fluent is decreased (by a separate action) before it is tested.  eff-then-dec: the value the fluent had
        # before the IF assignment can be decreased as well (n0 >= 1, one decrement); eff-stale-bounds: it cannot (n0 = 0)
        p.set_initial_value(n(), x0 + 1 if shape == "eff-then-dec" else 0)
        d = Fluent("d", tm.BoolType(), environment=env)
        e = Fluent("e", tm.BoolType(), environment=env)
        p.clear_actions()  # no free `inc`: every plan is jump, dec+, gate
        p.add_fluent(d, default_initial_value=False)
        p.add_fluent(e, default_initial_value=False)
        jump = InstantaneousAction("jump", _env=env)
        jump.add_precondition(em.Not(d()))
        jump.add_effect(n, Fn)
        jump.add_effect(d, True)
        p.add_action(jump)
        dec = InstantaneousAction("dec", _env=env)
        dec.add_precondition(d())
        dec.add_precondition(em.Not(e()))
        dec.add_precondition(em.GT(n(), 0))
        dec.add_decrease_effect(n, 1)
        dec.add_effect(e, True)
        p.add_action(dec)
        gate = InstantaneousAction("gate", _env=env)
        gate.add_precondition(e())
        gate.add_precondition(em.Equals(n(), c))
        gate.add_effect(b, True)
        p.add_action(gate)
        p.add_goal(b())
    elif shape == "eff-bool":
        probe = InstantaneousAction("probe", _env=env)
        probe.add_effect(b, Bn)
        p.add_action(probe)
        p.add_goal(b())
        p.add_goal(em.GE(n(), c))
    elif shape == "eff-cond":  # IF in the condition of a conditional effect
        probe = InstantaneousAction("probe", _env=env)
        probe.add_effect(b, True, Bn)
        probe.add_effect(n, 0, em.LT(Fn, c))
        p.add_action(probe)
        p.add_goal(b())
        p.add_goal(em.LE(n(), 1))
    else:  # eff-both: IF in condition and in effect value of the same action
        jump = InstantaneousAction("jump", _env=env)
        jump.add_precondition(Bn)
        jump.add_effect(n, Fn)
        jump.add_effect(b, True, em.Not(b()))
        p.add_action(jump)
        p.add_goal(b())
        p.add_goal(em.Equals(n(), c))
    desc = f"{shape} F={F_NAMES[fi]} B={B_NAMES[bi]} c={c} n0={p.initial_value(n())}"
    return p, desc


def _tables(fi, bi):
    import z3

    def tab(fn, dom, mk):
        def t(args):
            (a,) = args
            out = mk(fn(dom[-1]))
            for v in reversed(dom[:-1]):
                out = z3.If(a == v, mk(fn(v)), out)
            return out
        return t

    dom = list(range(-1, NMAX + 2))
    return {"F": tab(F_POOL[fi], dom, lambda x: z3.IntVal(int(x))), "B": tab(B_POOL[bi], dom, lambda x: z3.BoolVal(bool(x)))}


def _register(env):
    env.factory.add_engine("exact-bfs", "vf.c31_engine", "ExactBfsPlanner")


def _plan_choices(u, plan):
    """z3 constraints fixing the first len(plan) choices of unrolling u to the plan, the rest to the no-op"""
    import z3

    keys = [(a.name, tuple(o.name for o in objs)) for a, objs in u["gas"]]
    cs = []
    for i, c in enumerate(u["choice"]):
        if i < len(plan):
            ai = plan[i]
            cs.append(c == keys.index((ai.action.name, tuple(p.object().name for p in ai.actual_parameters))))
        else:
            cs.append(c == u["n"])
    return z3.And(cs)


def h_if(ctx, shape, fis=None, bis=None, cs=(0, 2, 3), x0s=(0, 1)):
    import z3
    from unified_planning.engines.plan_validator import SequentialPlanValidator
    from unified_planning.engines.results import POSITIVE_OUTCOMES, PlanGenerationResultStatus, ValidationResultStatus
    from vf import tvlib
    from vf.refsem import Ref

    uses_f = shape not in ("pre-bool", "pre-notbool", "eff-bool", "eff-chain-bool")
    uses_b = shape in ("pre-bool", "pre-notbool", "pre-or", "pre-two-calls-mixed", "eff-bool", "eff-both", "eff-cond", "eff-chain-bool")
    if shape == "pre-nested":  # keep F(F(n)) inside the tabulated domain
        fis = [i for i in (fis if fis is not None else range(len(F_POOL))) if i in (1, 2, 3)]
    fis = list(fis) if fis is not None else list(range(len(F_POOL)))
    bis = list(bis) if bis is not None else list(range(len(B_POOL)))
    fi = fis[ctx.choice("F", len(fis))] if uses_f else 0
    bi = bis[ctx.choice("B", len(bis))] if uses_b else 0
    c = list(cs)[ctx.choice("c", len(cs))] if shape not in ("pre-bool", "pre-notbool", "eff-chain-bool") else 0
    x0 = list(x0s)[ctx.choice("n0", len(x0s))]
    env = ctx.fresh_env()
    _register(env)
    problem, desc = build_if(env, shape, fi, bi, c, x0)
    ctx.note("program", desc)
    with env.factory.OneshotPlanner(name="interpreted_functions_planning[exact-bfs]") as planner:
        res = planner.solve(problem)
    K = (NMAX + 1) * 2
    R = Ref(problem, if_tables=_tables(fi, bi), name="P.")
    box = {}

    def unrolled():
        if "u" not in box:
            box["u"] = tvlib.unroll(R, K, tag="k")
        return box["u"]

    def solvable():
        u = unrolled()
        return z3.And(tvlib.dom(u), tvlib.valid(u))

    if res.status in POSITIVE_OUTCOMES:
        plan = res.plan
        ctx.check(plan is not None, "if:positive-status-without-plan", f"status {res.status.name} without a plan [{desc}]")
        val = SequentialPlanValidator(environment=env).validate(problem, plan)
        ctx.check(val.status == ValidationResultStatus.VALID, "if:invalid-plan",
                  f"interpreted-functions planner returned {[str(a) for a in plan.actions]} which the validator rejects for the original problem [{desc}]")
        ctx.check(len(plan.actions) <= K, "if:plan-longer-than-state-space", f"plan longer than the state space [{desc}]")

        def build():
            u = unrolled()
            return z3.And(_plan_choices(u, plan.actions), z3.Not(tvlib.valid(u))), {}

        ctx.forall(build, None, "if:plan-invalid-for-R",
                   f"returned plan {[str(a) for a in plan.actions]} is not valid for the original problem under the reference semantics [{desc}]")
        ctx.witness("program:if:solved")
    else:
        truthful = res.status in (PlanGenerationResultStatus.UNSOLVABLE_PROVEN, PlanGenerationResultStatus.UNSOLVABLE_INCOMPLETELY)
        ctx.check(truthful, "if:unexpected-status", f"status {res.status.name} over an exact underlying planner [{desc}]")
        ctx.forall(lambda: (solvable(), {f"step{i}": ch for i, ch in enumerate(unrolled()["choice"])}), None, "if:solvable-but-no-plan",
                   f"the problem is solvable (see model) but the interpreted-functions planner answered {res.status.name} [{desc}]")
        ctx.witness("program:if:unsolvable")


# ------------------------------------------------------------------------------------------------------
OS_ACTIONS = ["swap", "chain", "counter"]
OS_GOAL_NAMES = ["a", "b", "n >= 1", "not c", "a or b", "a and c"]
GAINS = [-2, 0, 1, 3]
N2 = 2


def build_os(env, acts, goal_ids, gains, hard):
    from unified_planning.model import Fluent, InstantaneousAction, Problem
    from unified_planning.model.metrics import Oversubscription

    em, tm = env.expression_manager, env.type_manager
    a, b, c = (Fluent(x, tm.BoolType(), environment=env) for x in "abc")
    n = Fluent("n", tm.IntType(0, N2), environment=env)
    p = Problem("osp", env)
    for f in (a, b, c):
        p.add_fluent(f, default_initial_value=False)
    p.add_fluent(n, default_initial_value=0)

    def A(name):
        return InstantaneousAction(name, _env=env)

    if acts == "swap":      # a and b exclude each other; c is a one-way switch that costs a
        x = A("take_a"); x.add_effect(a, True); x.add_effect(b, False)
        y = A("take_b"); y.add_precondition(a()); y.add_effect(b, True); y.add_effect(a, False)
        z = A("switch"); z.add_precondition(em.Not(c())); z.add_effect(c, True); z.add_effect(a, False); z.add_increase_effect(n, 1)
        actions = [x, y, z]
    elif acts == "chain":   # n counts up, a needs n >= 1 and resets it
        x = A("up"); x.add_precondition(em.LT(n(), N2)); x.add_increase_effect(n, 1)
        y = A("cash"); y.add_precondition(em.GE(n(), 1)); y.add_effect(a, True); y.add_effect(n, 0); y.add_effect(c, True, b())
        z = A("flip"); z.add_effect(b, True, em.Not(b())); z.add_effect(b, False, b()); z.add_effect(a, False)
        actions = [x, y, z]
    else:                   # counter: irreversible choices
        x = A("lock"); x.add_precondition(em.Not(c())); x.add_effect(c, True); x.add_effect(a, True)
        y = A("burn"); y.add_precondition(em.Not(b())); y.add_effect(b, True); y.add_effect(a, False); y.add_increase_effect(n, 1)
        actions = [x, y]
    for act in actions:
        p.add_action(act)
    pool = [a(), b(), em.GE(n(), 1), em.Not(c()), em.Or(a(), b()), em.And(a(), c())]
    goals = {pool[i]: w for i, w in zip(goal_ids, gains)}
    if hard == 1:
        p.add_goal(c())
    elif hard == 2:
        p.add_goal(em.And(b(), em.Not(a())))
    elif hard == 3:
        p.add_goal(em.And(a(), b(), em.GE(n(), 2)))  # may be unreachable
    p.add_quality_metric(Oversubscription(goals, environment=env))
    desc = f"{acts} soft={[(OS_GOAL_NAMES[i], w) for i, w in zip(goal_ids, gains)]} hard#{hard}"
    return p, goals, desc


def h_os(ctx, acts, goal_ids, hard, gains_pool=None):
    import z3
    from unified_planning.engines.plan_validator import SequentialPlanValidator
    from unified_planning.engines.results import PlanGenerationResultStatus, ValidationResultStatus
    from vf import tvlib
    from vf.refsem import Ref

    gp = list(gains_pool) if gains_pool is not None else GAINS
    gains = [gp[ctx.choice(f"gain{i}", len(gp))] for i in range(len(goal_ids))]
    env = ctx.fresh_env()
    _register(env)
    problem, goals, desc = build_os(env, acts, goal_ids, gains, hard)
    ctx.note("program", desc)
    with env.factory.OneshotPlanner(name="oversubscription[exact-bfs]") as planner:
        res = planner.solve(problem)
    K = 8 * (N2 + 1)
    R = Ref(problem, name="P.")
    box = {}

    def unrolled():
        if "u" not in box:
            box["u"] = tvlib.unroll(R, K, tag="k")
        return box["u"]

    def gain(s):
        return z3.Sum([z3.If(R.holds(g, s), z3.IntVal(int(w)), z3.IntVal(0)) for g, w in goals.items()])

    st = res.status
    if st in (PlanGenerationResultStatus.SOLVED_OPTIMALLY, PlanGenerationResultStatus.SOLVED_SATISFICING):
        plan = res.plan
        ctx.check(plan is not None, "os:positive-status-without-plan", f"status {st.name} without a plan [{desc}]")
        val = SequentialPlanValidator(environment=env).validate(problem, plan)
        ctx.check(val.status == ValidationResultStatus.VALID, "os:invalid-plan",
                  f"oversubscription planner returned {[str(a) for a in plan.actions]} which the validator rejects (hard goals) [{desc}]")
        ctx.check(len(plan.actions) <= K, "os:plan-longer-than-state-space", f"plan longer than the state space [{desc}]")
        if st == PlanGenerationResultStatus.SOLVED_OPTIMALLY:
            def build():
                u = unrolled()
                # the returned plan along a second copy of the choice variables
                fixed = tvlib.unroll(R, len(plan.actions), tag="p")
                viol_invalid = z3.And(_plan_choices(fixed, plan.actions), z3.Not(tvlib.valid(fixed)))
                better = z3.And(_plan_choices(fixed, plan.actions), tvlib.dom(u), tvlib.valid(u), gain(u["states"][-1]) > gain(fixed["states"][-1]))
                return z3.Or(viol_invalid, better), {f"step{i}": ch for i, ch in enumerate(u["choice"])}

            ctx.forall(build, None, "os:optimal-status-but-better-plan-exists",
                       f"SOLVED_OPTIMALLY with plan {[str(a) for a in plan.actions]} but a valid plan with a larger gain exists (see model), "
                       f"or the plan is invalid under the reference semantics [{desc}]")
            ctx.witness("program:os:optimal")
        else:
            ctx.witness("program:os:satisficing")
    else:
        ctx.check(st == PlanGenerationResultStatus.UNSOLVABLE_PROVEN, "os:unexpected-status", f"status {st.name} over an exact underlying planner [{desc}]")

        def build_uns():
            u = unrolled()
            return z3.And(tvlib.dom(u), tvlib.valid(u)), {f"step{i}": ch for i, ch in enumerate(u["choice"])}

        ctx.forall(build_uns, None, "os:unsolvable-status-but-hard-goals-reachable",
                   f"{st.name} but the hard goals are reachable (see model) [{desc}]")
        ctx.witness("program:os:unsolvable")


def shards(tier, seed):
    out = []
    if tier == "quick":
        for sh in IF_SHAPES:
            out.append(dict(name=f"if-{sh}", fn="h_if", engine="direct", budget=900, query_timeout=120,
                            kwargs=dict(shape=sh, fis=[0, 1, 2, 4] if sh != "pre-eq" else [0, 2, 3, 4], bis=[0, 1, 3] if sh not in ("pre-or", "eff-both", "eff-cond", "pre-two-calls-mixed") else [1, 3],
                                        cs=[0, 2, 3], x0s=[0, 1])))
        combos = [("swap", [0, 1, 3], 0), ("swap", [0, 4, 2], 1), ("chain", [0, 1, 2], 0), ("chain", [5, 3, 1], 2),
                  ("counter", [0, 1, 2], 0), ("counter", [5, 3, 4], 3), ("swap", [1, 5, 2], 2)]
        for acts, gids, hard in combos:
            out.append(dict(name=f"os-{acts}-{''.join(map(str, gids))}-h{hard}", fn="h_os", engine="direct", budget=900, query_timeout=120,
                            kwargs=dict(acts=acts, goal_ids=gids, hard=hard, gains_pool=[-2, 0, 3] if hard else [-2, 1, 3])))
    else:
        for sh in IF_SHAPES:
            out.append(dict(name=f"if-{sh}-full", fn="h_if", engine="direct", budget=3000, query_timeout=300,
                            kwargs=dict(shape=sh, cs=[0, 1, 2, 3], x0s=[0, 1, 2])))
        import itertools
        for acts in OS_ACTIONS:
            for gids in itertools.combinations(range(6), 3):
                for hard in (0, 1, 2, 3):
                    out.append(dict(name=f"os-{acts}-{''.join(map(str, gids))}-h{hard}-full", fn="h_os", engine="direct", budget=3000, query_timeout=300,
                                    kwargs=dict(acts=acts, goal_ids=list(gids), hard=hard)))
    return out


MANIFEST = dict(
    engine="direct",
    technique="the real meta-engines (interpreted-functions planner, oversubscription planner) are built by the real factory over a harness-registered exact "
              "breadth-first planner and run on every member of a bounded family of problems (choice variables); z3 decides, by BMC over the reference "
              "semantics with the interpreted functions' tables, whether the answer is truthful: solvable within K = |state space| iff a plan was found, "
              "and no valid plan with a larger oversubscription gain exists",
    text="For each program: the interpreted-functions planner's plan is valid for the original problem (real validator and reference semantics) and a plan is found "
         "iff the problem is solvable; SOLVED_OPTIMALLY of the oversubscription planner comes with a plan valid for the hard goals whose gain no valid plan within "
         "K steps exceeds; UNSOLVABLE_PROVEN only when no plan exists.",
    note="Assumption = the registered underlying planner (exhaustive BFS over R). Trusted: R, z3. Outside: temporal problems, real gains, larger state spaces.",
)
