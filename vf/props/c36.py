"""C36 UPState is a finite map under any update history.

Symbolic: every integer value written (unbounded ints; whether two written values
coincide is decided by the solver at the hash-consing lookup), Boolean values, the shape
of the make_child tree (parent index, updated fluent), explicit default-valued updates,
which fluents the root state sets, the order of observation (== / hash before or after
get_value, since hashing condenses the state in place).
Real code: UPState.__init__/get_value/make_child/_condense_state/__eq__/__hash__.
Oracle: a shadow dict per state.
"""
PROPERTY = "C36"
LEVEL = "model_checking"
FUNCTIONS = [
    "unified_planning.model.state:UPState.__init__",
    "unified_planning.model.state:UPState.get_value",
    "unified_planning.model.state:UPState.make_child",
    "unified_planning.model.state:UPState._condense_state",
    "unified_planning.model.state:UPState.__eq__",
    "unified_planning.model.state:UPState.__hash__",
    "unified_planning.model.state:UPState._is_nondefault",
]
BOUNDS = ("3 ground fluents (bool with default, int with default, bool without default); thorough also 4 (int without default, bool without default); "
          "quick: chains of 3 make_child calls and all trees of 2; thorough: all trees of 3, chains of 4; one or two fluents per update; "
          "MAX_ANCESTORS in {1, 2, 20, None}; integer values unbounded symbolic")
OUTSIDE = "longer histories; parameterised fluents (keys are ground fluent expressions anyway); real-valued fluents"
ASSUMPTIONS = ["fluent expressions are concrete; only written values are solver variables"]


def _mk_problem(env, n_fluents):
    import unified_planning as up

    tm, em = env.type_manager, env.expression_manager
    p = up.model.Problem("p", env)
    f0 = up.model.Fluent("f0", tm.BoolType(), environment=env)
    f1 = up.model.Fluent("f1", tm.IntType(), environment=env)
    f2 = up.model.Fluent("f2", tm.IntType() if n_fluents > 3 else tm.BoolType(), environment=env)
    p.add_fluent(f0, default_initial_value=em.FALSE())
    p.add_fluent(f1, default_initial_value=em.Int(0))
    p.add_fluent(f2)
    fl = [f0, f1, f2]
    if n_fluents > 3:
        f3 = up.model.Fluent("f3", tm.BoolType(), environment=env)
        p.add_fluent(f3)
        fl.append(f3)
    return p, fl


def _value(ctx, em, fluent, name):
    """A value for `fluent`: Booleans fork, ints are symbolic (0 = the default is reachable by the solver)."""
    if fluent.type.is_bool_type():
        return em.Bool(bool(ctx.choice(name, 2)))
    return em.Int(ctx.int(name))


def h_history(ctx, max_anc, n_ops, n_fluents=3, root_cfg=None, two_updates=False, pars=None):
    from unified_planning.exceptions import UPStateMissingFluentError
    from unified_planning.model.state import UPState

    env = ctx.fresh_env()
    em = env.expression_manager
    with ctx.untraced():
        p, fl = _mk_problem(env, n_fluents)
        fexps = [em.FluentExp(f) for f in fl]
    defaults = {fe: p.fluents_defaults.get(f) for fe, f in zip(fexps, fl)}

    # make_child returns plain UPState objects, so a limit set only on a subclass governs the FIRST make_child alone
    # (round-4 seed C36D was missed for that reason): set the limit on the base class too (one process per shard / replay).
    UPState.MAX_ANCESTORS = max_anc

    class S(UPState):
        MAX_ANCESTORS = max_anc

    root_vals = {}
    for i, fe in enumerate(fexps):
        present = root_cfg[i] if root_cfg is not None else ctx.choice(f"root{i}", 2)
        if present:
            root_vals[fe] = _value(ctx, em, fl[i], f"rv{i}")
    states = [S(dict(root_vals), p)]
    shadows = [dict(root_vals)]
    for k in range(n_ops):
        par = pars[k] if pars is not None else ctx.choice(f"par{k}", len(states))
        upd = {}
        i = ctx.choice(f"fl{k}", len(fexps))
        upd[fexps[i]] = _value(ctx, em, fl[i], f"v{k}")
        if two_updates:
            j = ctx.choice(f"fl{k}b", len(fexps))
            if j != i:
                upd[fexps[j]] = _value(ctx, em, fl[j], f"v{k}b")
        child = states[par].make_child(dict(upd))
        ctx.check(child is not states[par], "make_child:same-object", "make_child returned the parent object")
        sh = dict(shadows[par])
        sh.update(upd)
        states.append(child)
        shadows.append(sh)

    def eff(sh, fe):
        v = sh.get(fe)
        return v if v is not None else defaults[fe]

    def check_values(tag):
        for si, (s, sh) in enumerate(zip(states, shadows)):
            for fe in fexps:
                want = eff(sh, fe)
                try:
                    got = s.get_value(fe)
                except UPStateMissingFluentError:
                    got = None
                if want is None:
                    ctx.check(got is None, f"{tag}:get_value-should-raise",
                              f"state {si} returns {got} for {fe} which has neither a value nor a default")
                else:
                    ctx.check(got is want, f"{tag}:get_value", f"state {si}: get_value({fe})={got}, expected {want}")

    def check_eq(tag):
        for a in range(len(states)):
            for b in range(a, len(states)):
                same = all(eff(shadows[a], fe) is eff(shadows[b], fe) for fe in fexps)
                r = states[a] == states[b]
                ctx.check(r == same, f"{tag}:eq", f"states {a},{b}: == is {r} but maps are {'equal' if same else 'different'}")
                if same:
                    ctx.check(hash(states[a]) == hash(states[b]), f"{tag}:hash", f"equal states {a},{b} with different hashes")
                    ctx.witness("equal-pair" if a != b else "self")
                else:
                    ctx.witness("different-pair")

    # get_value has no side effect, == / hash condense the state in place: observe before and after
    check_values("pre")
    check_eq("mid")
    check_values("post")
    # parents must be unaffected by a later make_child on them (independence)
    ctx.witness("history")


def shards(tier, seed):
    import itertools
    out = []
    if tier == "quick":
        for ma in (1, 2, 20, None):
            for root_cfg in ([0, 0, 0], [1, 1, 0], [0, 1, 1]):
                out.append(dict(name=f"ma{ma}-root{''.join(map(str, root_cfg))}-chain3", fn="h_history",
                                kwargs=dict(max_anc=ma, n_ops=3, root_cfg=root_cfg, pars=[0, 1, 2]), budget=100, per_path=20))
            for rc in ([0, 0, 0], [1, 1, 1]):
                out.append(dict(name=f"ma{ma}-tree2-root{rc[0]}{rc[1]}{rc[2]}", fn="h_history", kwargs=dict(max_anc=ma, n_ops=2, root_cfg=rc), budget=100, per_path=20))
        out.append(dict(name="ma1-chain2-two", fn="h_history",
                        kwargs=dict(max_anc=1, n_ops=2, two_updates=True, root_cfg=[0, 0, 0], pars=[0, 1]), budget=100, per_path=20))
    else:
        for ma in (1, 2, 20, None):
            for root_cfg in itertools.product((0, 1), repeat=3):
                for p0 in (0, 1):
                    out.append(dict(name=f"ma{ma}-root{''.join(map(str, root_cfg))}-tree3-{p0}", fn="h_history",
                                    kwargs=dict(max_anc=ma, n_ops=3, root_cfg=list(root_cfg), pars=None), budget=1200, per_path=30)) if p0 == 0 else None
                out.append(dict(name=f"ma{ma}-root{''.join(map(str, root_cfg))}-chain4", fn="h_history",
                                kwargs=dict(max_anc=ma, n_ops=4, root_cfg=list(root_cfg), pars=[0, 1, 2, 3]), budget=1200, per_path=30))
            for root_cfg in ([0, 0, 0, 0], [1, 1, 1, 1], [1, 0, 1, 0]):
                out.append(dict(name=f"ma{ma}-f4-root{''.join(map(str, root_cfg))}-chain3two", fn="h_history",
                                kwargs=dict(max_anc=ma, n_ops=3, n_fluents=4, root_cfg=root_cfg, two_updates=True, pars=[0, 1, 2]),
                                budget=1200, per_path=30))
    return out


MANIFEST = dict(
    engine="symex",
    technique="symbolic execution (CrossHair/z3) of UPState over make_child trees with symbolic integer values; shadow-dict oracle",
    text="Bounded model checking of the state data structure: every make_child tree within the bounds, every ancestor limit in {1,2,20,None}, "
         "every coincidence pattern of written integer values (decided by the solver at hash-consing), both observation orders. "
         "get_value/==/hash must agree with a shadow dict. Path trees are exhausted.",
    note="Trusted: CrossHair int model, z3, the S2 association-list replacement of the hash-consing tables (so that equal symbolic constants become the same node exactly when the solver allows equality).",
)
