"""C30 KS0 conformant-to-classical compilation is sound and complete (translation validation).

Programs (chosen by ctx.choice): a Boolean conformant skeleton (<= 3 ground fluents, <= 2 actions, conditional /
forall effects, negative / disjunctive / quantified conditions, at most one effect per ground fluent per
action) x a set of possible initial states (every subset of size 1..3 of the 2^n states, in both orders; or the set
derived from a ContingentProblem's oneof / or / unknown constraints, which the harness enumerates independently
from the documented meaning "exactly one" / "at least one" / "either value").
Real code: Ks0Compiler.compile (normalisation by QuantifiersRemover, DisjunctiveConditionsRemover, Grounder;
_prepare_normalized_problem; _reduce_possible_initial_states_to_basis; _get_relevance_relation;
_compile_normalized_problem; contingent enumeration) and the result's plan_back_conversion, which is called on every
compiled ground action to obtain the finite table compiled action -> original action instance | dropped.
Solver (R on both sides, vf/refsem.py + vf/tvlib.py):
  SOUND     valid_P'(pi') and OR_{s0 in I} not valid_{P,s0}(back(pi'))  is unsat over all pi' with |pi'| <= k'
  COMPLETE  (exists pi, |pi| <= k, valid from every s0 in I)  =>  (exists pi', |pi'| <= K', valid for P')
            K' = k + (k+1) * M, M = number of internal compiled actions (merge / fake-goal / case-analysis actions, i.e. those the
            back-conversion drops): between two original actions and after the last one each of them is needed at most once
            (smaller bounds are tried first; sat there implies sat within K')
  BASIS     the same two queries for the twin compilation with _reduce_possible_initial_states_to_basis disabled, and
            solvable_K'(reduced) == solvable_K'(unreduced)
"""
import itertools

PROPERTY = "C30"
LEVEL = "translation_validation"
FUNCTIONS = [
    "unified_planning.engines.compilers.ks0_compiler:Ks0Compiler._compile",
    "unified_planning.engines.compilers.ks0_compiler:Ks0Compiler._conformant_problem_from_contingent",
    "unified_planning.engines.compilers.ks0_compiler:Ks0Compiler._enumerate_hidden_assignments",
    "unified_planning.engines.compilers.ks0_compiler:Ks0Compiler._assign_oneof_choice",
    "unified_planning.engines.compilers.ks0_compiler:Ks0Compiler._deduplicate_possible_initial_states",
    "unified_planning.engines.compilers.ks0_compiler:Ks0Compiler._normalize_problem",
    "unified_planning.engines.compilers.ks0_compiler:Ks0Compiler._rebuild_possible_initial_states",
    "unified_planning.engines.compilers.ks0_compiler:Ks0Compiler._prepare_normalized_problem",
    "unified_planning.engines.compilers.ks0_compiler:Ks0Compiler._reduce_possible_initial_states_to_basis",
    "unified_planning.engines.compilers.ks0_compiler:Ks0Compiler._get_relevance_relation",
    "unified_planning.engines.compilers.ks0_compiler:Ks0Compiler._compile_normalized_problem",
    "unified_planning.engines.compilers.ks0_compiler:Ks0Compiler._build_plan_back_conversion",
    "unified_planning.engines.compilers.ks0_compiler:Ks0Compiler._map_back_ks0_action_instance",
    "unified_planning.engines.compilers.ks0_compiler:Ks0Compiler._extract_literals",
    "unified_planning.engines.compilers.quantifiers_remover:QuantifiersRemover._compile",
    "unified_planning.engines.compilers.disjunctive_conditions_remover:DisjunctiveConditionsRemover._compile",
    "unified_planning.engines.compilers.grounder:Grounder._compile",
]
BOUNDS = ("Boolean problems over ground fluents {a,b,c} or {a,p(o1),p(o2)} (o1,o2:T), 1-2 actions (optionally with a parameter x:T) "
          "with <= 3 effects (unconditional, conditional, forall, forall+conditional; at most one effect per ground fluent per "
          "action), conditions from literals, not, and, or, implies, exists, forall; possible initial states: all ordered choices "
          "of 1..3 distinct states out of 2^n (quick: one order per skeleton, every second triple for the {a,p(o1),p(o2)} family; thorough: all orders), or derived from 1-2 contingent constraints "
          "out of a pool of oneof/or/unknown constraints (incl. negative literals and overlapping groups); compiled plans "
          "<= k' = 4 (quick) / 5 (thorough) for soundness, original conformant plans <= k = 2 (quick) / 3 (thorough) for completeness")
OUTSIDE = ("more than 3 ground fluents / 2 actions; several effects on the same ground fluent in one action; longer plans; "
           "non-Boolean fluents (rejected by the compiler); sensing actions")
ASSUMPTIONS = ["R (vf/refsem.py) is the documented sequential semantics (tied to the real simulator by C01) and is used on both sides",
               "plan_back_conversion acts action-wise (SequentialPlan.replace_action_instances): the table is obtained by calling it "
               "on every one-step compiled plan",
               "the reduction-free twin is a subclass of Ks0Compiler overriding _reduce_possible_initial_states_to_basis with the identity",
               "completeness bound K' = k + (k+1)*M with M the number of internal (dropped by the back-conversion) compiled actions: they only add knowledge, so each is needed at most once per segment"]

# ------------------------------------------------------------------------------------------------------
# skeletons.  condition: ["a"] | ["p","x"|"y"|"o1"|"o2"] | ["not",C] | ["and",C,C] | ["or",C,C] | ["imp",C,C] |
#             ["ex",C] | ["all",C]   (quantified variable is y:T)
#             effect: [target atom, value, condition|None, forall?]
# ------------------------------------------------------------------------------------------------------
A, B_, C_ = ["a"], ["b"], ["c"]
PX, PY, P1, P2 = ["p", "x"], ["p", "y"], ["p", "o1"], ["p", "o2"]


def N(c):
    return ["not", c]


def act(pre, eff, par=False):
    return dict(pre=pre, eff=eff, par=par)


def sk(fl, acts, goal):
    return dict(fl=fl, acts=acts, goal=goal)


QUICK = [
    # 0: conditional effect chain, negative precondition
    sk("abc", [act([N(C_)], [[B_, True, A, False]]), act([], [[A, True, None, False], [C_, False, B_, False]])], [B_]),
    # 1: disjunctive precondition under uncertainty
    sk("abc", [act([["or", A, B_]], [[C_, True, None, False]]), act([], [[A, True, N(B_), False]])], [C_]),
    # 2: negated disjunction + conjunction condition of an effect
    sk("abc", [act([N(["or", A, B_])], [[C_, True, None, False]]), act([], [[A, False, None, False], [B_, False, ["and", A, N(C_)], False]])], [C_]),
    # 3: disjunctive effect condition, deleting effect, negative goal
    sk("abc", [act([], [[C_, True, ["or", A, B_], False], [A, False, C_, False]]), act([B_], [[B_, False, None, False], [A, True, None, False]])], [C_, N(A)]),
    # 4: disjunctive goal
    sk("abc", [act([], [[A, True, N(B_), False]]), act([A], [[C_, True, B_, False], [B_, True, None, False]])], [["or", C_, ["and", A, N(B_)]]]),
    # 5: implication as precondition, complementary conditions on two fluents
    sk("abc", [act([["imp", A, B_]], [[C_, True, A, False], [B_, False, N(A), False]]), act([], [[A, True, None, False], [B_, True, C_, False]])], [C_]),
    # 6: parameterised action, conditional move, existential goal
    sk("ap", [act([], [[PX, False, PX, False], [A, True, PX, False]], par=True), act([A], [[P1, True, None, False]])], [["ex", PY]]),
    # 7: forall effect + universal precondition
    sk("ap", [act([], [[PY, True, A, True]]), act([["all", PY]], [[A, False, None, False]]), ], [["all", PY], N(A)]),
    # 8: forall conditional delete, existential precondition
    sk("ap", [act([["ex", PY]], [[A, True, None, False]]), act([], [[PY, False, ["and", PY, N(A)], True]], par=False), act([], [[PX, True, None, False]], par=True)], [A, N(P2)]),
    # 9: quantified effect condition, parameter in precondition
    sk("ap", [act([N(PX)], [[A, True, ["all", N(PY)], False]], par=True), act([], [[P1, False, None, False], [P2, False, P1, False]])], [A]),
    # 10: universal goal with disjunction inside, parameterised set
    sk("ap", [act([], [[PX, True, N(A), False]], par=True), act([], [[A, False, None, False]])], [["all", ["or", PY, A]]]),
    # 11: toggling knowledge: an effect that destroys a known literal conditionally
    sk("abc", [act([], [[A, False, B_, False], [C_, True, A, False]]), act([], [[B_, True, N(C_), False], [A, True, None, False]])], [C_, A]),
    # 12: relevance through the complement rule and then transitivity: (when not a: b := false) gives a -> b only by complement, (when b: c := true) continues it to a -> c
    sk("abc", [act([], [[B_, False, N(A), False]]), act([], [[C_, True, B_, False]])], [C_]),
    # 13: the same chain behind a precondition
    sk("abc", [act([], [[B_, False, N(A), False], [A, True, C_, False]]), act([N(C_)], [[C_, True, B_, False]])], [C_]),
]

# contingent constraint pools: ("oneof"|"or"|"unknown", literals)
CPOOL_ABC = [("unknown", [A]), ("unknown", [B_]), ("oneof", [A, B_]), ("oneof", [A, N(B_)]), ("or", [A, B_]), ("or", [N(A), C_]),
             ("oneof", [A, B_, C_]), ("or", [N(B_), N(C_)]), ("oneof", [N(A), N(C_)])]
CPOOL_AP = [("unknown", [A]), ("unknown", [P1]), ("oneof", [P1, P2]), ("oneof", [A, N(P2)]), ("or", [A, P1]), ("or", [N(P1), P2]),
            ("oneof", [A, P1, P2]), ("or", [N(A), N(P2)]), ("oneof", [N(P1), N(A)])]


def ground_atoms(fl):
    return [("a", ()), ("b", ()), ("c", ())] if fl == "abc" else [("a", ()), ("p", ("o1",)), ("p", ("o2",))]


def describe(s):
    def c(x):
        if x[0] in ("not", "ex", "all"):
            return f"{x[0]}({c(x[1])})"
        if x[0] in ("and", "or", "imp"):
            return f"({c(x[1])} {x[0]} {c(x[2])})"
        return x[0] if len(x) == 1 else f"{x[0]}({x[1]})"

    acts = []
    for i, a in enumerate(s["acts"]):
        effs = "; ".join(("forall y: " if e[3] else "") + (f"when {c(e[2])}: " if e[2] else "") + f"{c(e[0])}:={e[1]}" for e in a["eff"])
        acts.append(f"act{i}{'(x)' if a['par'] else ''}[pre: {', '.join(map(c, a['pre'])) or '-'} | {effs}]")
    return " ".join(acts) + " goal: " + ", ".join(map(c, s["goal"]))


class Built:
    pass


def build(env, s, contingent=False):
    """the real problem for skeleton s (initial values are set by the caller)"""
    from unified_planning.model import Fluent, InstantaneousAction, Object, Problem, Variable
    from unified_planning.model.contingent import ContingentProblem

    em, tm = env.expression_manager, env.type_manager
    g = Built()
    prob = (ContingentProblem if contingent else Problem)("cf", env)
    T = tm.UserType("T")
    fl = {}
    if s["fl"] == "abc":
        for nme in "abc":
            fl[nme] = Fluent(nme, tm.BoolType(), environment=env)
        objs = {}
    else:
        fl["a"] = Fluent("a", tm.BoolType(), environment=env)
        fl["p"] = Fluent("p", tm.BoolType(), environment=env, z=T)
        objs = {n: Object(n, T, env) for n in ("o1", "o2")}
        prob.add_objects(list(objs.values()))
    for f in fl.values():
        prob.add_fluent(f)

    def term(t, x, y):
        if t == "x":
            return x
        if t == "y":
            return em.VariableExp(y)
        return em.ObjectExp(objs[t])

    def cond(c, x=None, y=None):
        h = c[0]
        if h == "not":
            return em.Not(cond(c[1], x, y))
        if h == "and":
            return em.And(cond(c[1], x, y), cond(c[2], x, y))
        if h == "or":
            return em.Or(cond(c[1], x, y), cond(c[2], x, y))
        if h == "imp":
            return em.Implies(cond(c[1], x, y), cond(c[2], x, y))
        if h in ("ex", "all"):
            v = Variable("y", T, env)
            body = cond(c[1], x, v)
            return em.Exists(body, v) if h == "ex" else em.Forall(body, v)
        if len(c) == 1:
            return em.FluentExp(fl[h])
        return em.FluentExp(fl[h], [term(c[1], x, y)])

    g.actions = []
    for i, a in enumerate(s["acts"]):
        if a["par"]:
            ua = InstantaneousAction(f"act{i}", _env=env, x=T)
            x = em.ParameterExp(ua.parameter("x"))
        else:
            ua = InstantaneousAction(f"act{i}", _env=env)
            x = None
        for p in a["pre"]:
            ua.add_precondition(cond(p, x))
        for tgt, val, c, fa in a["eff"]:
            if fa:
                v = Variable("y", T, env)
                ua.add_effect(cond(tgt, x, v), val, cond(c, x, v) if c else em.TRUE(), forall=[v])
            else:
                ua.add_effect(cond(tgt, x), val, cond(c, x) if c else em.TRUE())
        prob.add_action(ua)
        g.actions.append(ua)
    for gl in s["goal"]:
        prob.add_goal(cond(gl))
    g.problem, g.fl, g.objs, g.cond, g.em = prob, fl, objs, cond, em
    g.atoms = ground_atoms(s["fl"])
    g.atom_exp = [em.FluentExp(fl[n], [em.ObjectExp(objs[o]) for o in args]) for n, args in g.atoms]
    return g


def state_sets(n, sizes=(1, 2, 3), orders=("inc", "dec"), stride3=1):
    """ordered tuples of distinct state indices (a state = bit vector over the n ground atoms); stride3 > 1 keeps every
    stride3-th triple only (quick tier of the slower skeletons)"""
    out = []
    for m in sizes:
        for ci, combo in enumerate(itertools.combinations(range(2 ** n), m)):
            if m == 3 and ci % stride3:
                continue
            if "inc" in orders:
                out.append(list(combo))
            if "dec" in orders and (m > 1 or "inc" not in orders):
                out.append(list(reversed(combo)))
            if "all" in orders:
                for p in itertools.permutations(combo):
                    if list(p) not in out:
                        out.append(list(p))
    return out


def _lit_holds(lit, val):
    """literal (atom or ["not", atom]) under val: {(name,args): bool}"""
    if lit[0] == "not":
        return not _lit_holds(lit[1], val)
    return val[(lit[0], tuple(lit[1:]))]


def contingent_states(atoms, constraints, known):
    """independent enumeration from the documented meaning of the constraints: the hidden atoms are those mentioned;
    every other atom has the value in `known`."""
    hidden = []
    for _k, lits in constraints:
        for l in lits:
            at = l[1] if l[0] == "not" else l
            key = (at[0], tuple(at[1:]))
            if key not in hidden:
                hidden.append(key)
    out = []
    for bits in itertools.product((False, True), repeat=len(hidden)):
        val = dict(known)
        val.update(zip(hidden, bits))
        ok = True
        for kind, lits in constraints:
            cnt = sum(1 for l in lits if _lit_holds(l, val))
            if kind == "oneof" and cnt != 1:
                ok = False
            if kind == "or" and cnt < 1:
                ok = False
        if ok:
            out.append(tuple(val[k] for k in atoms))
    return hidden, out


# ------------------------------------------------------------------------------------------------------
def _compile(g, states_up, reduce=True):
    from unified_planning.engines import CompilationKind
    from unified_planning.engines.compilers import Ks0Compiler

    if reduce:
        comp = Ks0Compiler(possible_initial_states=states_up)
    else:
        class Ks0NoBasis(Ks0Compiler):
            @classmethod
            def _reduce_possible_initial_states_to_basis(cls, problem, prepared_problem, possible_initial_states):
                return possible_initial_states

        comp = Ks0NoBasis(possible_initial_states=states_up)
    comp.skip_checks = False
    return comp.compile(g.problem, CompilationKind.CONFORMANT_TO_CLASSICAL)


def _back_table(result, orig_gas):
    """compiled ground action index -> index into orig_gas, or len(orig_gas) (dropped), through the real plan_back_conversion"""
    from unified_planning.plans import ActionInstance, SequentialPlan

    cp = result.problem
    table = []
    keys = [(a.name, tuple(o.name for o in objs)) for a, objs in orig_gas]
    for ca in cp.actions:
        assert len(ca.parameters) == 0, "compiled problem is expected to be ground"
        back = result.plan_back_conversion(SequentialPlan([ActionInstance(ca)], cp.environment))
        ais = list(back.actions)
        if len(ais) == 0:
            table.append(len(orig_gas))
        else:
            assert len(ais) == 1
            ai = ais[0]
            key = (ai.action.name, tuple(p.object().name for p in ai.actual_parameters))
            table.append(keys.index(key))
    return table


def _check_program(ctx, s, g, states_bits, compile_fn, k, kprime, label):
    """states_bits: list of tuples of bools over g.atoms (the possible initial states, oracle side)"""
    import z3
    from vf import tvlib
    from vf.refsem import Ref

    desc = f"{describe(s)} | I={[''.join('1' if b else '0' for b in st) for st in states_bits]} over {[n + ''.join(a) for n, a in g.atoms]}"
    res = {}
    for red in (True, False):
        res[red] = compile_fn(red)
    box = {}

    def setup():
        if box:
            return box
        R = Ref(g.problem, name="P.")
        gas = R.ground_actions()
        box["R"], box["gas"] = R, gas
        box["s0"] = [tvlib.const_state(R, {key: st[i] for i, key in enumerate(g.atoms)}) for st in states_bits]
        for red in (True, False):
            cp = res[red].problem
            Rc = Ref(cp, name=f"C{int(red)}.")
            box[red] = dict(R=Rc, gas=Rc.ground_actions(), table=_back_table(res[red], gas))
            assert all(len(objs) == 0 for _a, objs in box[red]["gas"])
        return box

    def sound(red):
        """-> (z3 result, offending compiled plan | None)"""
        b = setup()
        c = b[red]
        up = tvlib.unroll(c["R"], kprime, gas=c["gas"], tag="s")
        n0 = len(b["gas"])
        mapped = [tvlib.mapped_choice(ch, c["table"], n0) for ch in up["choice"]]
        bad = []
        for s0 in b["s0"]:
            uo = tvlib.unroll(b["R"], kprime, s0=s0, gas=b["gas"], choices=mapped)
            bad.append(z3.Not(tvlib.valid(uo)))
        sv = _solver(ctx)
        sv.add(tvlib.dom(up), tvlib.valid(up), z3.Or(bad))
        r = sv.check()
        plan = None
        if r == z3.sat:
            m = sv.model()
            plan = [a.name for a, _o in tvlib.plan_of_model(m, up)]
        return r, plan

    def conformant():
        b = setup()
        if "conf" not in b:
            first = tvlib.unroll(b["R"], k, s0=b["s0"][0], gas=b["gas"], tag="o")
            us = [first] + [tvlib.unroll(b["R"], k, s0=s0, gas=b["gas"], choices=first["choice"]) for s0 in b["s0"][1:]]
            sv = _solver(ctx)
            sv.add(tvlib.dom(first), *[tvlib.valid(u) for u in us])
            r = sv.check()
            b["conf"] = r
            b["conf_plan"] = [a.name + str(tuple(o.name for o in objs)) for a, objs in tvlib.plan_of_model(sv.model(), first)] if r == z3.sat else None
        return b["conf"]

    def bound(red):
        """between two original actions (and after the last) every internal compiled action (merge, case analysis, fake goal
        action: those the back-conversion drops) is needed at most once: they only add knowledge"""
        table = setup()[red]["table"]
        n0 = len(box["gas"])
        return k + (k + 1) * sum(1 for t in table if t == n0)

    def solvable(red, K):
        """solvable within K steps; a cheaper smaller bound is tried first (sat there implies sat within K)"""
        b = setup()
        key = ("solv", red, K)
        if key not in b:
            c = b[red]
            r = z3.unsat
            for K1 in sorted({min(K, k + 2), min(K, 2 * k + 3), K}):
                up = tvlib.unroll(c["R"], K1, gas=c["gas"], tag="c")
                sv = _solver(ctx)
                sv.add(tvlib.dom(up), tvlib.valid(up))
                r = sv.check()
                if r != z3.unsat:
                    break
            b[key] = r
        return b[key]

    def report(failed, what, msg):
        """failed: {True(reduced): bool, False(unreduced): bool}"""
        which = "both" if (failed[True] and failed[False]) else ("reduced-only" if failed[True] else "unreduced-only")
        ctx.forall(lambda: (failed[True] or failed[False], {}), None, f"{label}:{what}:{which}:{split}", msg + f" [{which}; {desc}]")

    setup()
    n0 = len(box["gas"])
    tab = box[False]["table"]
    names = [a.name for a in res[False].problem.actions]
    # label only: did the normalisation split an action / the goal into disjunct variants?
    split = "split-disjunction" if (any(tab.count(j) > 1 for j in range(n0)) or
                                    any(t == n0 and not nm.startswith("merge_") for t, nm in zip(tab, names))) else "plain"
    ctx.note("program", desc)
    wtag = "program"
    snd = {red: sound(red) for red in (True, False)}
    if any(r == z3.unknown for r, _ in snd.values()):
        _inconclusive(ctx)
    report({red: snd[red][0] == z3.sat for red in snd}, "unsound",
           f"compiled plan {[snd[r_][1] for r_ in (True, False) if snd[r_][1]][:1]} is valid for the compiled problem but its back-conversion is not "
           f"executable / does not reach the goals from every possible initial state")
    conf = conformant()
    ctx.note("conformant_k", str(conf))
    if conf == z3.unknown:
        _inconclusive(ctx)
    elif conf == z3.sat:
        wtag += ":conformant-plan"
        sol = {red: solvable(red, bound(red)) for red in (True, False)}
        if z3.unknown in sol.values():
            _inconclusive(ctx)
        report({red: sol[red] == z3.unsat for red in sol}, "incomplete",
               f"conformant plan {box['conf_plan']} exists (valid from every possible initial state) but the compiled problem has no plan "
               f"within {bound(True)}/{bound(False)} steps")
    else:
        wtag += ":no-conformant-plan"
    # dominated states: same answer with and without the reduction (same bound on both sides)
    if len(res[True].problem.fluents) != len(res[False].problem.fluents):
        wtag += ":basis-dropped-states"
        K = max(bound(True), bound(False)) if conf == z3.sat else kprime
        outs = [solvable(red, K) for red in (True, False)]
        if z3.unknown in outs:
            _inconclusive(ctx)
        else:
            ctx.forall(lambda: (outs[0] != outs[1], {}), None, f"{label}:basis-changes-solvability",
                       f"dropping dominated initial states changes the solvability of the compiled problem within {K} steps "
                       f"(reduced: {outs[0]}, unreduced: {outs[1]}) [{desc}]")
    ctx.witness(wtag)


def _solver(ctx):
    import z3

    s = z3.Solver()
    s.set("timeout", int(getattr(ctx, "query_timeout_ms", 60000)))
    return s


def _inconclusive(ctx):
    """an inner query timed out: counted as unknown (never a pass of the program)"""
    if hasattr(ctx, "forall_unknown"):
        ctx.forall_unknown += 1


def h_explicit(ctx, s, k=2, kprime=4, sizes=(1, 2, 3), orders=("inc", "dec"), stride3=1):
    from unified_planning.model import UPState

    env = ctx.fresh_env()
    g = build(env, s)
    n = len(g.atoms)
    sets = state_sets(n, tuple(sizes), tuple(orders), stride3)
    sel = sets[ctx.choice("I", len(sets))]
    bits = [tuple(bool((idx >> i) & 1) for i in range(n)) for idx in sel]
    em = g.em
    # declared initial values are placeholders (first state)
    for e, b in zip(g.atom_exp, bits[0]):
        g.problem.set_initial_value(e, b)
    ups = tuple(UPState({e: (em.TRUE() if b else em.FALSE()) for e, b in zip(g.atom_exp, st)}, g.problem) for st in bits)
    _check_program(ctx, s, g, bits, lambda red: _compile(g, ups, red), k, kprime, "explicit")


def h_contingent(ctx, s, k=2, kprime=4, max_states=4):
    env = ctx.fresh_env()
    g = build(env, s, contingent=True)
    pool = CPOOL_ABC if s["fl"] == "abc" else CPOOL_AP
    combos = [[i] for i in range(len(pool))] + [list(c) for c in itertools.combinations(range(len(pool)), 2)]
    sel = combos[ctx.choice("constraints", len(combos))]
    known_bits = ctx.choice("known", 2)
    cons = [pool[i] for i in sel]
    known = {key: bool(known_bits) for key in g.atoms}
    hidden, bits = contingent_states(g.atoms, cons, known)
    ctx.assume(1 <= len(bits) <= max_states)
    for key, e in zip(g.atoms, g.atom_exp):
        if key not in hidden:
            g.problem.set_initial_value(e, known[key])
    for kind, lits in cons:
        exps = [g.cond(l) for l in lits]
        if kind == "oneof":
            g.problem.add_oneof_initial_constraint(exps)
        elif kind == "or":
            g.problem.add_or_initial_constraint(exps)
        else:
            g.problem.add_unknown_initial_constraint(exps[0])
    _check_program(ctx, s, g, bits, lambda red: _compile(g, None, red), k, kprime, "contingent")


def thorough_skeletons():
    """actions x goals from template pools (both fluent families)"""
    out = []
    pre_abc = [[], [A], [N(B_)], [["or", A, B_]], [N(["or", A, C_])], [["imp", B_, A]]]
    eff_abc = [[[C_, True, None, False]], [[C_, True, A, False]], [[C_, True, ["or", A, B_], False], [A, False, None, False]],
               [[B_, False, A, False], [C_, True, N(B_), False]], [[A, True, N(A), False], [B_, True, ["and", A, N(C_)], False]],
               [[A, False, B_, False], [B_, False, None, False], [C_, True, A, False]]]
    goals_abc = [[C_], [C_, N(A)], [["or", C_, B_]], [N(B_), A]]
    for (i, p1), (j, e1) in itertools.product(enumerate(pre_abc), enumerate(eff_abc)):
        e2 = eff_abc[(i + j + 1) % len(eff_abc)]
        p2 = pre_abc[(i * 2 + j) % len(pre_abc)]
        gl = goals_abc[(i + j) % len(goals_abc)]
        out.append(sk("abc", [act(p1, e1), act(p2, e2)], gl))
    pre_ap = [[], [["ex", PY]], [["all", PY]], [N(PX)], [["or", A, PX]], [["all", ["or", PY, A]]]]
    eff_ap = [[[A, True, None, False]], [[PY, True, A, True]], [[PY, False, ["and", PY, N(A)], True]], [[PX, True, N(A), False]],
              [[PX, False, PX, False], [A, True, PX, False]], [[A, True, ["ex", PY], False], [P1, False, None, False]]]
    goals_ap = [[A], [["ex", PY]], [["all", PY]], [A, N(P2)], [["all", ["or", PY, A]]]]

    def uses_x(cs, es):
        txt = repr(cs) + repr(es)
        return "'x'" in txt

    for (i, p1), (j, e1) in itertools.product(enumerate(pre_ap), enumerate(eff_ap)):
        e2 = eff_ap[(i + j + 2) % len(eff_ap)]
        p2 = pre_ap[(i * 3 + j + 1) % len(pre_ap)]
        gl = goals_ap[(i + j) % len(goals_ap)]
        out.append(sk("ap", [act(p1, e1, par=uses_x(p1, e1)), act(p2, e2, par=uses_x(p2, e2))], gl))
    return out


def shards(tier, seed):
    out = []
    if tier == "quick":
        for i, s in enumerate(QUICK):
            out.append(dict(name=f"explicit-sk{i:02d}", fn="h_explicit", engine="direct", budget=900, query_timeout=60,
                            kwargs=dict(s=s, k=2, kprime=4, sizes=[1, 2, 3], orders=["dec"] if i % 3 == 0 else ["inc"],
                                        stride3=2 if s["fl"] == "ap" else 1)))
        for i in (0, 1, 6, 8):
            out.append(dict(name=f"contingent-sk{i:02d}", fn="h_contingent", engine="direct", budget=900, query_timeout=60,
                            kwargs=dict(s=QUICK[i], k=2, kprime=4, max_states=4)))
    else:
        for i, s in enumerate(QUICK):
            out.append(dict(name=f"explicit-sk{i:02d}-k3", fn="h_explicit", engine="direct", budget=3000, query_timeout=120,
                            kwargs=dict(s=s, k=3, kprime=5, sizes=[1, 2, 3], orders=["all"])))
            out.append(dict(name=f"contingent-sk{i:02d}-k3", fn="h_contingent", engine="direct", budget=3000, query_timeout=120,
                            kwargs=dict(s=s, k=3, kprime=5, max_states=8)))
        for i, s in enumerate(thorough_skeletons()):
            out.append(dict(name=f"explicit-tsk{i:03d}", fn="h_explicit", engine="direct", budget=1500, query_timeout=120,
                            kwargs=dict(s=s, k=2, kprime=4, sizes=[1, 2, 3], orders=["inc"])))
    return out


MANIFEST = dict(
    engine="direct",
    technique="translation validation: the real Ks0Compiler runs on every member of a bounded family of conformant problems x sets of "
              "possible initial states (choice variables); z3 decides soundness over all compiled plans <= k' and completeness against "
              "an exhaustive bounded belief-space search (shared choice variables over all possible initial states), BMC over the "
              "reference semantics R on both sides",
    text="For each program: no compiled plan of length <= k' maps back (real plan_back_conversion) to a plan that fails from some possible "
         "initial state; whenever a conformant plan of length <= k exists the compiled problem is solvable within the merge-padded bound; "
         "both also hold with the dominated-state reduction disabled and the reduction does not change bounded solvability.",
    note="Trusted: R (validated against the simulator by C01), z3. Outside: > 3 ground fluents, > 2-3 actions, several effects per ground "
         "fluent in one action, plans beyond the bounds.",
)
