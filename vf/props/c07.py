"""C07 Compilers preserve solvability and every original plan (completeness).

Translation validation, same programs as C06 (vf/compfam.py).  For every valid plan pi of the ORIGINAL
problem with |pi| <= k (enumerated from the BMC unrolling of R by blocking clauses; the cap is reported)
the solver must find a valid plan pi' of the COMPILED problem with |pi'| <= |pi| (+1 for compilers that add
a final goal-achieving action) whose image under the real map_back_action_instance is exactly pi
(dropped / None steps are skipped).  unsat => a valid original plan has no compiled counterpart.
Consequently an unsolvable compiled problem (within the bound) implies an unsolvable original one.
"""
from vf import compfam, gen

PROPERTY = "C07"
LEVEL = "translation_validation"
FUNCTIONS = [
    "unified_planning.engines.compilers.grounder:GrounderHelper.get_grounded_actions",
    "unified_planning.engines.compilers.grounder:Grounder._compile",
    "unified_planning.model.walkers.dnf:Dnf.get_dnf_expression",
    "unified_planning.engines.compilers.conditional_effects_remover:ConditionalEffectsRemover._compile",
    "unified_planning.engines.compilers.disjunctive_conditions_remover:DisjunctiveConditionsRemover._compile",
    "unified_planning.engines.compilers.negative_conditions_remover:NegativeConditionsRemover._compile",
    "unified_planning.engines.compilers.quantifiers_remover:QuantifiersRemover._compile",
    "unified_planning.engines.compilers.usertype_fluents_remover:UsertypeFluentsRemover._compile",
    "unified_planning.engines.compilers.bounded_types_remover:BoundedTypesRemover._compile",
    "unified_planning.engines.compilers.state_invariants_remover:StateInvariantsRemover._compile",
    "unified_planning.engines.compilers.trajectory_constraints_remover:TrajectoryConstraintsRemover._compile",
    "unified_planning.engines.compilers.undefined_initial_numeric_remover:UndefinedInitialNumericRemover._compile",
]
BOUNDS = ("programs of vf/compfam.py (10 compilers + 3 pipelines, every Boolean initial-value combination); all valid original plans of length <= 2 (quick) / 3 "
          "(thorough), at most 40 per program (cap hits are reported in the notes); compiled plans up to one step longer")
OUTSIDE = "longer plans; problems outside the family"
ASSUMPTIONS = ["R (vf/refsem.py) encodes the documented semantics on both sides", "PDDL3 semantics of trajectory constraints as in vf/tv.py",
               "extra compiled steps (mapped to None) are allowed only as one additional step (final goal-achieving action), as the property states"]


def h_complete(ctx, cname, sk, k):
    import z3
    from vf import tv
    from vf.props.c06 import _mk

    g, P, Pc, res, Ro, Rc, tab = _mk(ctx, cname, sk)
    plans, complete = tv.enumerate_valid_plans(Ro, k)
    ctx.note("original_valid_plans", dict(count=len(plans), enumeration_complete=complete))
    for pi in plans:
        found = False

        def build(pi=pi):
            alts = []
            qv = {}
            # alignment: compiled plan = pi with at most one extra step (mapped to None) inserted at position j
            for extra_at in [None] + list(range(len(pi) + 1)):
                n = len(pi) + (0 if extra_at is None else 1)
                cc = [z3.Int(f"x{'n' if extra_at is None else extra_at}_{i}") for i in range(n)]
                uc = tv.unroll(Rc, n, cc)
                cons = [tv.valid(Rc, uc, n)] + [c >= 0 for c in cc]
                j = 0
                for i in range(n):
                    if extra_at is not None and i == extra_at:
                        cons.append(tv.lookup(tab, cc[i]) == -1)
                    else:
                        cons.append(tv.lookup(tab, cc[i]) == pi[j])
                        j += 1
                alts.append(z3.And(cons))
            return z3.Or(alts), qv

        # the claim is existential: ask for a compiled counterpart; absence is the violation
        s = z3.Solver()
        s.set("timeout", 60000)
        s.add(build()[0])
        r = s.check()
        if r == z3.unknown:
            ctx.note("inconclusive", str(pi))
            ctx.witness("inconclusive-query")
            continue
        if r == z3.unsat:
            gas = Ro.ground_actions()
            names = [f"{gas[i][0].name}({','.join(o.name for o in gas[i][1])})" for i in pi]
            # classify: does the lost plan contain a step that changes nothing (a conditional action none of whose effects fires)?
            uo = tv.unroll(Ro, len(pi), [z3.IntVal(i) for i in pi])
            stutter = any(z3.is_true(z3.simplify(Ro.states_equal(uo["states"][i], uo["states"][i + 1]))) for i in range(len(pi)))
            kind = "stutter-step" if stutter else "plan"
            ctx.fail(f"incomplete:{cname}:{kind}", f"valid original plan {names} has no valid compiled plan (length <= {len(pi) + 1}) that maps back to it"
                     + (" [the plan contains a step that changes nothing]" if stutter else ""), plan=names)
        ctx.witness("original-plan-has-counterpart")
    ctx.witness("program")
    ctx.note("program", dict(compiler=cname, skeleton=gen.describe(sk)))


def h_complete_sym(ctx, cname, sk, k):
    """Value-symbolic completeness (E1): the leaves named in sk['sym'] are solver variables and compile() runs under the tracer.
    For every concrete sequence pi of original ground instances (|pi| <= k) the compiled candidates with image pi are finitely
    many (products of the preimages under the real map_back, optionally one extra step mapped to None), so
        exists values:  valid_P(pi)  and  no candidate is valid for P'
    is quantifier-free; it is posed on the path solver and must be unsat."""
    import itertools
    import z3
    from vf import tv
    from vf.props.c06 import _mk

    g, P, Pc, res, Ro, Rc, tab = _mk(ctx, cname, sk)
    n_o = len(Ro.ground_actions())
    pre = {i: [j for j, t in enumerate(tab) if t == i] for i in range(n_o)}
    extra = [j for j, t in enumerate(tab) if t == -1]
    for n in range(k + 1):
        for pi in itertools.product(range(n_o), repeat=n):
            cands = [list(c) for c in itertools.product(*[pre[i] for i in pi])]
            for e in extra:  # one additional compiled step that maps to no original step (e.g. a final goal action), at any position
                for c in list(itertools.product(*[pre[i] for i in pi])):
                    for pos in range(n + 1):
                        cands.append(list(c[:pos]) + [e] + list(c[pos:]))
            cands = cands[:200]

            def build(pi=pi, cands=cands):
                vo = tv.valid_plan(Ro, list(pi))
                vcs = [tv.valid_plan(Rc, c) for c in cands]
                return z3.And([vo] + [z3.Not(v) for v in vcs]), {}

            names = [f"{Ro.ground_actions()[i][0].name}({','.join(o.name for o in Ro.ground_actions()[i][1])})" for i in pi]
            ctx.forall(build, None, f"incomplete-sym:{cname}:len{n}",
                       f"for some value of the symbolic leaves the original plan {names} is valid but none of its {len(cands)} compiled candidates is")
            ctx.witness("original-plan-checked")
    ctx.witness("program")
    ctx.note("program", dict(compiler=cname, skeleton=gen.describe(sk)))


def shards(tier, seed):
    out = []
    k = 2 if tier == "quick" else 3
    for cname, i, sk in compfam.programs(tier):
        out.append(dict(name=f"{cname}-{i}", fn="h_complete", engine="direct", kwargs=dict(cname=cname, sk=sk, k=k),
                        budget=150 if tier == "quick" else 1500, query_timeout=60))
    from vf.props.c06 import SYM_PROGRAMS, SYM_PROGRAMS_THOROUGH
    for cname, i, sym in SYM_PROGRAMS if tier == "quick" else SYM_PROGRAMS + SYM_PROGRAMS_THOROUGH:
        if cname == "conditional_effects":
            continue  # the dropped no-effect variant (known finding, stutter-step) would fire on every value-symbolic program
        sk = dict(compfam.FAMILY[cname][i], sym=sym)
        sk.pop("values", None)
        out.append(dict(name=f"sym-{cname}-{i}-{'_'.join(sym)}", fn="h_complete_sym", engine="symex", kwargs=dict(cname=cname, sk=sk, k=k),
                        budget=150 if tier == "quick" else 1500, per_path=60))
    return out


MANIFEST = dict(
    engine="direct",
    technique="translation validation: valid original plans enumerated by z3 (BMC over the reference semantics, blocking clauses); for each, a z3 query over the compiled problem asks for a valid compiled plan whose image under the real map_back is that plan",
    text="Translation validation with bounded model checking: for each (compiler, problem) program every valid original plan up to the bound has a valid compiled counterpart that maps back to it "
         "(one extra final step allowed). The violation is re-derived on replay from the concrete program.",
    note="Trusted: R on both sides, vf/tv.py, z3. Plan enumeration is capped at 40 per program (reported). The compiled-side search is by the solver over all plans of the bounded length, not sampled.",
)
