"""C18 PDDL write/read round trip preserves problem semantics and plans.

Translation validation.  Programs: the members of a parametrised skeleton family (vf/tvio.py: the condition/effect
templates of G restricted to the PDDL-expressible fragment -- Boolean and numeric fluents without type bounds, typed
objects with a two-level hierarchy, quantified and nested conditions, conditional / universally quantified effects,
nested numeric expressions with order-sensitive operators, action costs and final-value metrics) with
  * identifiers drawn by ctx.choice from adversarial naming schemes (upper case, PDDL keywords, temporal PDDL keywords,
    leading digits, leading symbols, inner symbols, names that collide after lower-casing / mangling),
  * numeric leaves drawn by ctx.choice from the pool {0, 1, -3, 5/2, 1/8, 10^9+1} (+ 3/10, a finite decimal that is
    not a binary fraction; thorough: + -7/4, 1/1024, 10^10+1, 2), Boolean initial values from 4 patterns,
plus two durative problems (fixed and interval durations, conditions on the three PDDL slots, conditional and
universally quantified timed effects, action cost) and timed initial literals / timed numeric effects.
For each program the REAL PDDLWriter writes domain + problem, and the REAL reader -- ctx.choice between
PDDLReader(force_up_pddl_reader=True) and PDDLReader(force_ai_planning_reader=True) (the ai-planning `pddl` package
IS importable in /venv: pddl 0.4.10) -- parses the two strings back in the path's fresh environment.
Solver's part (z3, stand-alone queries posed through ctx.forall): with rho = the writer's renaming
(get_pddl_name on types, objects, fluents, actions; parameters positionally)
  (1) concrete: objects + type chains, fluent and action signatures, initial state equal under rho;
  (2) one-step bisimulation over ALL states reachable within k steps (BMC over R = vf/refsem.py on P; P' is stepped
      from the same z3 state terms, keys renamed by rho): exists reachable sigma, ground action a:
      applicable_P(sigma,a) != applicable_P'(rho sigma, rho a), or successors differ on a ground fluent, or the goal
      verdicts differ -- must be unsat;
  (3) metric: same kind and, per ground action, the same cost value in every state (solver query over an arbitrary
      state); plan length == action costs all 1;
  (4) plan round trip: a valid plan and an invalid plan found by BMC (models of plan_valid / its negation) are written
      with get_plan, parsed back with parse_plan_string against P' (names of P') and against P (get_item_named) and must
      map to the same action instances; the REAL SequentialPlanValidator must give the same verdict on (P, plan) and
      (P', plan');
  temporal programs: durations, conditions per PDDL slot (at start / over all / at end) and effects per time point are
  compared SEMANTICALLY slot by slot (each slot read as an instantaneous transition from an arbitrary state, solver
  query), timed initial effects likewise per time point; R has no temporal semantics, so no temporal BMC.
One ctx.witness("program") per (problem, reader) pair that reached the comparison.
"""
import re
import warnings

from vf import tvio

PROPERTY = "C18"
LEVEL = "translation_validation"
FUNCTIONS = [
    "unified_planning.io.pddl_writer:PDDLWriter._write_domain",
    "unified_planning.io.pddl_writer:PDDLWriter._write_problem",
    "unified_planning.io.pddl_writer:PDDLWriter._write_plan",
    "unified_planning.io.pddl_writer:PDDLWriter._get_mangled_name",
    "unified_planning.io.pddl_writer:PDDLWriter.get_item_named",
    "unified_planning.io.pddl_writer:PDDLWriter._write_untimed_preconditions",
    "unified_planning.io.pddl_writer:PDDLWriter._write_untimed_effects",
    "unified_planning.io.pddl_writer:_write_effect",
    "unified_planning.io.pddl_writer:_get_pddl_name",
    "unified_planning.io.pddl_writer:ConverterToPDDLString.convert",
    "unified_planning.io.pddl_writer:ConverterToPDDLString.convert_fraction",
    "unified_planning.io.pddl_reader:PDDLReader.parse_problem_string",
    "unified_planning.io.pddl_reader:PDDLReader.parse_plan_string",
    "unified_planning.io.up_pddl_reader:UPPDDLReader._parse_problem",
    "unified_planning.io.up_pddl_reader:UPPDDLReader._parse_exp",
    "unified_planning.io.up_pddl_reader:UPPDDLReader._add_effect",
    "unified_planning.io.up_pddl_reader:UPPDDLReader._add_condition",
    "unified_planning.io.up_pddl_reader:UPPDDLReader._add_timed_effects",
    "unified_planning.io.up_pddl_reader:UPPDDLReader.parse_plan_string",
    "unified_planning.interop.from_pddl:AIPDDLConverter.convert",
    "unified_planning.interop.from_pddl:AIPDDLConverter._convert_effects",
    "unified_planning.interop.from_pddl:AIPDDLConverter._convert_initial_values",
    "unified_planning.interop.from_pddl:_ExpressionConverter.convert_expression",
    "unified_planning.engines.plan_validator:SequentialPlanValidator._validate",
]
BOUNDS = ("skeleton family of vf/tvio.py: types T, S<T; 2 (some skeletons 3) objects; fluents b, p(T), n, u (n, u int or real, "
          "u without initial value unless stated); 1-2 actions with one object parameter, <= 3 effects from 19 effect templates, "
          "preconditions / effect conditions / goals from 20 condition templates (nested and/or/not/imply/iff, exists/forall incl. "
          "nested quantifiers over a parameter, <, <=, > over nested +,-,*,/ terms); metric none / constant and fluent-dependent "
          "action costs / plan length / min- and max-final-value; identifiers: 8 naming schemes (quick: covering rows, thorough: "
          "all schemes x all constants); numeric leaves from {0,1,-3,5/2,1/8,10^9+1,3/10} (thorough + {-7/4,1/1024,10^10+1,2}); "
          "4 Boolean initial patterns; per shard additional 'boundary' rows in which the comparison constants equal the initial value (c = x0), so that the boundary of < / <= is a reachable state; bisimulation depth k = 2 (quick) / 3 (thorough); 2 durative programs x naming schemes x "
          "constants and 2 timed-initial-effect programs, compared slot-wise")
OUTSIDE = ("numeric literals are NOT symbolic: number -> text -> number realises under CrossHair (probed in the design phase), so "
           "the constants are the stated pool, not 'every rational'; rationals whose decimal expansion needs more than 10 significant "
           "digits (the writer warns and rounds: outside the property's 'finite decimal expansions'); identifiers outside the schemes, "
           "the PDDL reserved word 'assign' as an identifier (recorded finding of C38); object-valued fluents, bounded numeric types, "
           "state invariants (PDDLWriter announces ':constraints' but writes no invariant: not in the property's fragment), "
           "trajectory constraints, HTN, processes/events, contingent problems, continuous effects; negative INITIAL values with the "
           "ai-planning reader (its grammar has no signed number in :init, so the text is outside what that reader accepts); "
           "temporal semantics (temporal programs are compared slot-wise, not by temporal BMC); states deeper than k")
ASSUMPTIONS = [
    "engine 'direct': the real writer/readers run concretely per program; the solver decides the property of their OUTPUT",
    "R (vf/refsem.py) encodes BOTH problems (validated against the real simulator by C01/C02); an encoder mistake tends to cancel",
    "while a reader runs, unified_planning.environment.GLOBAL_ENVIRONMENT points at the path's fresh environment: all three readers "
    "create some model objects without passing their `environment` argument on (recorded findings, shards env-*); without the "
    "redirection every path would stop at that defect",
    "PDDL is case-insensitive and untyped-numeric: rho lower-cases, int fluents are compared with their real-typed re-read copies by value",
]

SCHEME_IDS = ["plain", "upper", "pkw", "pkw_t", "digit", "lsym", "isym", "collide"]
POOLS = dict(quick=tvio.CONST_POOL_DEC, thorough=tvio.CONST_POOL_THOROUGH)
READERS = ["up", "ai"]


def _int_pool(pool):
    return [v for v in pool if isinstance(v, int)]


def _reader(env, which):
    from unified_planning.io import PDDLReader

    if which == "up":
        return PDDLReader(environment=env, force_up_pddl_reader=True)
    return PDDLReader(environment=env, force_ai_planning_reader=True)


NEG_LIT = re.compile(r"(?<![\w?.-])-\d")


def _write(ctx, P, **flags):
    """real writer; -> (writer, domain text, problem text).  An inexact decimal (writer warning) is outside the fragment."""
    from unified_planning.io import PDDLWriter

    with warnings.catch_warnings(record=True) as ws:
        warnings.simplefilter("always")
        w = PDDLWriter(P, **flags)
        dom, prb = w.get_domain(), w.get_problem()
    ctx.assume(not any("cannot exactly represent" in str(x.message) for x in ws))
    return w, dom, prb


def _rho(w, P):
    return tvio.Rho({t.name: w.get_pddl_name(t) for t in P.user_types}, {o.name: w.get_pddl_name(o) for o in P.all_objects},
                    {f.name: w.get_pddl_name(f) for f in P.fluents}, {a.name: w.get_pddl_name(a) for a in P.actions})


def _third_party(e):
    """the exception was raised inside the ai-planning `pddl` package or its parser generator (lark)"""
    import traceback

    mod = type(e).__module__ or ""
    if mod.startswith("lark") or mod.startswith("pddl"):
        return True
    tb = traceback.extract_tb(e.__traceback__)
    return bool(tb) and any(("/site-packages/pddl/" in fr.filename or "/site-packages/lark/" in fr.filename) for fr in tb[-2:])


def _read(ctx, env, which, dom, prb):
    """real reader -> P'.  A rejection of the written text by UP's own reader is a violation.  The ai-planning parser
    (third party) accepts a much smaller language (no binary minus, no action without :precondition, requirements
    demanded in the problem file, no signed numbers): text it rejects is outside 'either reader accepts' and the path
    ends without witness -- EXCEPT when the only obstacle is the writer's signed literal '-3', which is not a PDDL
    <number> (the same text with (- 3) parses): that is reported."""
    from pyparsing import ParseBaseException
    from unified_planning.exceptions import UPException

    def parse(d, p):
        with tvio.global_env(env), warnings.catch_warnings():
            warnings.simplefilter("ignore")
            return _reader(env, which).parse_problem_string(d, p)

    try:
        return parse(dom, prb)
    except (ParseBaseException, SyntaxError, UPException) as e:
        ctx.fail(f"{which}:rejected:{type(e).__name__}", f"the {which} reader rejects the text the writer produced: {type(e).__name__}: {str(e)[:300]}\n{dom}\n{prb}")
    except Exception as e:
        if not (which == "ai" and _third_party(e)):
            raise
        why = f"{type(e).__name__}: {str(e)[:160]}"
    i0, i1 = prb.index("(:init"), prb.index("(:goal")
    if NEG_LIT.search(dom + prb[i1:]) and not NEG_LIT.search(prb[i0:i1]):
        dom2 = re.sub(r"(?<![\w?.-])-(\d+(\.\d+)?)", r"(- \1)", dom)
        prb2 = prb[:i1] + re.sub(r"(?<![\w?.-])-(\d+(\.\d+)?)", r"(- \1)", prb[i1:])
        try:
            parse(dom2, prb2)
            ok = True
        except Exception:
            ok = False
        if ok:
            ctx.fail("ai:rejected:negative-literal",
                     f"the ai-planning parser rejects the written text ({why}) only because of the signed literal the writer emits "
                     f"(a PDDL <number> is unsigned; with (- N) instead the same text is accepted)\n{dom}\n{prb}")
    ctx.note("outside", f"text outside the ai-planning grammar: {why}")
    ctx.assume(False)


def _metric_costs(P, actions):
    """-> (kind, per-action cost FNode or None, expression)"""
    ms = P.quality_metrics
    if not ms:
        return ("none", None, None)
    m = ms[0]
    em = P.environment.expression_manager
    if m.is_minimize_sequential_plan_length():
        return ("costs", {a.name: em.Int(1) for a in actions}, None)
    if m.is_minimize_action_costs():
        out = {}
        for a in actions:
            c = m.get_action_cost(a)
            out[a.name] = c if c is not None else em.Int(0)
        return ("costs", out, None)
    if m.is_minimize_expression_on_final_state():
        return ("min-final", None, m.expression)
    if m.is_maximize_expression_on_final_state():
        return ("max-final", None, m.expression)
    if m.is_minimize_makespan():
        return ("makespan", None, None)
    return (type(m).__name__, None, None)


def _compare_metric(ctx, P, P2, rho, RR):
    k1, c1, e1 = _metric_costs(P, P.actions)
    k2, c2, e2 = _metric_costs(P2, P2.actions)
    ctx.check(k1 == k2, "metric-kind-differs", f"quality metric {P.quality_metrics} re-read as {P2.quality_metrics}")
    if c1 is not None:
        for a in P.actions:
            a2 = P2.action(rho.actions[a.name])

            def build(a=a, a2=a2):
                R, R2 = RR()
                return tvio.expr_violation(R, R2, rho, c1[a.name], c2[a2.name], a.parameters, a2.parameters, tag="m"), {}

            ctx.forall(build, None, "metric-cost-differs", f"cost of action {a.name}: {c1[a.name]} re-read as {c2[a2.name]}")
    if e1 is not None:
        def build():
            R, R2 = RR()
            return tvio.expr_violation(R, R2, rho, e1, e2, tag="m"), {}

        ctx.forall(build, None, "metric-expression-differs", f"metric expression {e1} re-read as {e2}")


def _plan_round_trip(ctx, env, which, w, P, P2, rho, R, info, k):
    from unified_planning.engines.plan_validator import SequentialPlanValidator
    from unified_planning.plans import ActionInstance, SequentialPlan

    em = env.expression_manager
    for want_valid in (True, False):
        idx = tvio.find_plan(R, info, k, valid=want_valid, min_len=1)
        if idx is None:
            continue
        steps = [info["gas"][j] for j in idx]
        plan = SequentialPlan([ActionInstance(a, tuple(em.ObjectExp(o) for o in objs)) for a, objs in steps], env)
        text = w.get_plan(plan)
        with tvio.global_env(env):
            rd = _reader(env, which)
            plan2 = rd.parse_plan_string(P2, text)
            back = rd.parse_plan_string(P, text, w.get_item_named)
        got = [(ai.action.name, tuple(str(p) for p in ai.actual_parameters)) for ai in plan2.actions]
        exp = [(rho.actions[a.name], tuple(rho.objects[o.name] for o in objs)) for a, objs in steps]
        ctx.check(got == exp, "plan-instances-differ", f"plan {plan} written as {text!r} parses back (against P') to {got}, expected {exp}")
        ctx.check(back == plan, "plan-inverse-differs", f"plan {plan} written as {text!r} parses back through get_item_named to {back}")
        with tvio.global_env(env):
            v1 = SequentialPlanValidator(environment=env).validate(P, plan).status.name
            v2 = SequentialPlanValidator(environment=env).validate(P2, plan2).status.name
        ctx.check(v1 == v2, "plan-validity-differs", f"plan {plan}: {v1} on the original problem, {v2} on the re-read problem")
        ctx.check((v1 == "VALID") == want_valid, "refsem-disagrees-with-validator",
                  f"harness self-check: R judges plan {plan} {'valid' if want_valid else 'invalid'}, the real validator says {v1}")
        ctx.note("plan-valid" if want_valid else "plan-invalid", text)


def h_rt(ctx, sk, k, pool, rows, schemes=None, readers=None, flags=None):
    """one classical/numeric program x one reader"""
    from vf.refsem import Ref

    schemes = schemes or SCHEME_IDS
    readers = readers or READERS
    pl = POOLS[pool]
    which = readers[ctx.choice("reader", len(readers))]
    ni = ctx.choice("names", len(schemes))
    ii = ctx.choice("init", len(tvio.INIT_PATTERNS))
    cv = ctx.choice("consts", len(pl))
    tie = ctx.choice("tie", 2)
    if rows is not None:
        ctx.assume([ni, ii, cv, tie] in rows)
    env = ctx.fresh_env()
    vals = tvio.leaf_values(cv, pl, _int_pool(pl) if sk.get("ntype", "int") == "int" else None, tie=bool(tie))
    flags = dict(flags or {})
    if which == "ai":
        # The ai-planning parser (third party) crashes on an action without :precondition and reads ':precondition ()' as
        # (or) = false: for this reader an action of the family that has no precondition gets one (p(x) / not p(x)).
        flags.pop("empty_preconditions", None)
        if sk.get("effs") is not None and not sk.get("pre"):
            sk = dict(sk, pre=[2])
        if sk.get("second_action") and not sk.get("pre2"):
            sk = dict(sk, pre2=[12])
        if not sk.get("ai_raw"):
            # two recorded findings (shards *-airaw) would end nearly every path of this reader: the writer's signed literal
            # '-3' (rejected by the ai-planning grammar) and the converter's Fraction(float) for decimals such as 0.3.
            # Everywhere else this reader sees |v| and 1/4 instead of 3/10, and (the ai-planning ProblemParser wants the
            # requirements repeated in the problem file) a goal that needs no requirement.
            vals = {k_: (tvio.Fraction(1, 4) if abs(v) == tvio.Fraction(3, 10) else abs(v)) for k_, v in vals.items()}
            if "ai_goal" in sk:
                sk = dict(sk, goal=sk["ai_goal"])
    g = tvio.build(ctx, env, sk, tvio.SCHEMES[schemes[ni]], vals, tvio.INIT_PATTERNS[ii])
    P = g.problem
    ctx.note("program", dict(skeleton=tvio.describe(sk), names=schemes[ni], reader=which, consts={k_: str(v) for k_, v in vals.items()}))
    w, dom, prb = _write(ctx, P, **flags)
    rho = _rho(w, P)
    P2 = _read(ctx, env, which, dom, prb)
    tvio.compare_static(ctx, P, P2, rho, numeric_as_real=True)
    box = {}

    def RR():
        if "R" not in box:
            box["R"] = Ref(P)
            box["R2"] = tvio.aligned_ref(box["R"], P2, rho)
        return box["R"], box["R2"]

    def build():
        R, R2 = RR()
        viol, info = tvio.bisim(R, R2, rho, k)
        box["info"] = info
        return viol, {f"act{i}": c for i, c in enumerate(info["choice"])}

    ctx.forall(build, None, "bisimulation",
               f"some state reachable within {k} steps has a ground action whose applicability or successor (or the goal verdict) differs "
               f"between the problem and its re-read copy\n{dom}\n{prb}")
    _compare_metric(ctx, P, P2, rho, RR)
    _plan_round_trip(ctx, env, which, w, P, P2, rho, box["R"], box["info"], k)
    ctx.witness("program")


# ---------------------------------------------------------------------------------------------------------------
# temporal programs (slot-wise comparison)
# ---------------------------------------------------------------------------------------------------------------
def _temporal(ctx, env, nm, vals, variant):
    """two durative programs + timed initial effects"""
    from unified_planning.model import (ClosedTimeInterval, DurativeAction, EndTiming, GlobalStartTiming, OpenTimeInterval,
                                        StartTiming, Variable)
    from unified_planning.model import metrics as M

    sk = dict(effs=None, goal=[0, 2], ntype="real", undef_u=False)
    g = tvio.build(ctx, env, sk, nm, vals, tvio.INIT_PATTERNS[variant % 4])
    em, P = g.em, g.problem
    F = em.FluentExp
    C = lambda name: tvio._num(em, vals[name])  # noqa: E731
    da = DurativeAction(nm["a"], _parameters=tvio._odict(nm["x"], g.T), _env=env)
    x = em.ParameterExp(da.parameter(nm["x"]))
    dur_lo, dur_hi = sorted([abs(vals["t1"]) + 1, abs(vals["t2"]) + 2])
    if variant % 2 == 0:
        da.set_fixed_duration(tvio._num(em, dur_lo))
        da.add_condition(StartTiming(), F(g.p, [x]))
        da.add_condition(OpenTimeInterval(StartTiming(), EndTiming()), g.cond(6, x))
        da.add_condition(EndTiming(), em.Not(F(g.b)))
        da.add_effect(StartTiming(), F(g.p, [x]), em.FALSE())
        da.add_effect(EndTiming(), F(g.p, [x]), em.TRUE(), g.cond(4, x))
        da.add_increase_effect(EndTiming(), F(g.n), C("d"))
        y = Variable(nm["y"], g.T, env)
        da.add_effect(EndTiming(), F(g.p, [em.VariableExp(y)]), em.FALSE(), em.Not(em.Equals(em.VariableExp(y), x)), forall=[y])
    else:
        # closed, left-open, right-open or open duration interval (each side has its own comparison in the text)
        setter = (da.set_closed_duration_interval, da.set_left_open_duration_interval, da.set_right_open_duration_interval,
                  da.set_open_duration_interval)[ctx.choice("dur_ivl", 4)]
        setter(tvio._num(em, dur_lo), em.Plus(F(g.u), tvio._num(em, dur_hi)))
        # closed, left-open or right-open start-to-end interval (half-open ones exercise both slot guards of the writer)
        from unified_planning.model import LeftOpenTimeInterval, RightOpenTimeInterval
        ivl = (ClosedTimeInterval, LeftOpenTimeInterval, RightOpenTimeInterval)[ctx.choice("ivl", 3)]
        da.add_condition(ivl(StartTiming(), EndTiming()), g.cond(8, x))
        da.add_condition(StartTiming(), g.cond(15, x))
        da.add_decrease_effect(StartTiming(), F(g.n), em.Minus(C("d"), F(g.u)))
        da.add_effect(StartTiming(), F(g.b), em.TRUE(), g.cond(19, x))
        da.add_effect(EndTiming(), F(g.n), em.Div(F(g.n), em.Int(2)))
    P.add_action(da)
    if variant >= 2:
        ia = g.mk_action("a2", [12], [10, 2], 2)
        P.add_action(ia)
        P.add_timed_effect(GlobalStartTiming(tvio.Fraction(5, 2) if variant == 2 else 3), F(g.b), em.TRUE())
        P.add_timed_effect(GlobalStartTiming(7), F(g.p, [em.ObjectExp(g.o2)]), em.FALSE())
        if variant == 3:
            P.add_timed_effect(GlobalStartTiming(tvio.Fraction(1, 8)), F(g.n), C("c1"))
            P.add_quality_metric(M.MinimizeMakespan(environment=env))
        else:
            P.add_quality_metric(M.MinimizeActionCosts({da: C("k1") if vals["k1"] >= 0 else em.Int(4), ia: em.Int(1)}, environment=env))
    return g


def _slots(act):
    """PDDL slots of a durative action: conditions at start / over all / at end, effects at start / at end"""
    conds = dict(start=[], overall=[], end=[])
    for iv, cl in act.conditions.items():
        lo, up = iv.lower, iv.upper
        assert lo.delay == 0 and up.delay == 0
        if lo == up:
            conds["start" if lo.is_from_start() else "end"].extend(cl)
        else:
            assert lo.is_from_start() and up.is_from_end()
            if not iv.is_left_open():
                conds["start"].extend(cl)
            conds["overall"].extend(cl)
            if not iv.is_right_open():
                conds["end"].extend(cl)
    effs = dict(start=[], end=[])
    for t, el in act.effects.items():
        assert t.delay == 0
        effs["start" if t.is_from_start() else "end"].extend(el)
    return conds, effs


def h_temporal(ctx, k, pool, schemes=None, variants=4, rows=None):
    from unified_planning.model import DurativeAction
    from vf.refsem import Ref

    schemes = schemes or SCHEME_IDS
    pl = POOLS[pool]
    which = "up"  # the ai-planning grammar has no durative actions / timed literals
    variant = ctx.choice("variant", variants)
    ni = ctx.choice("names", len(schemes))
    cv = ctx.choice("consts", len(pl))
    if rows is not None:
        ctx.assume([ni, cv] in rows)
    env = ctx.fresh_env()
    vals = tvio.leaf_values(cv, pl)
    g = _temporal(ctx, env, tvio.SCHEMES[schemes[ni]], vals, variant)
    P = g.problem
    ctx.note("program", dict(temporal_variant=variant, names=schemes[ni], consts={k_: str(v) for k_, v in vals.items()}))
    w, dom, prb = _write(ctx, P)
    rho = _rho(w, P)
    P2 = _read(ctx, env, which, dom, prb)
    tvio.compare_static(ctx, P, P2, rho, numeric_as_real=True)
    box = {}

    def RR():
        if "R" not in box:
            box["R"] = Ref(P)
            box["R2"] = tvio.aligned_ref(box["R"], P2, rho)
        return box["R"], box["R2"]

    text = f"\n{dom}\n{prb}"
    for a in P.actions:
        a2 = P2.action(rho.actions[a.name])
        ctx.check(type(a) is type(a2), "action-class-differs", f"{a.name}: {type(a).__name__} re-read as {type(a2).__name__}")
        if not isinstance(a, DurativeAction):
            ctx.forall(lambda a=a, a2=a2: (tvio.slot_violation(*RR(), rho, a.parameters, a2.parameters, a.preconditions, a2.preconditions,
                                                               a.effects, a2.effects, "s"), {}),
                       None, "instantaneous-action-differs", f"action {a.name} differs after the round trip" + text)
            continue
        d1, d2 = a.duration, a2.duration
        ctx.check((d1.is_left_open(), d1.is_right_open()) == (d2.is_left_open(), d2.is_right_open()), "duration-openness-differs",
                  f"{a.name}: duration {d1} re-read as {d2}")
        for side in ("lower", "upper"):
            ctx.forall(lambda side=side, d1=d1, d2=d2, a=a, a2=a2: (tvio.expr_violation(*RR(), rho, getattr(d1, side), getattr(d2, side),
                                                                                        a.parameters, a2.parameters, tag="d"), {}),
                       None, f"duration-{side}-differs", f"{a.name}: duration {d1} re-read as {d2}" + text)
        c1, e1 = _slots(a)
        c2, e2 = _slots(a2)
        for slot in ("start", "overall", "end"):
            ctx.forall(lambda slot=slot, a=a, a2=a2, c1=c1, c2=c2: (tvio.slot_violation(*RR(), rho, a.parameters, a2.parameters, c1[slot], c2[slot],
                                                                                        [], [], "c"), {}),
                       None, f"condition-{slot}-differs", f"{a.name}: conditions holding {slot}: {c1[slot]} re-read as {c2[slot]}" + text)
        for slot in ("start", "end"):
            ctx.forall(lambda slot=slot, a=a, a2=a2, e1=e1, e2=e2: (tvio.slot_violation(*RR(), rho, a.parameters, a2.parameters, [], [],
                                                                                        e1[slot], e2[slot], "e"), {}),
                       None, f"effects-{slot}-differ", f"{a.name}: effects at {slot}: {e1[slot]} re-read as {e2[slot]}" + text)
    # timed initial effects: same time points, same transition per time point
    # (GlobalStartTiming(d) is re-read as StartTiming(d); at problem level both denote 'd after the start of the plan')
    t1 = {(t.is_from_start(), tvio.Fraction(t.delay)): el for t, el in P.timed_effects.items()}
    t2 = {(t.is_from_start(), tvio.Fraction(t.delay)): el for t, el in P2.timed_effects.items()}
    ctx.check(set(t1) == set(t2), "timed-effect-times-differ", f"timed effects at {sorted(map(str, t1))} re-read at {sorted(map(str, t2))}" + text)
    for key in t1:
        ctx.forall(lambda key=key: (tvio.slot_violation(*RR(), rho, [], [], [], [], t1[key], t2[key], "t"), {}),
                   None, "timed-effect-differs", f"timed effects at {key}: {t1[key]} re-read as {t2[key]}" + text)

    def goal_build():
        import z3
        R, R2 = RR()
        s = R.fresh_state("g")
        return z3.And(R.state_wf(s), R.goal(s) != R2.goal(tvio.map_state(R, R2, rho, s))), {}

    ctx.forall(goal_build, None, "goal-differs", "goal verdict differs in some state" + text)
    _compare_metric(ctx, P, P2, rho, RR)
    _tt_plan_round_trip(ctx, env, which, w, P, P2, rho)
    ctx.witness("program")


TT_TIMES = [(0, 1), (tvio.Fraction(1, 2), tvio.Fraction(5, 2)), (tvio.Fraction(5, 4), tvio.Fraction(1, 2)), (3, tvio.Fraction(7, 4)),
            (tvio.Fraction(1, 10), tvio.Fraction(3, 10)), (tvio.Fraction(9, 4), 2)]


def _tt_plan_round_trip(ctx, env, which, w, P, P2, rho):
    """time-triggered plans (start times and durations with finite decimal expansions, start != duration so that a swapped column
    shows): written with get_plan, parsed back against P' and against P; same instances, times and durations; same verdict of the
    real TimeTriggeredPlanValidator on (P, plan) and (P', plan')."""
    from unified_planning.engines.plan_validator import TimeTriggeredPlanValidator
    from unified_planning.model import DurativeAction
    from unified_planning.plans import ActionInstance, TimeTriggeredPlan

    em = env.expression_manager
    objs = list(P.all_objects)
    for shift in range(3):
        items = []
        for j, a in enumerate(P.actions):
            for r in range(2):
                st, du = TT_TIMES[(2 * j + r + 2 * shift) % len(TT_TIMES)]
                params = tuple(em.ObjectExp(objs[(j + r + i) % len(objs)]) for i, _p in enumerate(a.parameters))
                items.append((tvio.Fraction(st) + 4 * r, ActionInstance(a, params), tvio.Fraction(du) if isinstance(a, DurativeAction) else None))
        plan = TimeTriggeredPlan(items, env)
        text = w.get_plan(plan)
        with tvio.global_env(env):
            rd = _reader(env, which)
            plan2 = rd.parse_plan_string(P2, text)
            back = rd.parse_plan_string(P, text, w.get_item_named)
        got = sorted((tvio.Fraction(t), ai.action.name, tuple(str(x) for x in ai.actual_parameters), None if d is None else tvio.Fraction(d))
                     for t, ai, d in plan2.timed_actions)
        exp = sorted((t, rho.actions[ai.action.name], tuple(rho.objects[x.object().name] for x in ai.actual_parameters), d) for t, ai, d in items)
        ctx.check(got == exp, "tt-plan-instances-differ", f"time-triggered plan written as {text!r} parses back (against P') to {got}, expected {exp}")
        ctx.check(back == plan, "tt-plan-inverse-differs", f"time-triggered plan {plan} written as {text!r} parses back through get_item_named to {back}")

        def verdict(prob, pl):
            try:
                with tvio.global_env(env):
                    return TimeTriggeredPlanValidator(environment=env).validate(prob, pl).status.name
            except Exception as e:  # noqa: BLE001 -- the same refusal on both sides is agreement
                return "raises " + type(e).__name__

        v1, v2 = verdict(P, plan), verdict(P2, plan2)
        ctx.check(v1 == v2, "tt-plan-validity-differs", f"time-triggered plan {text!r}: {v1} on the original problem, {v2} on the re-read problem")
        ctx.witness("tt-plan")


# ---------------------------------------------------------------------------------------------------------------
# the readers' environment argument (no redirection here)
# ---------------------------------------------------------------------------------------------------------------
def h_env(ctx, sk):
    """reader given a fresh (non-global) environment, as its `environment` argument documents: the re-read problem
    must live in it.  No global-environment redirection on this path."""
    which = READERS[ctx.choice("reader", 2)]
    env = ctx.fresh_env()
    vals = {k_: abs(v) for k_, v in tvio.leaf_values(0, tvio.CONST_POOL, _int_pool(tvio.CONST_POOL)).items()}
    g = tvio.build(ctx, env, sk, tvio.SCHEMES["plain"], vals, tvio.INIT_PATTERNS[1])
    w, dom, prb = _write(ctx, g.problem)
    with warnings.catch_warnings():
        warnings.simplefilter("ignore")
        P2 = _reader(env, which).parse_problem_string(dom, prb)
    ctx.check(P2.environment is env, "env:problem-in-other-environment", "the re-read problem is not in the reader's environment")
    ctx.witness("program")


# ---------------------------------------------------------------------------------------------------------------
# shards
# ---------------------------------------------------------------------------------------------------------------
# (skeleton, comment).  Every template of the fragment at least once; numeric skeletons in an int and a real flavour.
SKELETONS = [
    dict(pre=[4], effs=[2, 1], effcond=4, goal=[0]),                                        # 0 inc + conditional Boolean
    dict(pre=[2], effs=[0, 1], effcond=2, goal=[0]),                                        # 1 add-after-delete
    dict(pre=[], effs=[4, 5], effcond=0, goal=[5], ntype="real"),                           # 2 two assignments (conflict iff values differ)
    dict(pre=[1], effs=[2, 9, 3], effcond=6, goal=[4], ntype="real"),                       # 3 inc/dec accumulate
    dict(pre=[6], effs=[6, 10], goal=[7], ai_goal=[2], three_objects=True),                              # 4 forall effect, exists goal
    dict(pre=[3], effs=[12, 15], goal=[16], ai_goal=[0], second_action=[10, 0], pre2=[12]),              # 5 equality, implies goal, 2 actions
    dict(pre=[9], effs=[12], goal=[0], second_action=[11], pre2=[], undef_u=True),          # 6 undefined read, defining u
    dict(pre=[8], effs=[13, 0], goal=[12], ai_goal=[0], three_objects=True),                             # 7 forall conditional effect
    dict(pre=[13], effs=[8], goal=[5]),                                                     # 8 fluent-dependent assignment
    dict(pre=[15], effs=[18, 12], goal=[22], ntype="real", undef_u=False),                  # 9 order-sensitive -, /, GT
    dict(pre=[18], effs=[19, 16], effcond=17, goal=[4], ntype="real", undef_u=False),       # 10 nested * + -, iff condition, division in value
    dict(pre=[19], effs=[20, 0], goal=[20], ai_goal=[2], three_objects=True),                            # 11 nested quantifiers over parameter / variables
    dict(pre=[21], effs=[22, 1], effcond=19, goal=[21], ai_goal=[0, 2]),                                    # 12 deep and/or; effect condition with own quantifier under forall effect
    dict(pre=[12], effs=[17, 12], goal=[0], ntype="real", undef_u=True, second_action=[21, 10], pre2=[]),  # 13 values read an undefined fluent
    dict(pre=[], effs=[5, 16, 0], effcond=4, goal=[1], ai_goal=[4], second_action=[3], pre2=[5]),        # 14 conditional assign + decrease
    dict(pre=[4], effs=[2, 10], goal=[2], metric="cost-const", second_action=[12], pre2=[]),        # 15 action costs (constant, default)
    dict(pre=[4], effs=[2, 12], goal=[0], metric="cost-fluent", ntype="real", second_action=[3]),   # 16 action cost depends on a fluent
    dict(pre=[2], effs=[15, 12], goal=[0], metric="length", second_action=[10], pre2=[12]),         # 17 plan length
    dict(pre=[], effs=[2, 12], goal=[0], metric="min-final", ntype="real"),                         # 18 final-value metric
    dict(pre=[], effs=[3, 12], goal=[0], metric="max-final", second_action=[4]),                    # 19
]


def _rows(n_schemes, n_init, n_consts, n):
    """covering rows (every scheme, every init pattern, every constant assignment at least once)"""
    rows = [[i % n_schemes, (i // 2) % n_init, (i * 3 + i // n_consts) % n_consts, 0] for i in range(n)]
    # + boundary rows (tie: comparison constants equal to the initial value), one per 4 ordinary rows
    rows += [[(3 * i + 1) % n_schemes, i % n_init, (2 * i) % n_consts, 1] for i in range(max(2, n // 4))]
    return rows


def shards(tier, seed):
    out = []
    ns, ni = len(SCHEME_IDS), len(tvio.INIT_PATTERNS)
    if tier == "quick":
        nc = len(POOLS["quick"])
        for i, sk in enumerate(SKELETONS):
            out.append(dict(name=f"sk{i:02d}", fn="h_rt", engine="direct", budget=600, query_timeout=60,
                            kwargs=dict(sk=sk, k=2, pool="quick", rows=_rows(ns, ni, nc, 24))))
        for i in (0, 3):  # the raw pool (negative numbers, 3/10) for the ai-planning reader
            out.append(dict(name=f"sk{i:02d}-airaw", fn="h_rt", engine="direct", budget=120, query_timeout=60,
                            kwargs=dict(sk=dict(SKELETONS[i], ai_raw=True), k=2, pool="quick", rows=_rows(ns, ni, nc, 14), readers=["ai"])))
        out.append(dict(name="temporal", fn="h_temporal", engine="direct", budget=600, query_timeout=60,
                        kwargs=dict(k=2, pool="quick", schemes=["plain", "upper", "pkw_t", "lsym"],
                                    rows=[[i % 4, (2 * i + i // 4) % nc] for i in range(8)])))
        out.append(dict(name="env-readers", fn="h_env", engine="direct", budget=60, kwargs=dict(sk=SKELETONS[7])))
    else:
        nc = len(POOLS["thorough"])
        for i, sk in enumerate(SKELETONS):
            out.append(dict(name=f"t-sk{i:02d}", fn="h_rt", engine="direct", budget=3000, query_timeout=120,
                            kwargs=dict(sk=sk, k=3, pool="thorough", rows=_rows(ns, ni, nc, 88))))
            out.append(dict(name=f"t-sk{i:02d}-flags", fn="h_rt", engine="direct", budget=1500, query_timeout=120,
                            kwargs=dict(sk=sk, k=3, pool="thorough", rows=_rows(ns, ni, nc, 16),
                                        flags=dict(rewrite_bool_assignments=True, empty_preconditions=True))))
        out.append(dict(name="t-temporal", fn="h_temporal", engine="direct", budget=3000, query_timeout=120,
                        kwargs=dict(k=3, pool="thorough")))
        out.append(dict(name="t-env-readers", fn="h_env", engine="direct", budget=60, kwargs=dict(sk=SKELETONS[7])))
    return out


MANIFEST = dict(
    engine="direct",
    technique="translation validation: the real PDDLWriter and both real PDDL readers run concretely on every member of a bounded family of "
              "problems (choice-driven identifiers, constants, structure); z3 decides one-step bisimulation between each problem and its re-read "
              "copy over all states reachable within k steps (BMC over a reference semantics encoding both sides on shared state terms), metric "
              "equality over all states, and supplies valid/invalid plans for the plan round trip judged by the real validator",
    text="For every program of the stated family and both readers: objects, signatures and initial state equal under the writer's renaming; "
         "no state reachable within k steps distinguishes the problem from its re-read copy by applicability, successor or goal verdict; "
         "metrics agree in every state; written plans parse back to the same instances with the same validity. Durative actions and timed "
         "initial effects are compared slot by slot (semantically, over all states), not by temporal model checking.",
    note="Not symbolic: numeric literals and identifiers (text round trips realise under CrossHair) -- the claim is per pool member. "
         "Trusted: R (pinned to the real simulator by C01/C02), z3. The readers run with the global environment redirected to the path's "
         "environment because they ignore part of their environment argument (reported by the env-readers shard).",
)
