"""C20 Protobuf round trip is lossless.

(a) `h_type_str` (symex): the type-string kernel  convert_type_str(proto_type(T))  and the fluent / parameter / fluent-expression
    messages that carry it, for int and real types with EVERY combination of finite / infinite bounds (forks) and bound values the
    solver draws from windows around 0, +-1, +-2^31, +-2^63 (beyond int64) and 10^20 (reals: numerators from the windows over the
    denominators 1, 3 and 10^20+7).  The values are realised before the type is built (str(int) realises them anyway): the claim
    is "all 4 x 2 bound shapes x every value of the windows", not "all values".
(b) `h_timing` (symex): Timing / Timepoint (4 kinds x container or none) with a solver-drawn delay (int or rational), TimeInterval and
    DurationInterval with the four open/closed combinations, the timing expression node (walk_timing_exp), through the real
    ProtobufWriter / ProtobufReader.  A value outside int64 may be refused by the writer (protobuf ValueError: "does not accept");
    anything the writer accepts must read back equal.
(c) `h_problem`, `h_example`, `h_results` (direct engine, concrete): whole-object round trips  reader.convert(writer.convert(x)) == x
    (and equal kind, equal hash) for choice-generated problems (half-bounded int/real fluents, big / negative rationals, every duration and
    timing form inside a durative action, timed goals and effects), for every bundled example problem with its plans
    (sequential, time-triggered, hierarchical, schedules), for CompilerResult (grounder) and ValidationResult objects.
"""
from fractions import Fraction

PROPERTY = "C20"
LEVEL = "exploration"
FUNCTIONS = [
    "unified_planning.grpc.proto_writer:proto_type",
    "unified_planning.grpc.proto_reader:convert_type_str",
    "unified_planning.grpc.proto_writer:ProtobufWriter._convert_fluent",
    "unified_planning.grpc.proto_reader:ProtobufReader._convert_fluent",
    "unified_planning.grpc.proto_writer:ProtobufWriter._convert_action_parameter",
    "unified_planning.grpc.proto_reader:ProtobufReader._convert_parameter",
    "unified_planning.grpc.proto_writer:FNode2Protobuf.walk_timing_exp",
    "unified_planning.grpc.proto_writer:FNode2Protobuf.walk_fluent_exp",
    "unified_planning.grpc.proto_writer:FNode2Protobuf.walk_real_constant",
    "unified_planning.grpc.proto_reader:ProtobufReader._convert_expression",
    "unified_planning.grpc.proto_writer:ProtobufWriter._convert_timing",
    "unified_planning.grpc.proto_writer:ProtobufWriter._convert_timepoint",
    "unified_planning.grpc.proto_writer:ProtobufWriter._convert_time_interval",
    "unified_planning.grpc.proto_writer:ProtobufWriter._convert_duration_interval",
    "unified_planning.grpc.proto_reader:ProtobufReader._convert_timing",
    "unified_planning.grpc.proto_reader:ProtobufReader._convert_timepoint",
    "unified_planning.grpc.proto_reader:ProtobufReader._convert_timed_interval",
    "unified_planning.grpc.proto_reader:ProtobufReader._convert_duration",
    "unified_planning.grpc.proto_writer:ProtobufWriter._convert_problem",
    "unified_planning.grpc.proto_reader:ProtobufReader._convert_problem",
    "unified_planning.grpc.proto_writer:ProtobufWriter._convert_scheduling_problem",
    "unified_planning.grpc.proto_reader:ProtobufReader._convert_scheduling_problem",
    "unified_planning.grpc.proto_writer:ProtobufWriter._convert_durative_action",
    "unified_planning.grpc.proto_reader:ProtobufReader._convert_action",
    "unified_planning.grpc.proto_writer:ProtobufWriter._convert_sequential_plan",
    "unified_planning.grpc.proto_writer:ProtobufWriter._convert_time_triggered_plan",
    "unified_planning.grpc.proto_writer:ProtobufWriter._convert_hierarchical_plan",
    "unified_planning.grpc.proto_writer:ProtobufWriter._convert_schedule",
    "unified_planning.grpc.proto_reader:ProtobufReader._convert_plan",
    "unified_planning.grpc.proto_writer:ProtobufWriter._convert_compiler_result",
    "unified_planning.grpc.proto_reader:ProtobufReader._convert_compiler_result",
    "unified_planning.grpc.proto_writer:ProtobufWriter._convert_validation_result",
    "unified_planning.grpc.proto_reader:ProtobufReader._convert_validation_result",
]
BOUNDS = ("(a) int/real types: 4 bound shapes x bound values in windows of width 3 (quick) / 5 (thorough) around 0, +-2^31, -2^63-1, 2^63, 10^20; real "
          "denominators 1, 3, 10^20+7; (b) 4 timepoint kinds x {no container, container of a declared action} x delays k/den with k in windows around 0, -1, "
          "2^31, 2^63-1 and den in {1, 3, 2^40+1}; 4 open/closed combinations; (c) generated problems: <= 2 numeric fluents with the 8 bound shapes, constants "
          "from a pool of 8 (Fraction(-10**18, 3), 2^63-1, -2^63, ...), one durative action over every duration form and 6 timing forms, timed goal / timed "
          "effect; all bundled example problems and their plans; grounder CompilerResult on 6 examples; ValidationResult of both built-in validators on the "
          "examples' plans (valid) and on broken plans (invalid)")
OUTSIDE = ("values outside the windows (bound values are realised: the protobuf C extension and str(int) are realisation boundaries, so 'rationals of any size' is "
           "checked at the solver-drawn sizes only); numerators/denominators beyond int64 in constants and delays are refused by the writer (protobuf int64 fields) "
           "and therefore outside the property's antecedent; PlanGenerationResult; gRPC transport; scheduling problems in a non-global environment "
           "(the scheduling model classes themselves ignore the problem's environment)")
ASSUMPTIONS = ["objects are compared with the library's own __eq__ (and hash) in one environment; the reader is given the environment of the original",
               "ValidationResult: the fields for which the protobuf schema has no slot (trace, calculated_interpreted_functions -- as in the repository's own "
               "test -- ) are dropped before comparing; every other field is compared",
               "bundled examples are built by unified_planning.test.examples with the fresh environment installed as the global one for the duration of the call"]


# ---- helpers ----------------------------------------------------------------------------------------------------------
class _as_global:
    """Installs `env` as the library's global environment for the duration of a block.  The reader builds actions, objects and
    metrics without passing an environment (see shard c-nonglobal-environment), i.e. in the global one; with the fresh environment
    installed as the global one everything lives in `env`, as the harness rules demand."""

    def __init__(self, env):
        self.env = env

    def __enter__(self):
        import unified_planning.environment as upenv

        self.old = upenv.GLOBAL_ENVIRONMENT
        upenv.GLOBAL_ENVIRONMENT = self.env
        return self.env

    def __exit__(self, *exc):
        import unified_planning.environment as upenv

        upenv.GLOBAL_ENVIRONMENT = self.old
        return False


def _fresh_global(fn):
    """Harness decorator: env = ctx.fresh_env(), installed as the global environment while the harness body runs."""
    def harness(ctx, **kwargs):
        env = ctx.fresh_env(hashcons="syntactic")
        with _as_global(env):
            return fn(ctx, env, **kwargs)
    harness.__name__ = fn.__name__
    harness.__doc__ = fn.__doc__
    return harness


def _rw():
    import unified_planning.shortcuts  # noqa: F401  (proto_reader needs unified_planning.engines to be imported)
    from unified_planning.grpc.proto_reader import ProtobufReader
    from unified_planning.grpc.proto_writer import ProtobufWriter

    return ProtobufWriter(), ProtobufReader()


CENTERS = [0, -(2 ** 31), 2 ** 31, -(2 ** 63) - 1, 2 ** 63, 10 ** 20]


def _value(ctx, name, centers, width):
    """A solver-drawn integer from a window around one of the centres, realised (forks over the window)."""
    c = ctx.pick(name + ".window", centers)
    h = width // 2
    return ctx.concrete(ctx.int(name, c - h, c + h))


def _writes(ctx, fn, what):
    """Runs a writer call; a protobuf range error means 'the writer does not accept it' (outside the property)."""
    try:
        return fn()
    except (ValueError, OverflowError) as e:
        if "out of range" in str(e).lower() or "too large" in str(e).lower() or "too big" in str(e).lower() or isinstance(e, OverflowError):
            ctx.witness("writer-refuses-" + what)
            return None
        raise


# ---- (a) type strings ----------------------------------------------------------------------------------------------------
@_fresh_global
def h_type_str(ctx, env, kind, width=3):
    import unified_planning as up
    import unified_planning.shortcuts  # noqa: F401
    from unified_planning.grpc.proto_reader import convert_type_str
    from unified_planning.grpc.proto_writer import proto_type

    tm, em = env.type_manager, env.expression_manager
    lb_fin, ub_fin = ctx.choice("lb_finite", 2), ctx.choice("ub_finite", 2)
    shape = ("lb" if lb_fin else "-inf") + ".." + ("ub" if ub_fin else "inf")
    lb = _value(ctx, "lb", CENTERS, width) if lb_fin else None
    ub = None
    if ub_fin:
        if lb_fin:
            ub = lb + ctx.concrete(ctx.int("span", 0, 2)) * (1 if ctx.choice("span.big", 2) == 0 else 10 ** 19)
        else:
            ub = _value(ctx, "ub", CENTERS, width)
    if kind == "real":
        den = ctx.pick("den", [1, 3, 10 ** 20 + 7])
        lb = None if lb is None else Fraction(lb, den)
        ub = None if ub is None else Fraction(ub, den)
    with ctx.untraced():
        problem = up.model.Problem("p", env)
        T = tm.IntType(lb, ub) if kind == "int" else tm.RealType(lb, ub)
    ctx.note("type", str(T))
    s = proto_type(T)
    try:
        T2 = convert_type_str(s, problem)
    except Exception as e:  # noqa: BLE001  any exception of the reader on the writer's own string is the defect
        ctx.fail(f"type-str:{kind}:{shape}:reader-raises-{type(e).__name__}",
                 f"convert_type_str({s!r}) raises {type(e).__name__}: {e}  (string written by proto_type for {T})")
    ctx.check(T2 is T, f"type-str:{kind}:{shape}:different-type", f"convert_type_str(proto_type({T})) = {T2}")
    # the messages that carry the type string
    w, r = _rw()
    f = up.model.Fluent("f", T, environment=env)
    problem.add_fluent(f)
    for what, build, back in (
        ("fluent", lambda: w.convert(f, problem), lambda m: r.convert(m, problem)),
        ("parameter", lambda: w.convert(up.model.Parameter("x", T, env)), lambda m: r.convert(m, problem)),
        ("fluent-exp", lambda: w.convert(em.FluentExp(f)), lambda m: r.convert(m, problem)),
    ):
        msg = build()
        orig = dict(fluent=f, parameter=up.model.Parameter("x", T, env))[what] if what != "fluent-exp" else em.FluentExp(f)
        try:
            got = back(msg)
        except Exception as e:  # noqa: BLE001
            ctx.fail(f"type-str:{kind}:{shape}:{what}-reader-raises-{type(e).__name__}", f"reading back the {what} message of type {T} raises {type(e).__name__}: {e}")
        ctx.check(got == orig, f"type-str:{kind}:{shape}:{what}-differs", f"{what} of type {T} reads back as {got}")
    ctx.witness(f"{kind}:{shape}")


# ---- (b) timings, intervals, durations -------------------------------------------------------------------------------------
DELAY_CENTERS = [0, -1, 2 ** 31, 2 ** 63 - 1]


def _delay(ctx, name, width, dens=(1, 3, 2 ** 40 + 1)):
    k = _value(ctx, name, DELAY_CENTERS, width)
    den = ctx.pick(name + ".den", list(dens))
    return k if den == 1 else Fraction(k, den)


@_fresh_global
def h_timing(ctx, env, form, width=3):
    import unified_planning as up
    from unified_planning.model.timing import DurationInterval, TimeInterval, Timepoint, TimepointKind, Timing

    em = env.expression_manager
    w, r = _rw()
    with ctx.untraced():
        problem = up.model.Problem("p", env)
        act = up.model.DurativeAction("a", _env=env)
        act.set_fixed_duration(em.Int(1))
        problem.add_action(act)
    kinds = list(TimepointKind)

    def timing(tag, symbolic_delay=True, centers=None, dens=(1, 3, 2 ** 40 + 1)):
        kind = ctx.pick(tag + ".kind", kinds)
        container = "a" if (kind in (TimepointKind.START, TimepointKind.END) and ctx.choice(tag + ".container", 2)) else None
        if symbolic_delay:
            k = _value(ctx, tag + ".delay", centers or DELAY_CENTERS, width)
            den = ctx.pick(tag + ".delay.den", list(dens))
            d = k if den == 1 else Fraction(k, den)
        else:
            d = Fraction(-7, 2)
        return Timing(d, Timepoint(kind, container))

    if form == "timing":
        t = timing("t")
        msg = _writes(ctx, lambda: w.convert(t), "delay")
        if msg is not None:
            back = r.convert(msg)
            ctx.check(back == t, "timing:differs", f"Timing {t} reads back as {back}")
            ctx.check(hash(back) == hash(t), "timing:hash-differs", f"Timing {t}: equal but different hash")
            ctx.witness("timing")
    elif form == "timing-exp":
        t = timing("t")
        node = em.TimingExp(t) if hasattr(em, "TimingExp") else em.auto_promote(t)[0]
        msg = _writes(ctx, lambda: w.convert(node), "delay")
        if msg is not None:
            back = r.convert(msg, problem)
            ctx.check(back == node, "timing-exp:differs", f"timing expression {node} reads back as {back}")
            ctx.witness("timing-exp")
    elif form == "time-interval":
        lo = timing("lo", centers=[0, 2 ** 63 - 1], dens=(1, 3))
        kinds = [TimepointKind.END, TimepointKind.GLOBAL_END]
        hi = timing("hi", symbolic_delay=False)
        lopen, ropen = bool(ctx.choice("left_open", 2)), bool(ctx.choice("right_open", 2))
        iv = TimeInterval(lo, hi, lopen, ropen)
        msg = _writes(ctx, lambda: w.convert(iv), "delay")
        if msg is not None:
            back = r.convert(msg)
            ctx.check(back == iv, "time-interval:differs", f"TimeInterval {iv} reads back as {back}")
            ctx.check(back.is_left_open() == lopen and back.is_right_open() == ropen and back.lower == lo and back.upper == hi,
                      "time-interval:field-differs", f"TimeInterval {iv} reads back as {back}")
            ctx.witness("time-interval")
    elif form == "duration":
        def const(tag):
            v = _delay(ctx, tag, width)
            return (em.Int(v) if isinstance(v, int) else em.Real(v)), v

        lo, _lov = const("lo")
        hiv = ctx.pick("hi", [None, 7, Fraction(2 ** 63 - 1, 3)])  # None: the same node as the lower bound (fixed duration)
        hi = lo if hiv is None else em.Int(hiv) if isinstance(hiv, int) else em.Real(hiv)
        lopen, ropen = bool(ctx.choice("left_open", 2)), bool(ctx.choice("right_open", 2))
        iv = DurationInterval(lo, hi, lopen, ropen)
        msg = _writes(ctx, lambda: w.convert(iv), "constant")
        if msg is not None:
            back = r.convert(msg, problem)
            ctx.check(back == iv, "duration:differs", f"DurationInterval {iv} reads back as {back}")
            ctx.check(back.lower is lo and back.upper is hi and back.is_left_open() == lopen and back.is_right_open() == ropen,
                      "duration:field-differs", f"DurationInterval {iv} reads back as {back}")
            ctx.witness("duration")
    else:
        raise ValueError(form)


# ---- (c) whole objects (direct engine) ----------------------------------------------------------------------------------------
CONSTS = [Fraction(-10 ** 18, 3), 2 ** 63 - 1, -(2 ** 63), Fraction(1, 3), 0, -7, Fraction(2 ** 62, 2 ** 61 - 1), Fraction(5, 2)]
CONST_PAIRS = [(0, 1), (1, 2), (3, 0), (4, 5), (6, 7), (5, 3), (2, 6), (7, 4)]  # indices into CONSTS: every constant occurs on both sides
INT_BOUNDS = [(None, None), (None, 10 ** 20), (-(2 ** 70), None), (-(2 ** 64), 2 ** 64)]
REAL_BOUNDS = [(None, None), (None, Fraction(10 ** 20, 3)), (Fraction(-10 ** 19, 3), None), (Fraction(-10 ** 20, 7), Fraction(10 ** 20, 7))]


def _roundtrip_problem(ctx, problem, env, tag):
    w, r = _rw()
    try:
        msg = w.convert(problem)
    except (ValueError, OverflowError) as e:
        if "out of range" in str(e).lower() or isinstance(e, OverflowError):
            ctx.witness("writer-refuses-problem")
            return None
        raise
    try:
        back = r.convert(msg, env)
    except Exception as e:  # noqa: BLE001
        ctx.fail(f"{tag}:reader-raises-{type(e).__name__}", f"reading back problem {problem.name!r} raises {type(e).__name__}: {e}")
    ctx.check(back == problem, f"{tag}:differs", f"problem {problem.name!r} does not read back equal")
    ctx.check(hash(back) == hash(problem), f"{tag}:hash-differs", f"problem {problem.name!r}: equal but different hash")
    ctx.check(back.kind == problem.kind, f"{tag}:kind-differs",
              f"problem {problem.name!r}: kind {sorted(problem.kind.features)} reads back as {sorted(back.kind.features)}")
    ctx.check(type(back) is type(problem), f"{tag}:class-differs", f"{type(problem).__name__} reads back as {type(back).__name__}")
    return back


@_fresh_global
def h_problem(ctx, env, family):
    """Choice-generated small problems."""
    import unified_planning as up

    p = up.model.Problem("gen", env)
    try:
        _generate(ctx, p, env, family)
    except (up.exceptions.UPTypeError, up.exceptions.UPUsageError, up.exceptions.UPConflictingEffectsException, AssertionError):
        ctx.assume(False)  # the library rejects this candidate model: not an input of the property
    _roundtrip_problem(ctx, p, env, f"problem:{family}")
    ctx.witness(family)


def _generate(ctx, p, env, family):
    import unified_planning as up
    from unified_planning.model.timing import (ClosedDurationInterval, ClosedTimeInterval, EndTiming, FixedDuration, GlobalEndTiming, GlobalStartTiming,
                                                LeftOpenDurationInterval, LeftOpenTimeInterval, OpenDurationInterval, OpenTimeInterval,
                                                RightOpenDurationInterval, RightOpenTimeInterval, StartTiming, TimePointInterval)

    tm, em = env.type_manager, env.expression_manager
    if family == "numeric":
        ib, rb = ctx.pick("int_bounds", INT_BOUNDS), ctx.pick("real_bounds", REAL_BOUNDS)
        n = up.model.Fluent("n", tm.IntType(*ib), environment=env)
        x = up.model.Fluent("x", tm.RealType(*rb), environment=env)
        p.add_fluent(n, default_initial_value=em.Int(0) if ctx.choice("n_default", 2) else None)
        p.add_fluent(x)
        i1, i2 = ctx.pick("consts", CONST_PAIRS)
        c1, c2 = CONSTS[i1], CONSTS[i2]
        k = lambda v: em.Int(v) if isinstance(v, int) else em.Real(v)  # noqa: E731
        if ctx.choice("init_x", 2):
            p.set_initial_value(x, k(c1) if not isinstance(c1, int) else em.Real(Fraction(c1)))
        a = up.model.InstantaneousAction("a", _env=env)
        a.add_precondition(em.LE(em.FluentExp(x), k(c1)))
        a.add_increase_effect(x, k(c2)) if ctx.choice("inc", 2) else a.add_effect(x, em.Plus(em.FluentExp(x), k(c2)))
        a.add_effect(n, em.Int(1))
        p.add_action(a)
        p.add_goal(em.LT(k(c2), em.Times(em.FluentExp(x), k(c1))))
    elif family == "effects":
        # every effect kind (assignment / increase / decrease) in every container (instantaneous action, durative action, timed effect
        # of the problem), unconditional or conditional, plain or universally quantified: each has its own branch in the reader
        T = tm.UserType("T")
        p.add_objects([up.model.Object("o1", T, env), up.model.Object("o2", T, env)])
        b = up.model.Fluent("b", tm.BoolType(), environment=env)
        q = up.model.Fluent("q", tm.BoolType(), environment=env, x=T)
        fl = {kd: up.model.Fluent(f"n_{kd}", tm.IntType(0, 100), environment=env, x=T) for kd in ("assign", "increase", "decrease")}
        p.add_fluent(b, default_initial_value=em.FALSE())
        p.add_fluent(q, default_initial_value=em.FALSE())
        for f in fl.values():
            p.add_fluent(f, default_initial_value=em.Int(5))
        container = ctx.pick("container", ["instantaneous", "durative", "problem"])
        conditional, quantified = ctx.choice("conditional", 2), ctx.choice("forall", 2)
        if quantified and container == "problem":
            ctx.assume(False)  # timed effects of a problem take no forall
        y = up.model.Variable("y", T, env)
        if container == "instantaneous":
            a = up.model.InstantaneousAction("a", _env=env, x=T)
        elif container == "durative":
            a = up.model.DurativeAction("a", _env=env, x=T)
            a.set_fixed_duration(em.Int(2))
        else:
            a = None
        for i, (kd, f) in enumerate(fl.items()):
            target = em.VariableExp(y) if quantified else (em.ParameterExp(a.parameter("x")) if a is not None else em.ObjectExp(p.object("o1")))
            fe = em.FluentExp(f, [target])
            cond = (em.FluentExp(q, [target]) if i else em.FluentExp(b)) if conditional else em.TRUE()
            kw = dict(forall=(y,)) if quantified else {}
            val = em.Int(i + 1)
            if container == "instantaneous":
                getattr(a, {"assign": "add_effect", "increase": "add_increase_effect", "decrease": "add_decrease_effect"}[kd])(fe, val, cond, **kw)
            elif container == "durative":
                t = (StartTiming(), EndTiming(), StartTiming(1))[i]
                getattr(a, {"assign": "add_effect", "increase": "add_increase_effect", "decrease": "add_decrease_effect"}[kd])(t, fe, val, cond, **kw)
            else:
                t = GlobalStartTiming(3 + i)
                getattr(p, {"assign": "add_timed_effect", "increase": "add_increase_effect", "decrease": "add_decrease_effect"}[kd])(t, fe, val, cond)
        if a is not None:
            p.add_action(a)
        p.add_goal(em.FluentExp(b))
    elif family == "temporal":
        b = up.model.Fluent("b", tm.BoolType(), environment=env)
        p.add_fluent(b, default_initial_value=em.FALSE())
        a = up.model.DurativeAction("a", _env=env)
        focus = ctx.pick("focus", ["duration", "timing", "goals"])  # the other groups keep their first alternative

        def opt(group, name, seq):
            return ctx.pick(name, seq) if group == focus else seq[0]

        lo, hi = opt("duration", "dlo", [1, Fraction(1, 3), 0]), opt("duration", "dhi", [5, Fraction(7, 2), 2 ** 40])
        k = lambda v: em.Int(v) if isinstance(v, int) else em.Real(Fraction(v))  # noqa: E731
        dform = opt("duration", "duration", ["closed", "fixed", "open", "left-open", "right-open"])
        a.set_duration_constraint(dict(fixed=lambda: FixedDuration(k(hi)), closed=lambda: ClosedDurationInterval(k(lo), k(hi)),
                                       open=lambda: OpenDurationInterval(k(lo), k(hi)), **{"left-open": lambda: LeftOpenDurationInterval(k(lo), k(hi)),
                                                                                             "right-open": lambda: RightOpenDurationInterval(k(lo), k(hi))})[dform]())
        delay = ctx.pick("delay", [1, 0, Fraction(1, 2), Fraction(-10 ** 15, 7)]) if focus != "duration" else 1
        t1 = opt("timing", "t1", [StartTiming(delay), StartTiming(), EndTiming(), EndTiming() - delay if delay else EndTiming()])
        iform = opt("timing", "interval", ["left-open", "point", "closed", "open", "right-open"])
        iv = dict(point=lambda: TimePointInterval(t1), closed=lambda: ClosedTimeInterval(StartTiming(), EndTiming()),
                  open=lambda: OpenTimeInterval(StartTiming(), EndTiming()), **{"left-open": lambda: LeftOpenTimeInterval(StartTiming(delay), EndTiming()),
                                                                                  "right-open": lambda: RightOpenTimeInterval(StartTiming(), EndTiming())})[iform]()
        a.add_condition(iv, em.Not(em.FluentExp(b)))
        a.add_effect(t1 if t1.delay >= 0 or t1.is_from_end() else StartTiming(), b, em.TRUE())
        p.add_action(a)
        g = opt("goals", "goal", ["timed-interval", "plain", "timed-point"])
        if g == "plain":
            p.add_goal(em.FluentExp(b))
        elif g == "timed-point":
            p.add_timed_goal(GlobalStartTiming(5 if not delay else abs(delay)), em.FluentExp(b))
        else:
            p.add_timed_goal(OpenTimeInterval(GlobalStartTiming(delay if delay and delay > 0 else 1), GlobalEndTiming()), em.FluentExp(b))
        if opt("goals", "timed_effect", [1, 0]):
            p.add_timed_effect(GlobalStartTiming(abs(delay) + 3), b, em.FALSE())
        if opt("goals", "epsilon", [1, 0]):
            p.epsilon = Fraction(1, 1000)
    else:
        raise ValueError(family)


def h_nonglobal_env(ctx, names):
    """The reader's `environment` argument: a problem of a NON-global environment must read back into that environment."""
    env = ctx.fresh_env()
    name = ctx.pick("example", names)
    ex = _examples(env)[name]
    w, r = _rw()
    if type(ex.problem).__name__ == "SchedulingProblem":
        ctx.assume(False)  # the scheduling MODEL itself builds activities/parameters in the global environment: not the reader's doing
    try:
        msg = w.convert(ex.problem)
    except Exception:  # noqa: BLE001  (examples the writer refuses: python callables, continuous effects)
        ctx.assume(False)
    try:
        back = r.convert(msg, env)  # the global environment is a different one here
    except Exception as e:  # noqa: BLE001
        ctx.fail(f"nonglobal-env:reader-raises-{type(e).__name__}",
                 f"example {name}: ProtobufReader.convert(msg, environment) raises {type(e).__name__}: {e}  (environment is not the global one)")
    ctx.check(back.environment is env and back == ex.problem, "nonglobal-env:differs", f"example {name}: problem does not read back equal in its own environment")
    ctx.witness("nonglobal-env")


def _examples(env):
    """The bundled examples, built in `env` (installed as the global environment while the example modules run)."""
    import unified_planning.environment as upenv
    from unified_planning.test.examples import get_example_problems

    old = upenv.GLOBAL_ENVIRONMENT
    upenv.GLOBAL_ENVIRONMENT = env
    try:
        return get_example_problems()
    finally:
        upenv.GLOBAL_ENVIRONMENT = old


def example_names():
    from unified_planning.environment import Environment

    return sorted(_examples(Environment()).keys())


@_fresh_global
def h_example(ctx, env, names):
    """One bundled example per path: the problem, its variants with epsilon / self-overlapping / discrete time, and all its plans."""
    name = ctx.pick("example", names)
    ex = _examples(env)[name]
    problem = ex.problem
    assert problem.environment is env
    kind = problem.kind
    if (kind.has_increase_continuous_effects() or kind.has_decrease_continuous_effects() or kind.has_interpreted_functions_in_durations()
            or kind.has_interpreted_functions_in_boolean_assignments() or kind.has_interpreted_functions_in_numeric_assignments()
            or kind.has_interpreted_functions_in_object_assignments() or kind.has_interpreted_functions_in_conditions()):
        # python callables / continuous effects have no protobuf representation: the writer must refuse or the round trip must hold
        w, _r = _rw()
        try:
            w.convert(problem)
        except Exception:  # noqa: BLE001
            ctx.witness("writer-refuses-example")
            return
    back = _roundtrip_problem(ctx, problem, env, "example")
    if back is None:
        return
    if kind.has_continuous_time():
        q = problem.clone()
        q.epsilon = "2"
        q.self_overlapping = True
        q.discrete_time = True
        _roundtrip_problem(ctx, q, env, "example-variant")
    w, r = _rw()
    for i, plan in enumerate(list(ex.valid_plans) + list(ex.invalid_plans)):
        msg = w.convert(plan)
        try:
            pb = r.convert(msg, problem)
        except Exception as e:  # noqa: BLE001
            ctx.fail(f"plan:{plan.kind.name}:reader-raises-{type(e).__name__}", f"example {name}: reading back plan #{i} raises {type(e).__name__}: {e}")
        ctx.check(pb == plan, f"plan:{plan.kind.name}:differs", f"example {name}: plan #{i} {plan} reads back as {pb}")
        ctx.check(hash(pb) == hash(plan), f"plan:{plan.kind.name}:hash-differs", f"example {name}: plan #{i} equal but different hash")
        ctx.check(pb.kind == plan.kind, f"plan:{plan.kind.name}:kind-differs", f"example {name}: plan kind {plan.kind} reads back as {pb.kind}")
        ctx.witness(f"plan-{plan.kind.name}")
    ctx.witness("example-" + type(problem).__name__)


def _strip(vr):
    import dataclasses

    return dataclasses.replace(vr, trace=None, calculated_interpreted_functions=None)


@_fresh_global
def h_results(ctx, env, names, what):
    """CompilerResult of the grounder / ValidationResult of the built-in validators on bundled examples."""
    import unified_planning as up
    from unified_planning.engines.compilers.grounder import Grounder
    from unified_planning.engines.mixins.compiler import CompilationKind
    from unified_planning.engines.plan_validator import SequentialPlanValidator, TimeTriggeredPlanValidator
    from unified_planning.plans import ActionInstance, PlanKind

    name = ctx.pick("example", names)
    ex = _examples(env)[name]
    problem = ex.problem
    w, r = _rw()
    if what == "compiler":
        if not Grounder.supports(problem.kind):
            return
        res = Grounder().compile(problem, CompilationKind.GROUNDING)
        try:
            msg = w.convert(res)
        except NotImplementedError:
            # "that the protobuf writer accepts": the writer has no message for some operator of this example (interpreted functions);
            # outside the claim iff it refuses the example problem itself for the same reason
            try:
                w.convert(problem)
            except NotImplementedError:
                ctx.witness("writer-refuses-example")
                return
            raise
        back = r.convert(msg, problem)
        ctx.check(back.problem == res.problem, "compiler-result:problem-differs", f"{name}: grounded problem does not read back equal")
        ctx.check(back.problem.kind == res.problem.kind, "compiler-result:kind-differs", f"{name}: grounded problem kind differs")
        ctx.check(back.engine_name == res.engine_name, "compiler-result:engine-differs", f"{name}: engine name {res.engine_name!r} reads back {back.engine_name!r}")
        ctx.check((back.log_messages or []) == (res.log_messages or []) and (back.metrics or None) == (res.metrics or None),
                  "compiler-result:logs-differ", f"{name}: log messages / metrics differ")
        for ga in res.problem.actions:
            ai = ActionInstance(ga)
            o1, o2 = res.map_back_action_instance(ai), back.map_back_action_instance(ai)
            ctx.check((o1 is None) == (o2 is None) and (o1 is None or (o1.action == o2.action and o1.actual_parameters == o2.actual_parameters)),
                      "compiler-result:map-back-differs", f"{name}: map_back({ai}) = {o1} but {o2} after the round trip")
        ctx.witness("compiler-result")
        return
    plans = [(p, True) for p in ex.valid_plans] + [(p, False) for p in ex.invalid_plans]
    for plan, _valid in plans:
        V = SequentialPlanValidator if plan.kind == PlanKind.SEQUENTIAL_PLAN else TimeTriggeredPlanValidator if plan.kind == PlanKind.TIME_TRIGGERED_PLAN else None
        if V is None or not V.supports(problem.kind):
            continue
        v = V(environment=env)
        v.skip_checks = True
        try:
            res = v.validate(problem, plan)
        except Exception:  # noqa: BLE001  the validator's own failures are other properties' business
            continue
        try:
            msg = w.convert(res)
        except Exception as e:  # noqa: BLE001
            ctx.fail(f"validation-result:writer-raises-{type(e).__name__}", f"{name}: writing {res.status.name} ValidationResult raises {type(e).__name__}: {e}")
        back = r.convert(msg)
        a, b = _strip(res), back
        for fld in ("status", "engine_name", "log_messages", "metrics", "metric_evaluations", "reason", "inapplicable_action"):
            va, vb = getattr(a, fld), getattr(b, fld)
            if fld in ("log_messages", "metrics"):
                va, vb = va or None, vb or None
            ctx.check(va == vb, f"validation-result:{fld}-differs", f"{name}: {res.status.name} ValidationResult.{fld} = {va!r} reads back as {vb!r}")
        ctx.witness(f"validation-result-{res.status.name}")


def shards(tier, seed):
    q = tier == "quick"
    out = []
    width = 3 if q else 5
    for kind in ("int", "real"):
        out.append(dict(name=f"a-type-str-{kind}", fn="h_type_str", kwargs=dict(kind=kind, width=width), budget=200 if q else 900, per_path=30))
    for form in ("timing", "timing-exp", "time-interval", "duration"):
        out.append(dict(name=f"b-{form}", fn="h_timing", kwargs=dict(form=form, width=width), budget=200 if q else 900, per_path=30))
    for fam in ("numeric", "temporal", "effects"):
        out.append(dict(name=f"c-problem-{fam}", fn="h_problem", kwargs=dict(family=fam), budget=200 if q else 900, engine="direct"))
    names = example_names()
    n = 6 if q else 3
    for i in range(n):
        out.append(dict(name=f"c-examples-{i}", fn="h_example", kwargs=dict(names=names[i::n]), budget=200 if q else 900, engine="direct"))
    out.append(dict(name="c-nonglobal-environment", fn="h_nonglobal_env", kwargs=dict(names=["basic", "matchcellar", "htn-go", "basic_oversubscription"] if q else names), budget=60 if q else 600, engine="direct"))
    out.append(dict(name="c-compiler-result", fn="h_results",
                    kwargs=dict(names=[x for x in ("basic", "robot", "hierarchical_blocks_world", "robot_fluent_of_user_type", "matchcellar", "robot_loader_adv",
                                                   "counter", "travel") if x in names] if q else names, what="compiler"),
                    budget=200 if q else 900, engine="direct"))
    vn = names if not q else names[::2]
    out.append(dict(name="c-validation-result", fn="h_results", kwargs=dict(names=vn, what="validation"), budget=200 if q else 900, engine="direct"))
    return out


MANIFEST = dict(
    engine="symex+direct",
    technique="(a)(b): symbolic execution driver (CrossHair/z3) over bound shapes / timepoint kinds / open-closed flags with solver-drawn, realised numeric values; "
              "(c): choice-driven bounded enumeration of generated problems and of all bundled examples, plans and engine results through the real "
              "ProtobufWriter / ProtobufReader, compared with the library's own __eq__",
    text="Bounded exploration: every bound shape of int/real types and every timing / interval / duration form is exercised with values from stated windows "
         "(including negative, beyond 2^63 for type strings, near the int64 limits for message fields); whole problems, plans, compiler and validation results "
         "are round-tripped concretely. The solver's role is low: the protobuf C extension and str(int) are realisation boundaries, so values are drawn and realised, not quantified.",
    note="'Rational constants of any size' is checked at the drawn sizes only. Values the writer refuses (protobuf int64 overflow) are outside the property's antecedent and counted separately.",
)
