"""C03 Sequential plan validation decides validity and metric values exactly.

Symbolic: as C01 (initial value, constants, bounds) + metric constants (action cost, gains);
the plan is a sequence of <= k choice variables over the ground action instances, including
the empty plan and plans with inapplicable steps.
Real code: SequentialPlanValidator.validate (-> _validate, UPSequentialSimulator,
evaluate_quality_metric).
Oracle: R unrolled along the same choices: VALID iff every step applicable and the goal holds;
metric value = accumulated cost over pre-states / plan length / final-state expression / gain.
Any exception escaping validate is a violation ("never raises").
Interpretive point: a problem whose INITIAL state violates its invariants or bounds is rejected
with UPProblemDefinitionError by the simulator; such problems are assumed away here (C04 states
that precondition explicitly; C03's text speaks of plans, not of ill-defined problems).
"""
from vf import gen

PROPERTY = "C03"
LEVEL = "model_checking"
FUNCTIONS = [
    "unified_planning.engines.plan_validator:SequentialPlanValidator._validate",
    "unified_planning.engines.sequential_simulator:evaluate_quality_metric",
    "unified_planning.engines.sequential_simulator:UPSequentialSimulator.get_unsatisfied_conditions",
    "unified_planning.engines.sequential_simulator:UPSequentialSimulator.apply_unsafe",
    "unified_planning.engines.sequential_simulator:UPSequentialSimulator.get_unsatisfied_goals",
]
BOUNDS = ("skeleton family G (vf/gen.py) with <= 2 symbolic numeric leaves per shard; plans of length 0..2 (quick: length 2 with one symbolic leaf) / 0..3 (thorough) over all ground "
          "instances; one of 7 metric configurations (none, constant action cost, fluent-dependent action cost, plan length, minimize / maximize "
          "final value, oversubscription incl. a soft goal that reads an undefined fluent) with symbolic cost/gain constants")
OUTSIDE = "longer plans, several metrics (rejected by the validator), real-valued costs with symbolic denominators, temporal metrics"
ASSUMPTIONS = ["problems whose initial state violates invariants/bounds are assumed away (the simulator rejects them with UPProblemDefinitionError)",
               "hash-consing tables keyed syntactically for symbolic constants (S2'); counterexamples are replayed with the real tables",
               "R (vf/refsem.py) is the documented semantics"]

METRICS = ["none", "cost-const", "cost-fluent", "length", "min-final", "max-final", "oversub", "oversub-undef", "oversub-undef-first"]


def _add_metric(ctx, g, kind):
    import unified_planning as up
    from unified_planning.model import metrics as M

    em, env, prob = g.em, g.env, g.problem
    if kind == "none":
        return None
    if kind == "cost-const":
        k = ctx.int("k1", 0, 5)
        m = M.MinimizeActionCosts({g.a: em.Int(k)}, default=em.Int(1), environment=env)
    elif kind == "cost-fluent":
        m = M.MinimizeActionCosts({g.a: em.FluentExp(g.n)}, default=em.Int(1), environment=env)
    elif kind == "length":
        m = M.MinimizeSequentialPlanLength(environment=env)
    elif kind == "min-final":
        m = M.MinimizeExpressionOnFinalState(em.FluentExp(g.n), environment=env)
    elif kind == "max-final":
        m = M.MaximizeExpressionOnFinalState(em.FluentExp(g.n), environment=env)
    elif kind == "oversub":
        g1 = ctx.int("g1", -2, 5)
        m = M.Oversubscription({em.FluentExp(g.b): g1, em.FluentExp(g.p, [em.ObjectExp(g.o1)]): 3,
                                em.LT(em.FluentExp(g.n), em.Int(g.C("c"))): 2}, environment=env)
    elif kind == "oversub-undef":
        m = M.Oversubscription({em.FluentExp(g.b): 2, em.LE(em.FluentExp(g.n), em.FluentExp(g.u)): 5}, environment=env)
    elif kind == "oversub-undef-first":  # the soft goal that reads an undefined fluent comes FIRST: later ones must still count
        m = M.Oversubscription({em.LE(em.FluentExp(g.n), em.FluentExp(g.u)): 5, em.FluentExp(g.b): 2,
                                em.FluentExp(g.p, [em.ObjectExp(g.o1)]): 3}, environment=env)
    else:
        raise ValueError(kind)
    prob.add_quality_metric(m)
    return m


def h_validate(ctx, sk, metric, max_len, lens=None):
    import z3
    from unified_planning.engines.plan_validator import SequentialPlanValidator
    from unified_planning.engines.results import ValidationResultStatus
    from unified_planning.exceptions import UPProblemDefinitionError
    from unified_planning.plans import ActionInstance, SequentialPlan
    from vf.refsem import Ref, _real, znum

    g = gen.build(ctx, sk)
    prob, em, env = g.problem, g.em, g.env
    m = _add_metric(ctx, g, metric)
    instances = [(a, o) for a in g.actions for o in g.objs]
    n = ctx.choice("len", max_len + 1) if lens is None else lens[ctx.choice("len", len(lens))]
    steps = [instances[ctx.choice(f"s{i}", len(instances))] for i in range(n)]
    plan = SequentialPlan([ActionInstance(a, (em.ObjectExp(o),)) for a, o in steps], env)
    v = SequentialPlanValidator(environment=env)
    v.skip_checks = True
    try:
        res = v.validate(prob, plan)
    except UPProblemDefinitionError:
        # ill-defined problem (initial state violates invariants): assumed away, but only if R agrees it is ill-defined
        ctx.forall(lambda: (Ref(prob).initial_ok(), {}), None, "rejected-well-defined-problem",
                   "validate raised UPProblemDefinitionError although the initial state satisfies invariants and bounds")
        ctx.witness("ill-defined-problem")
        return
    real_valid = res.status == ValidationResultStatus.VALID
    ctx.check(res.status in (ValidationResultStatus.VALID, ValidationResultStatus.INVALID), "status", f"status {res.status}")
    if not real_valid:
        ctx.check(res.reason is not None, "invalid-without-reason", "INVALID result without a failure reason")
    mval = None
    if real_valid and m is not None:
        ctx.check(res.metric_evaluations is not None and m in res.metric_evaluations, "metric-missing",
                  "VALID result does not report the value of the problem's quality metric")
        mval = res.metric_evaluations[m]

    def build():
        r = Ref(prob)
        s = r.init_state()
        oks = [r.initial_ok()]
        cost = z3.IntVal(0)
        for a, o in steps:
            b = r.bind(a, [o])
            if metric == "cost-const":
                c = m.get_action_cost(a)
                cost = cost + r.expr(c, s, b).t
            elif metric == "cost-fluent":
                c = m.get_action_cost(a)
                cv = r.expr(c, s, b)
                oks.append(cv.d)
                cost = cost + cv.t
            ok, s = r.step(s, a, b)
            oks.append(ok)
        valid = z3.And(oks + [r.goal(s)])
        if metric in ("min-final", "max-final"):
            fv = r.expr(m.expression, s)
            valid = z3.And(valid, fv.d)  # an undefined final value cannot be reported
            expected = fv.t
        elif metric in ("oversub", "oversub-undef", "oversub-undef-first"):
            expected = z3.Sum([z3.If(r.holds(gl, s), znum(gain), 0) for gl, gain in m.goals.items()])
        elif metric == "length":
            expected = z3.IntVal(len(steps))
        elif metric in ("cost-const", "cost-fluent"):
            expected = cost
        else:
            expected = None
        viol = valid != z3.BoolVal(real_valid)
        if real_valid and expected is not None:
            mv = znum(mval)
            a1, a2 = (_real(mv), _real(expected)) if mv.sort() != expected.sort() else (mv, expected)
            viol = z3.Or(viol, a1 != a2)
        return viol, {}

    ctx.forall(build, None, f"{'valid' if real_valid else 'invalid'}-vs-semantics:{metric}",
               (f"validate says VALID (metric {mval}) but the documented semantics disagrees on validity or metric value" if real_valid
                else "validate says INVALID but the plan is executable and reaches the goal under the documented semantics"))
    ctx.witness(f"{'valid' if real_valid else 'invalid'}-len{n}")
    ctx.note("skeleton", gen.describe(sk))
    ctx.note("metric", metric)


SKS = [
    dict(pre=[4], effs=[2, 1], effcond=4, n_bounds="both", goal=[0], sym=["x0", "d"]),
    dict(pre=[], effs=[4, 5], effcond=0, goal=[5], sym=["c1", "c2"]),
    dict(pre=[2], effs=[0, 1], effcond=2, inv=[1], goal=[0], sym=[]),
    dict(pre=[1], effs=[2, 9, 3], effcond=6, n_bounds="upper", goal=[4], sym=["x0", "d"]),
    dict(pre=[9], effs=[12], goal=[0], sym=["x0"]),
    dict(pre=[], effs=[11, 12], goal=[9], sym=["x0", "c1"]),
    dict(pre=[6], effs=[6, 10], goal=[7], sym=[]),
]


def shards(tier, seed):
    out = []
    max_len = 2 if tier == "quick" else 3
    combos = []
    if tier == "quick":
        combos = [(0, "none"), (0, "cost-const"), (0, "cost-fluent"), (0, "min-final"), (0, "oversub"), (1, "max-final"), (1, "length"),
                  (2, "oversub-undef"), (2, "oversub-undef-first"), (2, "none"), (3, "cost-fluent"), (4, "none"), (4, "oversub-undef"), (5, "min-final"), (6, "length"),
                  (5, "none")]
    else:
        combos = [(i, mk) for i in range(len(SKS)) for mk in METRICS]
    for i, mk in combos:
        sk = SKS[i]
        if mk in ("cost-fluent",) and sk.get("n_bounds", "none") == "none":
            sk = dict(sk, n_bounds="both")
        if tier == "quick":
            # plans of length 0 and 1 with the skeleton's two symbolic leaves; plans of length 2 with the first leaf only
            out.append(dict(name=f"sk{i}-{mk}-len01", fn="h_validate", kwargs=dict(sk=sk, metric=mk, max_len=1, lens=[0, 1]), budget=110, per_path=30))
            out.append(dict(name=f"sk{i}-{mk}-len2", fn="h_validate", kwargs=dict(sk=dict(sk, sym=sk["sym"][:1]), metric=mk, max_len=2, lens=[2]),
                            budget=110, per_path=30))
        else:
            out.append(dict(name=f"sk{i}-{mk}-len{max_len}", fn="h_validate", kwargs=dict(sk=sk, metric=mk, max_len=max_len), budget=1500, per_path=30))
    # the empty plan takes its own code path (evaluate_quality_metric_in_initial_state): every metric kind on it, on the two skeletons
    # whose goal can hold initially
    for i in (0, 2):
        for mk in METRICS:
            if tier == "quick" and (i, mk) in combos:
                continue  # its len01 shard has the empty plan already
            sk = SKS[i]
            if mk in ("cost-fluent",) and sk.get("n_bounds", "none") == "none":
                sk = dict(sk, n_bounds="both")
            out.append(dict(name=f"sk{i}-{mk}-len0", fn="h_validate", kwargs=dict(sk=sk, metric=mk, max_len=0, lens=[0]), budget=60, per_path=30))
    return out


MANIFEST = dict(
    engine="symex",
    technique="symbolic execution (CrossHair/z3) of the real SequentialPlanValidator on skeleton problems with symbolic numeric leaves and metric constants; verdict and metric value compared with the unrolled reference semantics by one solver query per path",
    text="Bounded model checking: for every plan up to the length bound over all ground instances (empty plan and inapplicable steps included) and every value of the symbolic leaves, "
         "the validator's status and reported metric value equal what the documented semantics defines; exceptions escaping validate are violations.",
    note="Trusted: R (reference semantics), CrossHair's int model, z3. Ill-defined problems (initial state violating invariants) are assumed away.",
)
