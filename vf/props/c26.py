"""C26 Time-triggered <-> STN plan conversions are faithful.

Symbolic: the start time and the duration of EVERY timed action instance of the plan: a whole number k of
ticks with k a solver variable in a window (tick = 1: Fraction(k); the skeleton constants are whole ticks
too, so coinciding and distinct event times are decided by the solver; Fraction(k, 4) normalises through a
gcd on the symbolic numerator, which fragments every path, so genuine quarter-valued times are run on
concrete pools by the direct engine in the quick tier and symbolically with one numerator in the thorough
tier).  The problems (Boolean fluents; at-start / at-end / over-all / open-interval / intermediate
conditions and effects; instantaneous actions; timed effects and timed goals; object parameters)
are concrete skeletons, built in the path's fresh environment.
Real code: TimeTriggeredPlanValidator (antecedent and final verdict), TimeTriggeredPlan.convert_to
(STN_PLAN) = _convert_to_stn (extract_epsilon, event extraction, SequentialPlan deordering through
networkx, epsilon constraints), STNPlan.__init__/is_consistent/get_constraints and
STNPlan.convert_to(TIME_TRIGGERED_PLAN) = _convert_to_time_triggered, DeltaSimpleTemporalNetwork.
Assertions, on every path on which the real validator accepts the input plan:
  (1) the STN plan is consistent;
  (2) the ORIGINAL times satisfy every constraint of get_constraints(): one linear solver query over the
      symbolic numerators "exists values on this path with some constraint violated" (time(START a) = start,
      time(END a) = start + duration, time(GLOBAL_START) = 0, GLOBAL_END existentially quantified and
      eliminated: every lower bound on it <= every upper bound on it);
  (3) the plan converted back from the STN plan is accepted by the real validator.
Constraint semantics used in (2): a triple (L, U, B) under key A means L <= time(B) - time(A) <= U.  That is
what STNPlan.__init__ installs (insert_interval(A, B, left_bound=L, right_bound=U)) and what _convert_to_stn
relies on ((duration, duration) from START to END); the docstrings of __init__/get_constraints state the
opposite sign (time(A) - time(B)), which is a documentation slip, not checked here.
"""
from fractions import Fraction

from vf import tplan

PROPERTY = "C26"
LEVEL = "model_checking"
FUNCTIONS = [
    "unified_planning.plans.time_triggered_plan:_convert_to_stn",
    "unified_planning.plans.time_triggered_plan:TimeTriggeredPlan.extract_epsilon",
    "unified_planning.plans.time_triggered_plan:_extract_action_timings",
    "unified_planning.plans.time_triggered_plan:_extract_instantenous_actions",
    "unified_planning.plans.time_triggered_plan:_is_time_in_interv",
    "unified_planning.plans.sequential_plan:SequentialPlan._to_partial_order_plan",
    "unified_planning.plans.stn_plan:STNPlan.__init__",
    "unified_planning.plans.stn_plan:STNPlan.is_consistent",
    "unified_planning.plans.stn_plan:STNPlan.get_constraints",
    "unified_planning.plans.stn_plan:STNPlan._convert_to_time_triggered",
    "unified_planning.model.delta_stn:DeltaSimpleTemporalNetwork.add",
    "unified_planning.engines.plan_validator:TimeTriggeredPlanValidator._validate",
]
BOUNDS = ("9 temporal skeletons over Boolean fluents (chain of two durative actions with at-start/over-all/at-end conditions and "
          "effects, over-all interval closed / open / left-open / right-open; two instances of one action; instantaneous problem with an "
          "independent third action; durative + instantaneous; timed effects + timed goal; object parameters with independent instances; "
          "intermediate effects; three / four (thorough) chained actions); plans of 2-3 (thorough: 4) timed action instances; start times "
          "and durations whole ticks in 0..10 (quick) / 0..40 (thorough), all of them symbolic where problem.epsilon is given (1/1000, 2 or 3 "
          "ticks), 2-3 symbolic where the conversion derives epsilon itself (extract_epsilon()/10 forks on gcds); quarter-valued times "
          "from pools 0..9 (direct engine)")
OUTSIDE = ("numeric fluents, conditional effects, simulated effects, more than 4 action instances, symbolic numerators over a "
           "denominator other than 1 in the quick tier")
ASSUMPTIONS = [
    "when problem.epsilon is set, only plans whose distinct event times are at least epsilon apart are considered "
    "(plan.extract_epsilon(problem) >= problem.epsilon); the validator itself does not enforce the separation",
    "constraint (L, U, B) under key A is read as L <= time(B) - time(A) <= U (the implemented meaning)",
]


# --------------------------------------------------------------------------------------------
# skeletons: build(env, u, ...) -> dict(problem=..., insts=[(action, params)], defaults={name: ticks})
# Every time constant of a skeleton is a whole number of TICKS; one tick = u = Fraction(1, den).
# --------------------------------------------------------------------------------------------
def _mk(env, name="p"):
    from unified_planning.model import Problem

    return Problem(name, env)


def _bools(env, prob, names, init=False):
    from unified_planning.model import Fluent

    tm, em = env.type_manager, env.expression_manager
    out = {}
    for n in names:
        f = Fluent(n, tm.BoolType(), environment=env)
        prob.add_fluent(f, default_initial_value=em.TRUE() if init else em.FALSE())
        out[n] = em.FluentExp(f)
    return out


def _dur(env, u, name, lo, hi, **params):
    from unified_planning.model import DurativeAction

    em = env.expression_manager
    a = DurativeAction(name, _env=env, **params)
    a.set_closed_duration_interval(em.Real(lo * u), em.Real(hi * u))
    return a


def sk_chain(env, u, eps=None, overall="closed"):
    """a: [start] x:=T ; over-all not y ; [end] x:=F, z:=T.   b: at-start x ; [end] y:=T.   goal y & z."""
    from unified_planning.model import (ClosedTimeInterval, EndTiming, LeftOpenTimeInterval, OpenTimeInterval,
                                        RightOpenTimeInterval, StartTiming)

    em = env.expression_manager
    p = _mk(env)
    f = _bools(env, p, ["x", "y", "z"])
    a = _dur(env, u, "a", 0, 16)
    a.add_effect(StartTiming(), f["x"], em.TRUE())
    iv = dict(closed=ClosedTimeInterval, open=OpenTimeInterval, lopen=LeftOpenTimeInterval,
              ropen=RightOpenTimeInterval)[overall](StartTiming(), EndTiming())
    a.add_condition(iv, em.Not(f["y"]))
    a.add_effect(EndTiming(), f["x"], em.FALSE())
    a.add_effect(EndTiming(), f["z"], em.TRUE())
    b = _dur(env, u, "b", 0, 16)
    b.add_condition(StartTiming(), f["x"])
    b.add_effect(EndTiming(), f["y"], em.TRUE())
    p.add_action(a)
    p.add_action(b)
    p.add_goal(f["y"])
    p.add_goal(f["z"])
    return dict(problem=p, insts=[(a, ()), (b, ())], defaults=dict(s0=0, d0=8, s1=4, d1=6))


def sk_four(env, u, eps=None):
    """two producers p1,p2 ([start] x:=T ; [end] x:=F) and two consumers (over-all x ; [end] y:=T / z:=T)."""
    from unified_planning.model import ClosedTimeInterval, EndTiming, StartTiming

    em = env.expression_manager
    p = _mk(env)
    f = _bools(env, p, ["x", "y", "z"])
    a = _dur(env, u, "a", 1, 24)
    a.add_condition(StartTiming(), em.Not(f["x"]))
    a.add_effect(StartTiming(), f["x"], em.TRUE())
    a.add_effect(EndTiming(), f["x"], em.FALSE())
    b = _dur(env, u, "b", 1, 12)
    b.add_condition(ClosedTimeInterval(StartTiming(), EndTiming()), f["x"])
    b.add_effect(EndTiming(), f["y"], em.TRUE())
    c = _dur(env, u, "c", 1, 12)
    c.add_condition(ClosedTimeInterval(StartTiming(), EndTiming()), f["x"])
    c.add_condition(StartTiming(), f["y"])
    c.add_effect(EndTiming(), f["z"], em.TRUE())
    for act in (a, b, c):
        p.add_action(act)
    p.add_goal(f["z"])
    p.add_goal(em.Not(f["x"]))
    return dict(problem=p, insts=[(a, ()), (b, ()), (a, ()), (c, ())], defaults=dict(s0=0, d0=6, s1=1, d1=3, s2=8, d2=6, s3=9, d3=3))


def sk_same2(env, u, eps=None):
    """two instances of one action: at-start not w ; [start] w:=T ; [end] w:=F, y:=T.  goal y & not w."""
    from unified_planning.model import EndTiming, StartTiming

    em = env.expression_manager
    p = _mk(env)
    f = _bools(env, p, ["w", "y"])
    a = _dur(env, u, "a", 1, 12)
    a.add_condition(StartTiming(), em.Not(f["w"]))
    a.add_effect(StartTiming(), f["w"], em.TRUE())
    a.add_effect(EndTiming(), f["w"], em.FALSE())
    a.add_effect(EndTiming(), f["y"], em.TRUE())
    p.add_action(a)
    p.add_goal(f["y"])
    p.add_goal(em.Not(f["w"]))
    return dict(problem=p, insts=[(a, ()), (a, ())], defaults=dict(s0=0, d0=4, s1=6, d1=4))


def sk_inst(env, u, eps=None):
    """instantaneous: i1: not x -> x ; i2: x -> y ; i3: -> z (independent).  goal x & y & z."""
    from unified_planning.model import InstantaneousAction

    em = env.expression_manager
    p = _mk(env)
    f = _bools(env, p, ["x", "y", "z"])
    i1 = InstantaneousAction("i1", _env=env)
    i1.add_precondition(em.Not(f["x"]))
    i1.add_effect(f["x"], em.TRUE())
    i2 = InstantaneousAction("i2", _env=env)
    i2.add_precondition(f["x"])
    i2.add_effect(f["y"], em.TRUE())
    i3 = InstantaneousAction("i3", _env=env)
    i3.add_effect(f["z"], em.TRUE())
    for a in (i1, i2, i3):
        p.add_action(a)
    for g in ("x", "y", "z"):
        p.add_goal(f[g])
    return dict(problem=p, insts=[(i1, ()), (i2, ()), (i3, ())], defaults=dict(s0=1, s1=3, s2=1))


def sk_mixed(env, u, eps=None):
    """a: [start] x:=T ; at-end y ; [end] x:=F.   i (instantaneous): x -> y.   goal y & not x."""
    from unified_planning.model import EndTiming, InstantaneousAction, StartTiming

    em = env.expression_manager
    p = _mk(env)
    f = _bools(env, p, ["x", "y"])
    a = _dur(env, u, "a", 2, 16)
    a.add_effect(StartTiming(), f["x"], em.TRUE())
    a.add_condition(EndTiming(), f["y"])
    a.add_effect(EndTiming(), f["x"], em.FALSE())
    i = InstantaneousAction("i", _env=env)
    i.add_precondition(f["x"])
    i.add_effect(f["y"], em.TRUE())
    p.add_action(a)
    p.add_action(i)
    p.add_goal(f["y"])
    p.add_goal(em.Not(f["x"]))
    return dict(problem=p, insts=[(a, ()), (i, ())], defaults=dict(s0=1, d0=6, s1=4))


def sk_timed(env, u, eps=None):
    """timed effects k:=T at 4, k:=F at 12; a: over-all k ; [end] x:=T; timed goal x in [20,24]; b: at-start x; [end] x:=F, g:=T."""
    from unified_planning.model import ClosedTimeInterval, EndTiming, GlobalStartTiming, StartTiming

    em = env.expression_manager
    p = _mk(env)
    f = _bools(env, p, ["k", "x", "g"])
    p.add_timed_effect(GlobalStartTiming(4 * u), f["k"], em.TRUE())
    p.add_timed_effect(GlobalStartTiming(12 * u), f["k"], em.FALSE())
    a = _dur(env, u, "a", 1, 12)
    a.add_condition(ClosedTimeInterval(StartTiming(), EndTiming()), f["k"])
    a.add_effect(EndTiming(), f["x"], em.TRUE())
    b = _dur(env, u, "b", 1, 12)
    b.add_condition(StartTiming(), f["x"])
    b.add_effect(EndTiming(), f["x"], em.FALSE())
    b.add_effect(EndTiming(), f["g"], em.TRUE())
    p.add_action(a)
    p.add_action(b)
    p.add_timed_goal(ClosedTimeInterval(GlobalStartTiming(20 * u), GlobalStartTiming(24 * u)), f["x"])
    p.add_goal(f["g"])
    return dict(problem=p, insts=[(a, ()), (b, ())], defaults=dict(s0=5, d0=6, s1=24, d1=8))


def sk_params(env, u, eps=None):
    """objects o1,o2; a(o): at-start not p(o) ; [end] p(o):=T (independent instances); b: at-start p(o1) ; [end] y:=T."""
    from unified_planning.model import EndTiming, Fluent, Object, StartTiming

    em, tm = env.expression_manager, env.type_manager
    p = _mk(env)
    T = tm.UserType("T")
    o1, o2 = Object("o1", T, env), Object("o2", T, env)
    p.add_objects([o1, o2])
    pf = Fluent("p", tm.BoolType(), environment=env, o=T)
    p.add_fluent(pf, default_initial_value=em.FALSE())
    f = _bools(env, p, ["y"])
    a = _dur(env, u, "a", 1, 12, o=T)
    o = a.parameter("o")
    a.add_condition(StartTiming(), em.Not(em.FluentExp(pf, [o])))
    a.add_effect(EndTiming(), em.FluentExp(pf, [o]), em.TRUE())
    b = _dur(env, u, "b", 1, 12)
    b.add_condition(StartTiming(), em.FluentExp(pf, [em.ObjectExp(o1)]))
    b.add_effect(EndTiming(), f["y"], em.TRUE())
    p.add_action(a)
    p.add_action(b)
    p.add_goal(em.FluentExp(pf, [em.ObjectExp(o2)]))
    p.add_goal(f["y"])
    return dict(problem=p, insts=[(a, (em.ObjectExp(o1),)), (a, (em.ObjectExp(o2),)), (b, ())],
                defaults=dict(s0=0, d0=4, s1=0, d1=4, s2=6, d2=2))


def sk_interm(env, u, eps=None):
    """intermediate effects: a: [start+2] x:=T ; [end-1] x:=F ; [end] z:=T.   b: at-start x ; [end] y:=T."""
    from unified_planning.model import EndTiming, StartTiming

    em = env.expression_manager
    p = _mk(env)
    f = _bools(env, p, ["x", "y", "z"])
    a = _dur(env, u, "a", 4, 16)
    a.add_effect(StartTiming(2 * u), f["x"], em.TRUE())
    a.add_effect(EndTiming() - 1 * u, f["x"], em.FALSE())
    a.add_effect(EndTiming(), f["z"], em.TRUE())
    b = _dur(env, u, "b", 1, 12)
    b.add_condition(StartTiming(), f["x"])
    b.add_effect(EndTiming(), f["y"], em.TRUE())
    p.add_action(a)
    p.add_action(b)
    p.add_goal(f["y"])
    p.add_goal(f["z"])
    return dict(problem=p, insts=[(a, ()), (b, ())], defaults=dict(s0=0, d0=8, s1=4, d1=2))


def sk_three(env, u, eps=None):
    """a: [start] x:=T, [end] x:=F ; b: over-all x, [end] y:=T ; c: at-start y, [end] z:=T.  goal z & not x."""
    from unified_planning.model import ClosedTimeInterval, EndTiming, StartTiming

    em = env.expression_manager
    p = _mk(env)
    f = _bools(env, p, ["x", "y", "z"])
    a = _dur(env, u, "a", 2, 24)
    a.add_effect(StartTiming(), f["x"], em.TRUE())
    a.add_effect(EndTiming(), f["x"], em.FALSE())
    b = _dur(env, u, "b", 1, 12)
    b.add_condition(ClosedTimeInterval(StartTiming(), EndTiming()), f["x"])
    b.add_effect(EndTiming(), f["y"], em.TRUE())
    c = _dur(env, u, "c", 1, 12)
    c.add_condition(StartTiming(), f["y"])
    c.add_effect(EndTiming(), f["z"], em.TRUE())
    for act in (a, b, c):
        p.add_action(act)
    p.add_goal(f["z"])
    p.add_goal(em.Not(f["x"]))
    return dict(problem=p, insts=[(a, ()), (b, ()), (c, ())], defaults=dict(s0=0, d0=12, s1=2, d1=4, s2=8, d2=2))


SKELETONS = dict(chain=sk_chain, same2=sk_same2, inst=sk_inst, mixed=sk_mixed, timed=sk_timed, params=sk_params,
                 interm=sk_interm, three=sk_three, four=sk_four)


# --------------------------------------------------------------------------------------------
def _node_time(node, times):
    """times: {id(action_instance): (start, end)}; returns ('const', t) | ('gend', None)"""
    from unified_planning.model import TimepointKind

    if node.kind == TimepointKind.GLOBAL_START:
        return Fraction(0)
    if node.kind == TimepointKind.GLOBAL_END:
        return None
    s, e = times[id(node.action_instance)]
    return s if node.kind == TimepointKind.START else e


def _constraints_hold(ctx, stn, times, tag):
    """(2): the original times satisfy every constraint of stn.get_constraints()."""
    cons = []
    for a_node, lst in stn.get_constraints().items():
        for lb, ub, b_node in lst:
            if id(getattr(a_node, "action_instance", None)) not in times and a_node.action_instance is not None:
                ctx.fail(f"{tag}:unknown-node", "the STN plan mentions an action instance that is not in the input plan")
            if id(getattr(b_node, "action_instance", None)) not in times and b_node.action_instance is not None:
                ctx.fail(f"{tag}:unknown-node", "the STN plan mentions an action instance that is not in the input plan")
            cons.append((_node_time(a_node, times), lb, ub, _node_time(b_node, times)))
    ctx.note("n_constraints", len(cons))
    # GLOBAL_END (None) is existentially quantified: collect its lower / upper bounds
    plain, lows, ups = [], [Fraction(0)], []
    for ta, lb, ub, tb in cons:
        if ta is None and tb is None:
            # E - E in [lb, ub]
            if lb is not None:
                plain.append(("le", lb, Fraction(0)))
            if ub is not None:
                plain.append(("le", Fraction(0), ub))
        elif tb is None:  # lb <= E - ta <= ub
            if lb is not None:
                lows.append(ta + lb)
            if ub is not None:
                ups.append(ta + ub)
        elif ta is None:  # lb <= tb - E <= ub
            if lb is not None:
                ups.append(tb - lb)
            if ub is not None:
                lows.append(tb - ub)
        else:
            if lb is not None:
                plain.append(("le", lb, tb - ta))
            if ub is not None:
                plain.append(("le", tb - ta, ub))
    for lo in lows:
        for up in ups:
            plain.append(("le", lo, up))
    if ctx.mode != "sym":
        for _k, l, r in plain:
            ctx.check(l <= r, f"{tag}:constraint-violated",
                      f"the original times violate an STN constraint: need {l} <= {r}")
        return len(plain)

    def build():
        import z3

        bad = [tplan.zreal(l) > tplan.zreal(r) for _k, l, r in plain]
        return (z3.Or(bad) if bad else False), {}

    ctx.forall(build, None, f"{tag}:constraint-violated",
               "the original start times / durations violate a constraint returned by the STN plan")
    return len(plain)


def _tick(k, den):
    """k ticks as a Fraction; k may be symbolic.  den == 1 avoids the gcd normalisation of Fraction(k, den), which forks
    on the residue of a symbolic k (one path per value of gcd(k, den))."""
    return Fraction(k) if den == 1 else Fraction(k, den)


def h_roundtrip(ctx, sk, sym, vals=None, eps=None, variant=None, den=1, use_global=False):
    from unified_planning.plans import ActionInstance, PlanKind, TimeTriggeredPlan

    env = ctx.fresh_env(hashcons="syntactic")
    u = Fraction(1, den)
    with ctx.untraced():
        _warm_networkx()
        kw = {} if variant is None else dict(overall=variant)
        S = SKELETONS[sk](env, u, **kw)
        problem = S["problem"]
        if eps is not None:
            problem.epsilon = Fraction(eps)
    vals = dict(S["defaults"], **(vals or {}))
    items, times = [], {}
    for i, (act, params) in enumerate(S["insts"]):
        start = _tick(tplan.num(ctx, f"s{i}", sym.get(f"s{i}"), vals[f"s{i}"]), den)
        ai = ActionInstance(act, tuple(params))
        if f"d{i}" in vals:
            dur = _tick(tplan.num(ctx, f"d{i}", sym.get(f"d{i}"), vals[f"d{i}"]), den)
            items.append((start, ai, dur))
            times[id(ai)] = (start, start + dur)
        else:
            items.append((start, ai, None))
            times[id(ai)] = (start, start)
    plan = TimeTriggeredPlan(items, env)
    ok, _res = tplan.tt_valid(env, problem, plan)
    ctx.assume(ok)
    if problem.epsilon is not None and problem.epsilon > u:
        # every event of every skeleton falls on a whole tick: the separation assumption is vacuous unless epsilon > tick
        pe = plan.extract_epsilon(problem)
        ctx.assume(pe is None or pe >= problem.epsilon)
    cm = tplan.as_global(env) if use_global else _null()
    with cm:
        stn = plan.convert_to(PlanKind.STN_PLAN, problem)
        ctx.check(stn.is_consistent(), "stn-inconsistent", "a VALID time-triggered plan was converted to an inconsistent STN plan")
        _constraints_hold(ctx, stn, times, "orig")
        back = stn.convert_to(PlanKind.TIME_TRIGGERED_PLAN, problem)
    ctx.check(len(back.timed_actions) == len(items), "back:lost-actions",
              f"the plan converted back has {len(back.timed_actions)} timed actions, the input had {len(items)}")
    ok2, res2 = tplan.tt_valid(env, problem, back)
    ctx.check(ok2, "back:invalid",
              f"the plan converted back from the STN plan is rejected by the validator ({res2.reason}); "
              f"input plan {[(tplan.fs(s), str(a), tplan.fs(d) if d is not None else None) for s, a, d in items]}")
    ctx.witness("roundtrip")


_WARM = []


def _warm_networkx():
    """networkx compiles its decorated functions lazily with exec(); make it do that once, natively, before any traced
    call: one complete concrete conversion on a throw-away environment."""
    if _WARM:
        return
    from unified_planning.environment import Environment
    from unified_planning.plans import ActionInstance, PlanKind, TimeTriggeredPlan

    env = Environment()
    S = sk_chain(env, Fraction(1, 4))
    plan = TimeTriggeredPlan([(Fraction(0), ActionInstance(S["insts"][0][0]), Fraction(2)),
                              (Fraction(1), ActionInstance(S["insts"][1][0]), Fraction(3, 2))], env)
    with tplan.as_global(env):
        stn = plan.convert_to(PlanKind.STN_PLAN, S["problem"])
        stn.is_consistent()
        stn.get_constraints()
        stn.convert_to(PlanKind.TIME_TRIGGERED_PLAN, S["problem"])
    _WARM.append(1)


def _null():
    import contextlib

    return contextlib.nullcontext()


def h_env(ctx, sk, use_global):
    """Concrete default plan of the skeleton, converted in the path's own (non-global) environment resp. with that environment
    installed as the global one (the situation the conversion was written for)."""
    h_roundtrip(ctx, sk, {}, den=4, use_global=use_global)
    ctx.witness("global-env" if use_global else "nonglobal-env")


def _sh(name, sk, sym, tier, vals=None, eps=None, variant=None, den=1, engine=None):
    kw = dict(sk=sk, sym=sym, den=den)
    if vals:
        kw["vals"] = vals
    if eps:
        kw["eps"] = eps
    if variant:
        kw["variant"] = variant
    d = dict(name=name, fn="h_roundtrip", kwargs=kw, budget=100 if tier == "quick" else 1500, per_path=60)
    if engine:
        d["engine"] = engine
        d["budget"] = 3 * d["budget"]  # the direct engine's budget is wall-clock time
    return d


N_INST = dict(chain=(2, 2), same2=(2, 2), inst=(3, 0), mixed=(2, 1), timed=(2, 2), params=(3, 3), interm=(2, 2), three=(3, 3),
              four=(4, 4))


def _all(sk, s_hi, d_hi, s_lo=0, d_lo=0):
    """every start time and every duration of the skeleton's plan symbolic"""
    n, nd = N_INST[sk]
    sym = {f"s{i}": [s_lo, s_hi] for i in range(n)}
    sym.update({f"d{i}": [d_lo, d_hi] for i in range(nd)})
    return sym


def shards(tier, seed):
    out = []
    Q = tier == "quick"
    E = "1/1000"  # an explicit problem.epsilon: the conversion then skips extract_epsilon()/10 (a symbolic division)
    S, D = (10, 10) if Q else (40, 40)
    for v in ("closed", "open", "lopen", "ropen"):
        out.append(_sh(f"chain-{v}", "chain", _all("chain", S, D), tier, eps=E, variant=v))
    out.append(_sh("chain-eps2", "chain", _all("chain", S, D), tier, eps="2"))
    out.append(_sh("chain-eps2-open", "chain", _all("chain", S, D), tier, eps="2", variant="open"))
    out.append(_sh("chain-eps2-lopen", "chain", _all("chain", S, D), tier, eps="2", variant="lopen"))
    out.append(_sh("same2", "same2", _all("same2", S, D), tier, eps=E))
    out.append(_sh("inst", "inst", _all("inst", S, D), tier, eps=E))
    out.append(_sh("inst-noeps", "inst", _all("inst", S, D), tier))
    if not Q:
        out.append(_sh("inst-eps3", "inst", _all("inst", S, D), tier, eps="3"))
        out.append(_sh("mixed-noeps", "mixed", _all("mixed", S, D), tier))
    out.append(_sh("mixed", "mixed", _all("mixed", S, D), tier, eps=E))
    out.append(_sh("interm", "interm", _all("interm", S, 12 if Q else 40), tier, eps=E))
    if Q:
        # epsilon left to the conversion (extract_epsilon()/10 forks on gcds): fewer symbolic numerators
        out.append(_sh("chain-noeps-s1d1", "chain", dict(s1=[0, S], d1=[0, D]), tier))
        out.append(_sh("same2-noeps-d0s1", "same2", dict(d0=[0, D], s1=[0, S]), tier))
        out.append(_sh("timed-s0d0s1", "timed", dict(s0=[3, 13], d0=[0, 9], s1=[10, 25]), tier, eps=E))
        out.append(_sh("timed-s1d1", "timed", dict(s1=[8, 26], d1=[0, 12]), tier, eps=E))
        out.append(_sh("params-01", "params", dict(s0=[0, 5], d0=[1, 4], s1=[0, 5], d1=[1, 4]), tier, eps=E))
        out.append(_sh("params-2", "params", dict(d0=[1, 6], s2=[0, 8], d2=[1, 6]), tier, eps=E))
        out.append(_sh("three-01", "three", dict(d0=[2, 14], s1=[0, 10], d1=[1, 8]), tier, eps=E))
        out.append(_sh("three-12", "three", dict(s1=[0, 6], s2=[2, 14], d2=[1, 6]), tier, eps=E))
    else:
        out.append(_sh("chain-noeps", "chain", _all("chain", S, D), tier))
        out.append(_sh("same2-noeps", "same2", _all("same2", S, D), tier))
        out.append(_sh("timed", "timed", dict(s0=[3, 13], d0=[0, 9], s1=[10, 25], d1=[0, 12]), tier, eps=E))
        out.append(_sh("timed-noeps", "timed", dict(s0=[3, 13], d0=[0, 9], s1=[10, 25]), tier))
        out.append(_sh("params", "params", _all("params", 8, 6, d_lo=1), tier, eps=E))
        out.append(_sh("params-noeps", "params", dict(s0=[0, 6], d0=[1, 6], s1=[0, 6], d1=[1, 6]), tier))
        out.append(_sh("three", "three", dict(_all("three", 14, 8, d_lo=1), d0=[2, 14]), tier, eps=E))
        out.append(_sh("three-noeps", "three", dict(d0=[2, 14], s1=[0, 10], d1=[1, 8]), tier))
        out.append(_sh("four", "four", _all("four", 16, 10, d_lo=1), tier, eps=E))
        out.append(_sh("chain-den4-s1", "chain", dict(s1=[0, 9]), tier, eps=E, den=4))
        out.append(_sh("chain-den4-d1", "chain", dict(d1=[0, 9]), tier, eps=E, den=4))
    # genuine quarter-valued times (Fraction(k, 4) normalises through gcd: expensive symbolically): concrete times from a
    # pool with coinciding and distinct values (direct engine); thorough adds symbolic numerators (above).
    out.append(_sh("chain-den4-pool", "chain", dict(s1=[0, 9], d1=[0, 9]), tier, den=4, engine="direct"))
    out.append(_sh("interm-den4-pool", "interm", dict(s1=[0, 10], d0=[4, 10]), tier, den=4, engine="direct"))
    out.append(_sh("chain-open-noeps-den4-pool", "chain", dict(s1=[0, 9], d1=[0, 9]), tier, den=4, variant="open", engine="direct"))
    out.append(dict(name="env-nonglobal", fn="h_env", kwargs=dict(sk="chain", use_global=False), budget=300, engine="direct"))
    out.append(dict(name="env-global", fn="h_env", kwargs=dict(sk="chain", use_global=True), budget=300, engine="direct"))
    return out


MANIFEST = dict(
    engine="symex",
    technique="symbolic execution (CrossHair/z3) of the real TT validator, TimeTriggeredPlan->STNPlan conversion (deordering through networkx, DeltaSTN) and STNPlan->TimeTriggeredPlan conversion with symbolic start times/durations k/4; constraint satisfaction by the original times as one linear solver query per path",
    text="Bounded model checking: for each temporal skeleton and EVERY value of the symbolic start-time/duration numerators in the stated windows for which the real validator accepts the plan, "
         "the converted STN plan is consistent, the original times satisfy every constraint it returns (GLOBAL_END eliminated), and the plan converted back is accepted by the real validator. "
         "Coinciding and distinct event times are found by the solver, not sampled.",
    note="Trusted: CrossHair's int/Fraction model, z3. Every path converts in its own fresh (non-global) Environment; one concrete shard converts with that environment installed as the global one. Outside: numeric fluents, >3 instances, other denominators.",
)
