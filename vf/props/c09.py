"""C09 Declared resulting problem kind over-approximates the compiled kind; factory pipelines chain.

Part B (this file, universal over kinds): the problem kind K is a symbolic feature set (E1s: one solver Boolean per
free feature, injected into a real ProblemKind), the ordered list of compilation kinds is drawn by choice variables,
and the REAL `Factory.Compiler(problem_kind=K, compilation_kinds=[...])` runs.  On every path where it returns a
pipeline the harness recomputes the chain K_0 = K, K_i = type(c_i).resulting_problem_kind(K_{i-1}, kind_i) with the real
compilers' functions and asks the solver whether some kind on this path makes a chained compiler reject its input
(`supports(K_{i-1})` false), not support the requested compilation, or carry the wrong default kind.  When the factory
raises UPNoSuitableEngineAvailableException the harness checks that some chain of qualifying compilers indeed
dead-ends (own enumeration over the registry).

Part A (per compiled program: compile(P).problem.kind <= resulting_problem_kind(P.kind)) is added separately, see the
marked place below.
"""
PROPERTY = "C09"
LEVEL = "model_checking"
FUNCTIONS = [
    "unified_planning.engines.factory:Factory.Compiler",
    "unified_planning.engines.factory:Factory._get_engine",
    "unified_planning.engines.factory:Factory._get_engine_class",
    "unified_planning.engines.factory:Factory._engine_satisfies_conditions",
    "unified_planning.engines.compilers.bounded_types_remover:BoundedTypesRemover.resulting_problem_kind",
    "unified_planning.engines.compilers.conditional_effects_remover:ConditionalEffectsRemover.resulting_problem_kind",
    "unified_planning.engines.compilers.interpreted_functions_remover:InterpretedFunctionsRemover.resulting_problem_kind",
    "unified_planning.engines.compilers.disjunctive_conditions_remover:DisjunctiveConditionsRemover.resulting_problem_kind",
    "unified_planning.engines.compilers.negative_conditions_remover:NegativeConditionsRemover.resulting_problem_kind",
    "unified_planning.engines.compilers.quantifiers_remover:QuantifiersRemover.resulting_problem_kind",
    "unified_planning.engines.compilers.usertype_fluents_remover:UsertypeFluentsRemover.resulting_problem_kind",
    "unified_planning.engines.compilers.state_invariants_remover:StateInvariantsRemover.resulting_problem_kind",
    "unified_planning.engines.compilers.grounder:Grounder.resulting_problem_kind",
    "unified_planning.engines.compilers.ks0_compiler:Ks0Compiler.resulting_problem_kind",
    "unified_planning.engines.compilers.timed_to_sequential:TimedToSequential.resulting_problem_kind",
    "unified_planning.engines.compilers.durative_actions_to_processes:DurativeActionToProcesses.resulting_problem_kind",
    "unified_planning.engines.compilers.undefined_initial_numeric_remover:UndefinedInitialNumericRemover.resulting_problem_kind",
    "unified_planning.engines.compilers.ma_disjunctive_conditions_remover:MADisjunctiveConditionsRemover.resulting_problem_kind",
    "unified_planning.engines.compilers.ma_conditional_effects_remover:MAConditionalEffectsRemover.resulting_problem_kind",
    "unified_planning.model.problem_kind:ProblemKind.__le__",
    "unified_planning.model.problem_kind:ProblemKind.clone",
]
BOUNDS = ("part B: every ordered subset (no repetition) of <= 2 (quick) / <= 3 (thorough) of the 19 CompilationKinds against the offline registry "
          "(15 built-in compilers; the stub registry adds one more grounder); kind version 3 (thorough: also 2 and 1); "
          "per sequence the FREE feature bits are a sub-universe computed at run time: the features the chained compilers' resulting_problem_kind "
          "reads or writes (found by probing the real functions) and one representative per distinct support column of the candidate compilers, "
          "capped at 4 bits (quick) / 6 bits (thorough); the remaining features are fixed absent (background 0) or, for five that every candidate "
          "supports plus the deprecated ones, fixed present (background 1; quick: only in the reversed-preference and version-2 shards); default and reversed preference list")
OUTSIDE = ("kinds that differ from the explored ones on features outside the freed sub-universe (Factory._get_engine_class iterates "
           "problem_kind.features for its error table, which forks once per undecided bit: all bits free is infeasible); sequences longer than 3; "
           "third-party engines (not installed)")
ASSUMPTIONS = ["the kind is built by injecting the feature set (k._features); ProblemKind's module-level name `set` keeps a symbolic set symbolic",
               "S6: supported_kind() of every registered engine and get_valid_features(version) (input-free / concrete-input constant builders) run "
               "natively, outside the tracer (vf/kindsym.py); FastSFS is SymFeatureSet with decided bits kept as literals",
               "the chain oracle uses the real resulting_problem_kind and supports functions of the selected compilers (the property is about their agreement with the factory's choice)"]


# =====================================================================================================================
# PART A -- per-program check  compile(P).problem.kind <= resulting_problem_kind(P.kind)  (to be added here:
#           harness functions h_a_*, and their shards appended in shards() below at the place marked PART A)
# =====================================================================================================================


from vf.c09a import h_a_program  # noqa: E402,F401  (part A harness, resolved by name from the shard table)

# ---- part B ---------------------------------------------------------------------------------------------------------
_SENS = {}
MAX_BG = 5


def _compilers_for(f, pref, ck):
    return [n for n in pref if f.engine(n).is_compiler() and f.engine(n).supports_compilation(ck)]


def pipeline_free_bits(f, pref, seq, version, cap):
    """(free, present_background): see BOUNDS.  Deterministic; runs natively."""
    from vf import kindlib

    cands, order = [], []
    for ck in seq:
        for n in _compilers_for(f, pref, ck):
            E = f.engine(n)
            if E not in cands:
                cands.append(E)
            key = (E.__module__, E.__name__, ck.name, version)
            if key not in _SENS:
                _SENS[key] = kindlib.rpk_sensitive(E, ck, version)
            reads, writes = _SENS[key]
            for x in reads + writes:
                if x not in order:
                    order.append(x)
    reps, _classes = kindlib.column_representatives(cands, version)
    # interleave: first the features the chain reads, then support-column representatives
    merged = []
    for a, b in zip(order + [None] * len(reps), reps + [None] * len(order)):
        for x in (a, b):
            if x is not None and x not in merged:
                merged.append(x)
    free = merged[:cap] if merged else sorted(kindlib.valid_features(version))[:1]
    common = set(kindlib.valid_features(version))
    for E in cands:
        common &= set(E.supported_kind().features)
    # background 1: a few features every candidate supports, plus the deprecated ones (ignored by <=); kept small because the
    # factory's error table costs (#compilers x #present features) supports() calls and a traced str.format per row
    present = (sorted(common - set(free))[:MAX_BG] + kindlib.deprecated(version))
    return free, [p for p in present if p not in free]


def _all_sequences(kinds, max_len, first=None):
    import itertools

    out = []
    for n in range(0, max_len + 1):
        for p in itertools.permutations(kinds, n):
            if first is None or (p and p[0] == first):
                out.append(list(p))
    return out


def check_pipeline(ctx, f, K, seq, tag=""):
    """Runs the real Factory.Compiler on (K, seq) and checks the selected pipeline / the refusal.  K is consumed."""
    import unified_planning as up
    from unified_planning.engines.compilers.compilers_pipeline import CompilersPipeline
    from vf import kindlib
    from vf.logic import And

    K0 = kindlib.clone(K)
    pref = list(f.preference_list)
    try:
        pipe = f.Compiler(problem_kind=K, compilation_kinds=list(seq))
    except up.exceptions.UPNoSuitableEngineAvailableException:
        pipe = None
    # from here on every free bit is decided on this path (the factory iterated the feature set)

    def dead_end(i, k):
        """some chain of qualifying compilers (any choice among them) reaches a step nobody accepts"""
        if i == len(seq):
            return False
        q = [f.engine(n) for n in _compilers_for(f, pref, seq[i]) if bool(f.engine(n).supports(kindlib.clone(k)))]
        if not q:
            return True
        return any(dead_end(i + 1, E.resulting_problem_kind(kindlib.clone(k), seq[i])) for E in q)

    if pipe is None:
        ctx.check(dead_end(0, K0), tag + "refused-but-chain-exists",
                  f"Factory.Compiler raised UPNoSuitableEngineAvailableException for {[c.name for c in seq]} although every chain of "
                  "registered compilers that support the requested kinds accepts every intermediate kind")
        ctx.witness("no-suitable")
        return None
    ctx.check(isinstance(pipe, CompilersPipeline), tag + "not-a-pipeline", f"Factory.Compiler(compilation_kinds=...) returned {type(pipe).__name__}")
    comps = list(pipe._compilers)
    ctx.check(len(comps) == len(seq), tag + "pipeline-length", f"pipeline of {len(comps)} compilers for {len(seq)} compilation kinds")
    registered = [f.engine(n) for n in pref]
    k = K0
    for i, (c, ck) in enumerate(zip(comps, seq)):
        E = type(c)
        ctx.check(E in registered, tag + "unregistered-compiler", f"step {i}: {E.__name__} is not an engine of the preference list")
        ctx.check(E.is_compiler() and E.supports_compilation(ck), tag + "step-compilation-kind",
                  f"step {i}: {E.__name__} does not support {ck.name}")
        ctx.check(c.default == ck, tag + "step-default", f"step {i}: compiler default is {c.default}, requested {ck.name}")
        sup = E.supports(kindlib.clone(k))
        kindlib.require(ctx, lambda sup=sup: And(sup), tag + "step-rejects-intermediate-kind",
                    f"step {i} ({E.__name__}, {ck.name}) does not support the kind produced by the compilers before it; sequence {[x.name for x in seq]}")
        k = E.resulting_problem_kind(kindlib.clone(k), ck)
    ctx.witness(f"pipeline-{len(seq)}")
    return pipe


def h_pipeline(ctx, registry, version, max_len, cap, first=None, firsts=None, rev_pref=False, backgrounds=2):
    """first: name of the first compilation kind (None: `firsts` list by choice, or the empty sequence)."""
    from unified_planning.engines.mixins.compiler import CompilationKind
    from vf import kindlib

    env = ctx.fresh_env()
    f = kindlib.setup_factory(ctx, env, registry)
    kinds = list(CompilationKind)
    if first is not None:
        seq = [CompilationKind[first]]
    elif firsts:
        seq = [CompilationKind[ctx.pick("first", firsts)]]
    else:
        seq = []
    while seq and len(seq) < max_len:
        rest = [None] + [k for k in kinds if k not in seq]
        nxt = ctx.pick(f"kind{len(seq)}", rest)
        if nxt is None:
            break
        seq.append(nxt)
    if rev_pref:
        f.preference_list = list(reversed(f.preference_list))
    bg = ctx.choice("background", backgrounds)
    with ctx.untraced():
        free, present = pipeline_free_bits(f, list(f.preference_list), seq, version, cap)
    ctx.note("sequence", [k.name for k in seq])
    ctx.note("free", free)
    K = kindlib.make_kind(ctx, "K", version, free=free, present=present if bg else ())
    check_pipeline(ctx, f, K, seq)


def shards(tier, seed):
    from unified_planning.engines.mixins.compiler import CompilationKind

    out = []
    # ---- PART A: per-program check (vf/c09a.py) -----------------------------------------------------------------
    from vf import c09a
    out.extend(c09a.shards(tier))
    # ---- part B -------------------------------------------------------------------------------------------------------
    with_compiler = ["GROUNDING", "CONDITIONAL_EFFECTS_REMOVING", "INTERPRETED_FUNCTIONS_REMOVING", "DISJUNCTIVE_CONDITIONS_REMOVING",
                     "NEGATIVE_CONDITIONS_REMOVING", "QUANTIFIERS_REMOVING", "USERTYPE_FLUENTS_REMOVING", "BOUNDED_TYPES_REMOVING",
                     "STATE_INVARIANTS_REMOVING", "TIMED_TO_SEQUENTIAL", "DURATIVE_ACTIONS_TO_PROCESSES", "UNDEFINED_INITIAL_NUMERIC_REMOVING",
                     "CONFORMANT_TO_CLASSICAL"]
    without = [k.name for k in CompilationKind if k.name not in with_compiler]
    if tier == "quick":
        for first in with_compiler:
            out.append(dict(name=f"B-pipe2-{first}", fn="h_pipeline", kwargs=dict(registry="builtin", version=3, max_len=2, cap=4, first=first, backgrounds=1),
                            budget=150, per_path=30))
        out.append(dict(name="B-pipe2-first-without-compiler", fn="h_pipeline",
                        kwargs=dict(registry="builtin", version=3, max_len=2, cap=2, firsts=without, backgrounds=1), budget=150, per_path=30))
        out.append(dict(name="B-pipe0-empty", fn="h_pipeline", kwargs=dict(registry="builtin", version=3, max_len=0, cap=3), budget=60, per_path=30))
        out.append(dict(name="B-pipe2-revpref-CONDITIONAL_EFFECTS_REMOVING", fn="h_pipeline",
                        kwargs=dict(registry="builtin", version=3, max_len=2, cap=3, first="CONDITIONAL_EFFECTS_REMOVING", rev_pref=True),
                        budget=150, per_path=30))
        out.append(dict(name="B-pipe2-ext-MA_CENTRALIZATION", fn="h_pipeline",
                        kwargs=dict(registry="ext", version=3, max_len=2, cap=3, first="MA_CENTRALIZATION", backgrounds=1), budget=150, per_path=30))
        out.append(dict(name="B-pipe2-v2-USERTYPE_FLUENTS_REMOVING", fn="h_pipeline",
                        kwargs=dict(registry="builtin", version=2, max_len=2, cap=3, first="USERTYPE_FLUENTS_REMOVING"), budget=150, per_path=30))
    else:
        for first in with_compiler:
            out.append(dict(name=f"B-pipe3-{first}", fn="h_pipeline", kwargs=dict(registry="builtin", version=3, max_len=3, cap=4, first=first),
                            budget=900, per_path=60))
            out.append(dict(name=f"B-pipe2-cap6-{first}", fn="h_pipeline", kwargs=dict(registry="builtin", version=3, max_len=2, cap=6, first=first),
                            budget=900, per_path=60))
            out.append(dict(name=f"B-pipe2-revpref-{first}", fn="h_pipeline",
                            kwargs=dict(registry="builtin", version=3, max_len=2, cap=4, first=first, rev_pref=True), budget=600, per_path=60))
            for v in (1, 2):
                out.append(dict(name=f"B-pipe2-v{v}-{first}", fn="h_pipeline", kwargs=dict(registry="builtin", version=v, max_len=2, cap=4, first=first),
                                budget=600, per_path=60))
        out.append(dict(name="B-pipe3-first-without-compiler", fn="h_pipeline",
                        kwargs=dict(registry="builtin", version=3, max_len=3, cap=2, firsts=without), budget=600, per_path=60))
        out.append(dict(name="B-pipe0-empty", fn="h_pipeline", kwargs=dict(registry="builtin", version=3, max_len=0, cap=4), budget=60, per_path=30))
        for first in ("GROUNDING", "CONDITIONAL_EFFECTS_REMOVING", "MA_CENTRALIZATION"):
            out.append(dict(name=f"B-pipe2-ext-{first}", fn="h_pipeline", kwargs=dict(registry="ext", version=3, max_len=2, cap=4, first=first),
                            budget=600, per_path=60))
    return out


MANIFEST = dict(
    engine="symex",
    technique="symbolic execution (CrossHair/z3) of the real Factory.Compiler pipeline selection on a symbolic ProblemKind feature set (one solver Boolean "
              "per freed feature); the chain K_i = resulting_problem_kind(K_{i-1}) is rebuilt with the selected compilers' real functions and "
              "'compiler i supports K_{i-1}' is a solver query on every path",
    text="Part B: bounded model checking over all ordered subsets of <= 2 (quick) / 3 (thorough) compilation kinds and, per sequence, all assignments of a "
         "run-time computed sub-universe of feature bits (the ones the chained compilers read/write plus one representative per support column), two backgrounds. "
         "Every returned pipeline must accept each intermediate kind; a refusal must be justified by a dead-ending chain. Path trees are exhausted.",
    note="The factory iterates problem_kind.features (forks per undecided bit), so the universal claim is per sub-universe, not over all 2^88 kinds. "
         "Trusted: SymFeatureSet/FastSFS model of the set API, z3. Counterexample kinds are replayed with real Python sets.",
)
