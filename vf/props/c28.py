"""C28 Timed-to-sequential plans convert back to valid temporal plans.

Symbolic: the constant duration bounds l, u of the durative action under test (whole numbers of ticks, tick = 1/den; k
symbolic), the initial value n0 of the numeric fluent that serves as a fluent-dependent duration bound.  Structure by
choice variables / shard parameters: which end of the duration interval is open (all 4 combinations), which bound is
fluent-dependent, whether another action changes that fluent, problem.epsilon in {None, a small Fraction}, and the
sequential plan of the compiled problem (every sequence of compiled actions up to the length bound).
Real code: TimedToSequential.compile (-> _compile, get_effects_data_structures, remove_fluents), SequentialPlanValidator on
the compiled problem (antecedent), CompilerResult.plan_back_conversion = plan_back_conversion_callable,
TimeTriggeredPlanValidator on the ORIGINAL problem.
Assertions on every path where the real sequential validator accepts the compiled plan:
  (1) every duration chosen by the back conversion lies inside the duration interval of its action, evaluated in the state in
      which the action starts (one linear solver query over l, u, n0 per action instance; the value of the bound fluent at each
      step is tracked by the harness from the skeleton's effects);
  (2) the real TimeTriggeredPlanValidator accepts the converted plan for the original problem.
"""
from fractions import Fraction

from vf import tplan
from vf.logic import And

PROPERTY = "C28"
LEVEL = "translation_validation"
FUNCTIONS = [
    "unified_planning.engines.compilers.timed_to_sequential:TimedToSequential._compile",
    "unified_planning.engines.compilers.timed_to_sequential:TimedToSequential.get_effects_data_structures",
    "unified_planning.engines.compilers.timed_to_sequential:TimedToSequential.get_start_effects_substitutions",
    "unified_planning.engines.compilers.timed_to_sequential:plan_back_conversion_callable",
    "unified_planning.engines.plan_validator:SequentialPlanValidator._validate",
    "unified_planning.engines.plan_validator:TimeTriggeredPlanValidator._validate",
]
BOUNDS = ("3 durative skeletons inside TimedToSequential.supported_kind() (Boolean fluents with at-start / at-end / over-all "
          "(closed, left-open) conditions, start and end effects incl. start+end effects on one fluent; a numeric skeleton with "
          "decrease-at-start / increase-at-end and an over-all numeric condition; an instantaneous action next to the durative ones); "
          "duration interval of the action under test: [l,u] (l,u[ ]l,u] ]l,u[ with l,u whole ticks symbolic in 0..8 (tick 1 or 1/4), "
          "or one bound the value of a numeric fluent with symbolic initial value (fluent constant -> pruned by the compiler, or "
          "increased by another action); problem.epsilon in {None, 1/8, 3}; every compiled plan of length 0..2 (quick) / 0..3 (thorough)")
OUTSIDE = ("conditional effects and intermediate conditions/effects (outside the compiler's supported kind), interpreted functions, "
           "object parameters in durations, problem.epsilon = 0, the zero-length duration interval [0,0] (start and end of the action are then one "
           "happening for the validator, while the compiled action applies start effects and then end effects)")
ASSUMPTIONS = [
    "constant duration intervals the library itself rejects as empty (UPProblemDefinitionError in set_duration_constraint) are pruned",
    "hash-consing tables keyed syntactically for symbolic constants (S2'); counterexamples are replayed with the real tables",
]


def _interval(env, lo, hi, lo_open, hi_open):
    from unified_planning.model.timing import (ClosedDurationInterval, LeftOpenDurationInterval, OpenDurationInterval,
                                               RightOpenDurationInterval)

    mk = {(False, False): ClosedDurationInterval, (True, False): LeftOpenDurationInterval,
          (False, True): RightOpenDurationInterval, (True, True): OpenDurationInterval}[(bool(lo_open), bool(hi_open))]
    return mk(lo, hi)


def _build(ctx, env, sk, lo_open, hi_open, bound, nmode, sym, den, eps):
    """-> dict(problem, A (action under test), lo/hi python values or 'n', n_after: how each ORIGINAL action changes n)"""
    from unified_planning.exceptions import UPProblemDefinitionError
    from unified_planning.model import (ClosedTimeInterval, DurativeAction, EndTiming, Fluent, InstantaneousAction,
                                        LeftOpenTimeInterval, Problem, StartTiming)

    em, tm = env.expression_manager, env.type_manager
    u = Fraction(1, den)

    def tick(k):
        return Fraction(k) if den == 1 else Fraction(k, den)

    with ctx.untraced():
        p = Problem("t2s", env)
        fl = {}
        for nme in ("x", "y", "z"):
            f = Fluent(nme, tm.BoolType(), environment=env)
            p.add_fluent(f, default_initial_value=em.FALSE())
            fl[nme] = em.FluentExp(f)
        nf = Fluent("n", tm.RealType(Fraction(-50), Fraction(50)), environment=env)
        m = Fluent("m", tm.IntType(-50, 50), environment=env)
        A = DurativeAction("A", _env=env)
        B = DurativeAction("B", _env=env)
    kl = tplan.num(ctx, "kl", sym.get("kl"), 2)
    ku = tplan.num(ctx, "ku", sym.get("ku"), 6)
    n0 = tplan.num(ctx, "n0", sym.get("n0"), 3)
    lo_v, hi_v = tick(kl), tick(ku)
    n_init = tick(n0)
    uses_n = bound in ("lower", "upper", "both")
    if uses_n or sk == "num":
        p.add_fluent(nf, default_initial_value=em.Real(n_init))
    n_exp = em.FluentExp(nf)
    if bound == "lower":
        lo_e, hi_e = n_exp, em.Real(hi_v)
    elif bound == "upper":
        lo_e, hi_e = em.Real(lo_v), n_exp
    elif bound == "both":  # [n, n + u]: never empty, fluent on both sides
        lo_e, hi_e = n_exp, em.Plus(n_exp, em.Real(hi_v))
    else:
        lo_e, hi_e = em.Real(lo_v), em.Real(hi_v)
    if not lo_open and not hi_open:
        # the zero-length interval [0, 0] is outside the claim (see OUTSIDE): the constant upper bound / the initial value of
        # the fluent that is the upper bound is positive
        ctx.assume((n_init if bound == "upper" else hi_v) > 0)
    try:
        A.set_duration_constraint(_interval(env, lo_e, hi_e, lo_open, hi_open))
    except UPProblemDefinitionError:
        ctx.assume(False)
    n_delta = {}  # original action name -> increment of n at its end
    if sk == "bool":
        # A: at-start not x ; [start] x:=T ; over-all ]start,end] x ; [end] x:=F, y:=T
        A.add_condition(StartTiming(), em.Not(fl["x"]))
        A.add_effect(StartTiming(), fl["x"], em.TRUE())
        A.add_condition(LeftOpenTimeInterval(StartTiming(), EndTiming()), fl["x"])
        A.add_effect(EndTiming(), fl["x"], em.FALSE())
        A.add_effect(EndTiming(), fl["y"], em.TRUE())
        # B: at-start y ; over-all [start,end] y ; [end] z:=T (fixed duration 2 ticks)
        B.set_fixed_duration(em.Real(2 * u))
        B.add_condition(StartTiming(), fl["y"])
        B.add_condition(ClosedTimeInterval(StartTiming(), EndTiming()), fl["y"])
        B.add_effect(EndTiming(), fl["z"], em.TRUE())
        if nmode == "changed" and uses_n:
            B.add_increase_effect(EndTiming(), n_exp, em.Real(u))
            n_delta["B"] = u
        p.add_action(A)
        p.add_action(B)
        p.add_goal(fl["y"])
    elif sk == "inst":
        # instantaneous I enables A; A: at-start x ; at-end x ; [end] y:=T ; I: [.] x:=T (and n += 1 tick)
        I = InstantaneousAction("I", _env=env)
        I.add_precondition(em.Not(fl["x"]))
        I.add_effect(fl["x"], em.TRUE())
        if nmode == "changed" and uses_n:
            I.add_increase_effect(n_exp, em.Real(u))
            n_delta["I"] = u
        A.add_condition(StartTiming(), fl["x"])
        A.add_condition(EndTiming(), fl["x"])
        A.add_effect(EndTiming(), fl["y"], em.TRUE())
        A.add_effect(EndTiming(), fl["x"], em.FALSE())
        p.add_action(I)
        p.add_action(A)
        p.add_goal(fl["y"])
    elif sk == "num":
        # numeric: A: [start] m -= 1 ; over-all [start,end] m >= 0 ; [end] m += 2, y:=T      (m starts at 1)
        p.add_fluent(m, default_initial_value=em.Int(1))
        m_exp = em.FluentExp(m)
        A.add_decrease_effect(StartTiming(), m_exp, em.Int(1))
        A.add_condition(ClosedTimeInterval(StartTiming(), EndTiming()), em.GE(m_exp, em.Int(0)))
        A.add_increase_effect(EndTiming(), m_exp, em.Int(2))
        A.add_effect(EndTiming(), fl["y"], em.TRUE())
        if nmode == "changed":
            A.add_increase_effect(EndTiming(), n_exp, em.Real(u))
            n_delta["A"] = u
        B.set_fixed_duration(em.Real(3 * u))
        B.add_condition(StartTiming(), em.GE(m_exp, em.Int(2)))
        B.add_effect(EndTiming(), fl["z"], em.TRUE())
        p.add_action(A)
        p.add_action(B)
        p.add_goal(fl["y"])
    else:
        raise ValueError(sk)
    if eps is not None:
        p.epsilon = Fraction(eps)
    return dict(problem=p, lo=lo_v, hi=hi_v, n_init=n_init, n_delta=n_delta, bound=bound)


def _bounds_at(S, n_now):
    b = S["bound"]
    if b == "lower":
        return n_now, S["hi"]
    if b == "upper":
        return S["lo"], n_now
    if b == "both":
        return n_now, n_now + S["hi"]
    return S["lo"], S["hi"]


def h_t2s(ctx, sk, lo_open, hi_open, sym, bound="const", nmode="pruned", eps=None, max_len=2, den=1, use_global=False):
    import contextlib

    from unified_planning.engines.compilers.timed_to_sequential import TimedToSequential
    from unified_planning.engines.mixins.compiler import CompilationKind
    from unified_planning.model import DurativeAction
    from unified_planning.plans import ActionInstance, SequentialPlan, TimeTriggeredPlan

    env = ctx.fresh_env(hashcons="syntactic")
    S = _build(ctx, env, sk, lo_open, hi_open, bound, nmode, sym, den, eps)
    problem = S["problem"]
    comp = TimedToSequential()
    with ctx.untraced():
        supported = comp.supports(problem.kind)
    if not supported:
        from vf.ctx import HarnessError

        raise HarnessError(f"skeleton {sk}/{bound} is outside TimedToSequential.supported_kind()")
    cm = tplan.as_global(env) if use_global else contextlib.nullcontext()
    with cm:
        res = comp.compile(problem, CompilationKind.TIMED_TO_SEQUENTIAL)
        cp = res.problem
        acts = list(cp.actions)
        n = ctx.choice("len", max_len + 1)
        steps = [acts[ctx.choice(f"s{i}", len(acts))] for i in range(n)]
        plan = SequentialPlan([ActionInstance(a) for a in steps], env)
        ok, _r = tplan.seq_valid(env, cp, plan)
        ctx.assume(ok)
        ctx.witness(f"compiled-valid-len{n}")
        back = res.plan_back_conversion(plan)
    ctx.check(isinstance(back, TimeTriggeredPlan), "back:not-a-tt-plan", "plan_back_conversion did not return a TimeTriggeredPlan")
    ctx.check(len(back.timed_actions) == n, "back:length", "the converted plan has a different number of action instances")
    # (1) durations inside the interval, in the state in which the action starts
    n_now = S["n_init"]
    flags = f"{'left-open' if lo_open else 'left-closed'}:{'right-open' if hi_open else 'right-closed'}:{bound}"
    for i, (start, ai, dur) in enumerate(back.timed_actions):
        ctx.check(ai.action.name == steps[i].name, "back:order", "the converted plan does not keep the order of the compiled plan")
        if isinstance(ai.action, DurativeAction):
            ctx.check(dur is not None, "back:no-duration", "a durative action was converted without a duration")
            if ai.action.name == "A":
                lo, hi = _bounds_at(S, n_now)
                nonempty = (lo < hi) if (lo_open or hi_open) else (lo <= hi)
                inside = And((lo < dur) if lo_open else (lo <= dur), (dur < hi) if hi_open else (dur <= hi))
                if bound != "const":
                    # a state-dependent interval can be empty in the state where the compiled action is applicable
                    ctx.require(nonempty, f"empty-interval:{flags}",
                                "the compiled action is applicable in a state where the duration interval of the original action is empty")
                ctx.require(inside, f"dur-outside:{flags}",
                            f"the back conversion chose a duration outside the action's duration interval "
                            f"({'left-open' if lo_open else 'left-closed'}, {'right-open' if hi_open else 'right-closed'}); "
                            f"lower={tplan.fs(lo)} upper={tplan.fs(hi)} chosen={tplan.fs(dur)}")
        else:
            ctx.check(dur is None, "back:duration-on-instantaneous", "an instantaneous action was converted with a duration")
        n_now = n_now + S["n_delta"].get(ai.action.name, 0)
    # (2) the real validator accepts the converted plan for the ORIGINAL problem
    ok2, r2 = tplan.tt_valid(env, problem, back)
    if not ok2 and any(d is not None and d == 0 for _s, _a, d in back.timed_actions):
        ctx.fail(f"back-invalid:zero-duration:{flags}",
                 f"compiled plan {[a.name for a in steps]} is valid for the compiled problem; the back conversion chose duration 0 for a durative "
                 f"action and the converted plan is rejected for the original problem ({r2.reason})")
    ctx.check(ok2, f"back-invalid:{flags}",
              f"compiled plan {[a.name for a in steps]} is valid for the compiled problem but the converted plan is rejected for the "
              f"original problem ({r2.reason})")
    ctx.witness("converted-valid")


def h_env(ctx, use_global):
    """concrete bounds; compile / back conversion in the path's own (non-global) environment resp. with it installed as the global one"""
    h_t2s(ctx, "bool", 0, 0, {}, max_len=2, use_global=use_global)


def shards(tier, seed):
    out = []
    Q = tier == "quick"
    L = 2 if Q else 3
    budget = 100 if Q else 1500
    W = dict(kl=[0, 8], ku=[0, 8])

    def sh(name, **kw):
        kw.setdefault("max_len", L)
        eng = kw.pop("engine", None)
        d = dict(name=name, fn="h_t2s", kwargs=kw, budget=budget, per_path=60)
        if eng:
            d["engine"] = eng
            d["budget"] = 3 * budget  # the direct engine's budget is wall-clock time
        out.append(d)

    for lo_open in (0, 1):
        for hi_open in (0, 1):
            tag = f"{'o' if lo_open else 'c'}{'o' if hi_open else 'c'}"
            sh(f"bool-const-{tag}", sk="bool", lo_open=lo_open, hi_open=hi_open, sym=W)
            sh(f"bool-lowerfl-{tag}", sk="bool", lo_open=lo_open, hi_open=hi_open, sym=dict(ku=[0, 8], n0=[0, 8]), bound="lower",
               nmode="pruned")
            sh(f"inst-upperfl-{tag}", sk="inst", lo_open=lo_open, hi_open=hi_open, sym=dict(kl=[0, 8], n0=[0, 8]), bound="upper",
               nmode="changed")
    sh("bool-const-oc-eps", sk="bool", lo_open=1, hi_open=0, sym=W, eps="1/8")
    sh("bool-const-co-eps3", sk="bool", lo_open=0, hi_open=1, sym=W, eps="3")
    sh("bool-both-cc", sk="bool", lo_open=0, hi_open=0, sym=dict(ku=[0, 8], n0=[0, 8]), bound="both", nmode="changed")
    sh("bool-both-oo", sk="bool", lo_open=1, hi_open=1, sym=dict(ku=[0, 8], n0=[0, 8]), bound="both", nmode="changed")
    sh("num-const-cc", sk="num", lo_open=0, hi_open=0, sym=W)
    sh("num-lowerfl-co", sk="num", lo_open=0, hi_open=1, sym=dict(ku=[0, 8], n0=[0, 8]), bound="lower", nmode="changed")
    sh("inst-const-oc", sk="inst", lo_open=1, hi_open=0, sym=W)
    sh("bool-const-den4-pool-oc", sk="bool", lo_open=1, hi_open=0, sym=dict(kl=[0, 5], ku=[0, 5]), den=4, engine="direct")
    sh("bool-const-den4-pool-co", sk="bool", lo_open=0, hi_open=1, sym=dict(kl=[0, 5], ku=[0, 5]), den=4, engine="direct")
    if not Q:
        for tag, lo_open, hi_open in (("cc", 0, 0), ("oc", 1, 0), ("co", 0, 1), ("oo", 1, 1)):
            sh(f"num-upperfl-{tag}", sk="num", lo_open=lo_open, hi_open=hi_open, sym=dict(kl=[0, 8], n0=[0, 8]), bound="upper",
               nmode="changed")
            sh(f"inst-lowerfl-{tag}-eps", sk="inst", lo_open=lo_open, hi_open=hi_open, sym=dict(ku=[0, 8], n0=[0, 8]), bound="lower",
               nmode="changed", eps="1/8")
    out.append(dict(name="env-nonglobal", fn="h_env", kwargs=dict(use_global=False), budget=300, engine="direct"))
    out.append(dict(name="env-global", fn="h_env", kwargs=dict(use_global=True), budget=300, engine="direct"))
    return out


MANIFEST = dict(
    engine="symex",
    technique="symbolic execution (CrossHair/z3) of the real TimedToSequential compiler, back conversion and both validators on durative skeletons with symbolic duration bounds and a symbolic initial value of the bound fluent; compiled plans enumerated by choice variables; 'duration inside its interval' as a linear solver query per action instance",
    text="Translation validation, bounded: for each skeleton, each open/closed combination, EVERY value of the symbolic bounds / initial value in the windows and every compiled plan up to the length bound that the real SequentialPlanValidator accepts, "
         "the plan returned by plan_back_conversion has every duration inside its action's duration interval (solver query) and is accepted by the real TimeTriggeredPlanValidator for the original problem.",
    note="Trusted: CrossHair's int/Fraction model, z3, the harness-side tracking of the bound fluent. Every path compiles in its own fresh (non-global) Environment; one concrete shard does so with that environment installed as the global one. Outside: conditional/intermediate effects (unsupported kind), interpreted functions, epsilon = 0.",
)
