"""C16 Expressions are hash-consed and constructors normalise as documented.

A history of constructor calls on ONE environment; the constructor of every step and its operands (indices into
the nodes built so far, or numeric literals) are choice variables.  A shadow term algebra (plain tuples) mirrors
every call with the documented normalisations applied (ExpressionManager docstrings: And/Or/Plus/Times of zero or
one argument, Not(Not(x)) = x, GE/GT are LE/LT with swapped operands, EqualsOrIff, numeric literals promoted to the
canonical Int / Real constant by auto_promote / uniform_numeric_constant, Int()/Real() build exactly that constant).
Assertions on every path:
  * structure: the real node has the operator, children and payload of its shadow term (recursively);
  * hash-consing: for every two nodes met, `n1 is n2`  <=>  shadow terms equal.  With symbolic literals the equality of
    two shadow terms is a solver matter: the environment's tables are association lists (ctx.fresh_env("exact")), so
    the real lookup in create_node forks exactly on "this literal equals that earlier literal", and the shadow
    comparison is evaluated under the same path condition;
  * node ids of distinct nodes pairwise distinct (also over the whole table of the environment);
  * (node_type, args, payload) of every node as observed when it was built is unchanged at the end of the history.
Symbolic: int literals (unbounded), Fractions k/den with den in {1, 2, 4} and k symbolic.  Shards with concrete
literals (ints, Fractions, dyadic floats, numeric strings) run on the direct engine with the real dict.
"""
from fractions import Fraction

PROPERTY = "C16"
LEVEL = "model_checking"
FUNCTIONS = [
    "unified_planning.model.expression:ExpressionManager.create_node",
    "unified_planning.model.expression:ExpressionManager.auto_promote",
    "unified_planning.model.expression:uniform_numeric_constant",
    "unified_planning.model.expression:ExpressionManager.And",
    "unified_planning.model.expression:ExpressionManager.Or",
    "unified_planning.model.expression:ExpressionManager.Not",
    "unified_planning.model.expression:ExpressionManager.Implies",
    "unified_planning.model.expression:ExpressionManager.Iff",
    "unified_planning.model.expression:ExpressionManager.EqualsOrIff",
    "unified_planning.model.expression:ExpressionManager.Exists",
    "unified_planning.model.expression:ExpressionManager.Forall",
    "unified_planning.model.expression:ExpressionManager.FluentExp",
    "unified_planning.model.expression:ExpressionManager.ParameterExp",
    "unified_planning.model.expression:ExpressionManager.VariableExp",
    "unified_planning.model.expression:ExpressionManager.ObjectExp",
    "unified_planning.model.expression:ExpressionManager.Bool",
    "unified_planning.model.expression:ExpressionManager.Int",
    "unified_planning.model.expression:ExpressionManager.Real",
    "unified_planning.model.expression:ExpressionManager.Plus",
    "unified_planning.model.expression:ExpressionManager.Minus",
    "unified_planning.model.expression:ExpressionManager.Times",
    "unified_planning.model.expression:ExpressionManager.Div",
    "unified_planning.model.expression:ExpressionManager.LE",
    "unified_planning.model.expression:ExpressionManager.GE",
    "unified_planning.model.expression:ExpressionManager.LT",
    "unified_planning.model.expression:ExpressionManager.GT",
    "unified_planning.model.expression:ExpressionManager.Equals",
    "unified_planning.model.fnode:FNode.__add__",
    "unified_planning.model.fnode:FNode.__neg__",
    "unified_planning.model.fnode:FNode.__ge__",
    "unified_planning.model.fnode:FNode.__invert__",
    "unified_planning.model.fnode:FNode.__hash__",
]
BOUNDS = ("histories of 2-3 (quick) / 3-4 (thorough) constructor calls drawn from a per-shard constructor family (Boolean, relational, arithmetic, "
          "leaves+quantifiers, infix operators, literal constructors), operands = any earlier node of the right sort or a numeric literal; the last "
          "step of some shards repeats an earlier call with fresh literals; "
          "symbolic shards: up to 6 literals per history, each an unbounded symbolic int or k/2, k/4 with k symbolic in [-12,12]; "
          "concrete shards: literals from {0, 1, 2, -1, 1/2, 4/2, 0.5, 2.0, '2', '0.5'}")
OUTSIDE = ("longer histories; ill-typed constructions (rejected by the type checker: see C14 for what a rejected construction leaves behind); "
           "Div by a constant-zero divisor (the type checker divides by it: pruned); timing / presence / Dot / trajectory-constraint nodes; XOr; "
           "floats that are not dyadic; Fractions with other symbolic denominators")
ASSUMPTIONS = ["symbolic shards: comparisons of a symbolic int with +-inf (TypeChecker.walk_plus/minus/times) are answered exactly by vf/infshim.py instead of "
               "a floating-point solver query",
               "symbolic shards: the type manager's tables are keyed syntactically (two types with equal symbolic bounds are two objects; the library "
               "compares numeric types by bounds, never by identity)",
               "symbolic shards: hash-consing tables are association lists compared with == (S2), so two symbolic literals share a node exactly "
               "when the solver allows them to be equal; the concrete shards use the real dict",
               "numeric fluents have two-sided bounds (an unbounded operand makes the type checker mix float('inf') with symbolic bounds)"]

CONCRETE_LITS = [("int", 0), ("int", 1), ("int", 2), ("int", -1), ("frac", (1, 2)), ("frac", (4, 2)), ("float", 0.5), ("float", 2.0),
                 ("str", "2"), ("str", "0.5")]


# ---------------------------------------------------------------- shadow algebra
def canon(form, v):
    """documented canonical constant of a numeric literal passed where an expression is expected"""
    if form == "int":
        return ("int", v)
    q = v if form == "frac" else Fraction(v)
    if q.denominator == 1:
        return ("int", q.numerator)
    return ("real", q)


def s_nary(tag, unit, args):
    if len(args) == 0:
        return unit
    if len(args) == 1:
        return args[0]
    return (tag,) + tuple(args)


def s_not(a):
    return a[1] if a[0] == "not" else ("not", a)


def sh_eq(a, b):
    """equality of shadow terms; numeric payloads may be symbolic (then this forks / is decided by the path condition)"""
    if a is b:
        return True
    if a[0] != b[0] or len(a) != len(b):
        return False
    tag = a[0]
    if tag in ("int", "real"):
        return bool(a[1] == b[1])
    if tag in ("bool", "param", "var", "obj"):
        return a[1] == b[1]
    start = 1
    if tag in ("fluent", "exists", "forall"):
        if a[1] != b[1]:
            return False
        start = 2
    for x, y in zip(a[start:], b[start:]):
        if not sh_eq(x, y):
            return False
    return True


def _tags():
    from unified_planning.model.operators import OperatorKind as K

    return {"and": K.AND, "or": K.OR, "not": K.NOT, "implies": K.IMPLIES, "iff": K.IFF, "exists": K.EXISTS, "forall": K.FORALL,
            "fluent": K.FLUENT_EXP, "param": K.PARAM_EXP, "var": K.VARIABLE_EXP, "obj": K.OBJECT_EXP, "bool": K.BOOL_CONSTANT,
            "int": K.INT_CONSTANT, "real": K.REAL_CONSTANT, "plus": K.PLUS, "minus": K.MINUS, "times": K.TIMES, "div": K.DIV,
            "le": K.LE, "lt": K.LT, "equals": K.EQUALS}


def payload_of(node):
    """payload through the public accessors"""
    if node.is_constant():
        return node.constant_value()
    if node.is_fluent_exp():
        return node.fluent()
    if node.is_parameter_exp():
        return node.parameter()
    if node.is_variable_exp():
        return node.variable()
    if node.is_exists() or node.is_forall():
        return tuple(node.variables())
    return None


def match(ctx, node, sh, pairs, tags, where):
    """the real node has the operator, children and payload of the shadow term; collects (node, shadow) of every sub-node"""
    from unified_planning.model.fnode import FNode

    ctx.check(type(node) is FNode, f"{where}:not-a-node", f"constructor returned {type(node).__name__}")
    pairs.append((node, sh))
    tag = sh[0]
    ctx.check(node.node_type == tags[tag], f"{where}:node-type", f"node type {node.node_type.name}, documented {tag}")
    kids = sh[1:]
    if tag == "int":
        p = node.constant_value()
        ctx.check(isinstance(p, int) and not isinstance(p, (bool, Fraction)) and bool(p == sh[1]), f"{where}:int-payload",
                  "Int constant does not hold the literal's integer value")
        kids = ()
    elif tag == "real":
        p = node.constant_value()
        ctx.check(isinstance(p, Fraction) and bool(p == sh[1]), f"{where}:real-payload", "Real constant does not hold the literal's Fraction value")
        kids = ()
    elif tag == "bool":
        ctx.check(node.constant_value() is sh[1], f"{where}:bool-payload", "Bool constant payload")
        kids = ()
    elif tag == "fluent":
        ctx.check(node.fluent().name == sh[1], f"{where}:fluent-payload", "fluent payload")
        kids = sh[2:]
    elif tag == "param":
        ctx.check(node.parameter().name == sh[1], f"{where}:param-payload", "parameter payload")
        kids = ()
    elif tag == "var":
        ctx.check(node.variable().name == sh[1], f"{where}:var-payload", "variable payload")
        kids = ()
    elif tag == "obj":
        ctx.check(node.object().name == sh[1], f"{where}:obj-payload", "object payload")
        kids = ()
    elif tag in ("exists", "forall"):
        ctx.check(tuple(v.name for v in node.variables()) == sh[1], f"{where}:quantifier-vars", "quantifier variables")
        kids = sh[2:]
    ctx.check(len(node.args) == len(kids), f"{where}:arity", f"{len(node.args)} children, documented {len(kids)}")
    for a, k in zip(node.args, kids):
        match(ctx, a, k, pairs, tags, where)


# ---------------------------------------------------------------- constructor table
# slots: b = Boolean node, n = numeric operand (earlier numeric node or a literal passed raw), N = numeric node,
#        I = int literal for em.Int, Q = Fraction literal for em.Real, T = truth value, V = variable tuple, O = object-sorted leaf
def _ops():
    T, F = ("bool", True), ("bool", False)
    I0, I1 = ("int", 0), ("int", 1)
    o = {}
    o["And2"] = ("bb", lambda em, a: em.And(a[0], a[1]), lambda s: s_nary("and", T, s))
    o["AndL"] = ("bb", lambda em, a: em.And([a[0], a[1]]), lambda s: s_nary("and", T, s))
    o["And3"] = ("bbb", lambda em, a: em.And(a[0], [a[1], a[2]]), lambda s: s_nary("and", T, s))
    o["And1"] = ("b", lambda em, a: em.And(a[0]), lambda s: s_nary("and", T, s))
    o["And1L"] = ("b", lambda em, a: em.And([a[0]]), lambda s: s_nary("and", T, s))
    o["And0"] = ("", lambda em, a: em.And(), lambda s: T)
    o["And0L"] = ("", lambda em, a: em.And([]), lambda s: T)
    o["Or2"] = ("bb", lambda em, a: em.Or(a[0], a[1]), lambda s: s_nary("or", F, s))
    o["OrL"] = ("bb", lambda em, a: em.Or([a[0], a[1]]), lambda s: s_nary("or", F, s))
    o["Or1"] = ("b", lambda em, a: em.Or(a[0]), lambda s: s_nary("or", F, s))
    o["Or0"] = ("", lambda em, a: em.Or(), lambda s: F)
    o["Or0L"] = ("", lambda em, a: em.Or([]), lambda s: F)
    o["Not"] = ("b", lambda em, a: em.Not(a[0]), lambda s: s_not(s[0]))
    o["Implies"] = ("bb", lambda em, a: em.Implies(a[0], a[1]), lambda s: ("implies", s[0], s[1]))
    o["Iff"] = ("bb", lambda em, a: em.Iff(a[0], a[1]), lambda s: ("iff", s[0], s[1]))
    o["EqIffB"] = ("bb", lambda em, a: em.EqualsOrIff(a[0], a[1]), lambda s: ("iff", s[0], s[1]))
    o["Bool"] = ("T", lambda em, a: em.Bool(a[0]), lambda s: ("bool", s[0]))
    o["TRUE"] = ("", lambda em, a: em.TRUE(), lambda s: T)
    o["FALSE"] = ("", lambda em, a: em.FALSE(), lambda s: F)
    o["LE"] = ("nn", lambda em, a: em.LE(a[0], a[1]), lambda s: ("le", s[0], s[1]))
    o["GE"] = ("nn", lambda em, a: em.GE(a[0], a[1]), lambda s: ("le", s[1], s[0]))
    o["LT"] = ("nn", lambda em, a: em.LT(a[0], a[1]), lambda s: ("lt", s[0], s[1]))
    o["GT"] = ("nn", lambda em, a: em.GT(a[0], a[1]), lambda s: ("lt", s[1], s[0]))
    o["Equals"] = ("nn", lambda em, a: em.Equals(a[0], a[1]), lambda s: ("equals", s[0], s[1]))
    o["EqIffN"] = ("nn", lambda em, a: em.EqualsOrIff(a[0], a[1]), lambda s: ("equals", s[0], s[1]))
    o["Plus2"] = ("nn", lambda em, a: em.Plus(a[0], a[1]), lambda s: s_nary("plus", I0, s))
    o["PlusL"] = ("nn", lambda em, a: em.Plus([a[0], a[1]]), lambda s: s_nary("plus", I0, s))
    o["Plus1"] = ("n", lambda em, a: em.Plus(a[0]), lambda s: s_nary("plus", I0, s))
    o["Plus0"] = ("", lambda em, a: em.Plus(), lambda s: I0)
    o["Plus0L"] = ("", lambda em, a: em.Plus([]), lambda s: I0)
    o["Times2"] = ("nn", lambda em, a: em.Times(a[0], a[1]), lambda s: s_nary("times", I1, s))
    o["Times1"] = ("n", lambda em, a: em.Times([a[0]]), lambda s: s_nary("times", I1, s))
    o["Times0"] = ("", lambda em, a: em.Times(), lambda s: I1)
    o["Times0L"] = ("", lambda em, a: em.Times([]), lambda s: I1)
    o["Minus"] = ("nn", lambda em, a: em.Minus(a[0], a[1]), lambda s: ("minus", s[0], s[1]))
    o["Div"] = ("nn", lambda em, a: em.Div(a[0], a[1]), lambda s: ("div", s[0], s[1]))
    o["Int"] = ("I", lambda em, a: em.Int(a[0]), lambda s: ("int", s[0]))
    o["Real"] = ("Q", lambda em, a: em.Real(a[0]), lambda s: ("real", s[0]))
    # infix operators of FNode (left operand is a node)
    o["iadd"] = ("Nn", lambda em, a: a[0] + a[1], lambda s: s_nary("plus", I0, s))
    o["iradd"] = ("nN", lambda em, a: a[0] + a[1], lambda s: s_nary("plus", I0, s))
    o["isub"] = ("Nn", lambda em, a: a[0] - a[1], lambda s: ("minus", s[0], s[1]))
    o["imul"] = ("Nn", lambda em, a: a[0] * a[1], lambda s: s_nary("times", I1, s))
    o["ineg"] = ("N", lambda em, a: -a[0], lambda s: ("minus", I0, s[0]))
    o["ipos"] = ("N", lambda em, a: +a[0], lambda s: ("plus", I0, s[0]))
    o["ige"] = ("Nn", lambda em, a: a[0] >= a[1], lambda s: ("le", s[1], s[0]))
    o["igt"] = ("Nn", lambda em, a: a[0] > a[1], lambda s: ("lt", s[1], s[0]))
    o["ile"] = ("Nn", lambda em, a: a[0] <= a[1], lambda s: ("le", s[0], s[1]))
    o["ilt"] = ("Nn", lambda em, a: a[0] < a[1], lambda s: ("lt", s[0], s[1]))
    o["iinv"] = ("b", lambda em, a: ~a[0], lambda s: s_not(s[0]))
    o["iand"] = ("bb", lambda em, a: a[0] & a[1], lambda s: s_nary("and", T, s))
    o["ior"] = ("bb", lambda em, a: a[0] | a[1], lambda s: s_nary("or", F, s))
    o["mNot"] = ("b", lambda em, a: a[0].Not(), lambda s: s_not(s[0]))
    o["mEquals"] = ("Nn", lambda em, a: a[0].Equals(a[1]), lambda s: ("equals", s[0], s[1]))
    return o


class World:
    """leaves of the history, built concretely; `dup` objects are equal to, but not the same object as, the originals"""


def _world(env):
    from unified_planning.model import Fluent, Object, Parameter, Variable

    em, tm = env.expression_manager, env.type_manager
    w = World()
    w.T = tm.UserType("T")
    w.S = tm.UserType("S", w.T)
    mk = {}
    for tag in ("a", "b"):  # two structurally equal copies of every model object
        mk[tag] = dict(
            b1=Fluent("b1", tm.BoolType(), environment=env), b2=Fluent("b2", tm.BoolType(), environment=env),
            n=Fluent("n", tm.IntType(0, 10), environment=env), r=Fluent("r", tm.RealType(0, 10), environment=env),
            p=Fluent("p", tm.BoolType(), environment=env, x=w.T), g=Fluent("g", tm.IntType(0, 10), environment=env, x=w.T),
            o1=Object("o1", w.T, env), o2=Object("o2", w.S, env), x=Parameter("x", w.T, env), y=Variable("y", w.T, env),
            z=Variable("z", w.S, env))
    w.orig, w.dup = mk["a"], mk["b"]
    w.em = em
    return w


def _leaf_ops(w):
    """constructors of leaves / quantifiers: (slots, build, shadow); `D` picks the original or the equal duplicate model object"""
    em = w.em
    pick = lambda d, k: (w.dup if d else w.orig)[k]  # noqa: E731
    o = {}
    o["Fl_b1"] = ("D", lambda em, a: em.FluentExp(pick(a[0], "b1")), lambda s: ("fluent", "b1"))
    o["Fl_b2"] = ("D", lambda em, a: em.FluentExp(pick(a[0], "b2"), []), lambda s: ("fluent", "b2"))
    o["Fl_n"] = ("D", lambda em, a: em.FluentExp(pick(a[0], "n"), ()), lambda s: ("fluent", "n"))
    o["Fl_p"] = ("DO", lambda em, a: em.FluentExp(pick(a[0], "p"), [a[1]]), lambda s: ("fluent", "p", s[1]))
    o["Fl_p_raw"] = ("DR", lambda em, a: em.FluentExp(pick(a[0], "p"), [a[1]]), lambda s: ("fluent", "p", s[1]))
    o["Fl_g"] = ("DO", lambda em, a: em.FluentExp(pick(a[0], "g"), (a[1],)), lambda s: ("fluent", "g", s[1]))
    o["Obj1"] = ("D", lambda em, a: em.ObjectExp(pick(a[0], "o1")), lambda s: ("obj", "o1"))
    o["Obj2"] = ("D", lambda em, a: em.ObjectExp(pick(a[0], "o2")), lambda s: ("obj", "o2"))
    o["Par"] = ("D", lambda em, a: em.ParameterExp(pick(a[0], "x")), lambda s: ("param", "x"))
    o["VarY"] = ("D", lambda em, a: em.VariableExp(pick(a[0], "y")), lambda s: ("var", "y"))
    o["VarZ"] = ("D", lambda em, a: em.VariableExp(pick(a[0], "z")), lambda s: ("var", "z"))
    o["Exists"] = ("bV", lambda em, a: em.Exists(a[0], *a[1]), lambda s: ("exists", s[1], s[0]))
    o["Forall"] = ("bV", lambda em, a: em.Forall(a[0], *a[1]), lambda s: ("forall", s[1], s[0]))
    o["AutoFl"] = ("D", lambda em, a: em.And(pick(a[0], "b1"), pick(1 - a[0], "b2")), lambda s: ("and", ("fluent", "b1"), ("fluent", "b2")))
    return o


VARSETS = [("y",), ("z",), ("y", "z"), ("z", "y")]
RAW_OBJ = ["o1", "o2", "x", "y"]  # model objects passed raw (auto_promote) as a fluent parameter


def _draw_literal(ctx, st, lits, forms, form=None, rng=(None, None)):
    """-> (form, python value).  lits == 'sym': a fresh solver variable; else a member of CONCRETE_LITS"""
    i = st["nlit"]
    st["nlit"] += 1
    if lits == "sym":
        if form is None:
            form = forms[ctx.choice(f"litform{i}", len(forms))]
        if form == "int":
            return "int", ctx.int(f"lit{i}", *rng), form
        den = int(form[4:])
        return "frac", Fraction(ctx.int(f"lit{i}", -12, 12), den), form
    pool = [CONCRETE_LITS[j] for j in forms] if forms else CONCRETE_LITS
    f, v = pool[ctx.choice(f"lit{i}", len(pool))]
    if f == "frac":
        v = Fraction(*v)
    return f, v, None


def h_history(ctx, ops, plan, lits=None, forms=None, leaves=("b1", "b2"), max_lits=4, window=None, int_range=(None, None)):
    """ops: names of the constructors a free step may use.  plan: one entry per step: "free" (constructor and operands are
    choices), "again" (an earlier step, chosen, is repeated with the same node operands and FRESH literals / model-object copies),
    or a constructor name (operands are choices).  window: operands are leaves or one of the last `window` built nodes."""
    from unified_planning.exceptions import UPTypeError

    env = ctx.fresh_env(hashcons="exact")
    em = env.expression_manager
    with ctx.untraced():
        if ctx.mode == "sym":
            # the TYPE tables (not the subject here) are keyed syntactically: IntType(s, s) of a symbolic literal never forks on
            # "same bounds as an earlier type"; types are compared by their bounds wherever the library compares them
            from vf import infshim, shims
            infshim.install()  # int-vs-infinity comparisons of the type checker answered exactly (no floating-point query)
            env.type_manager._ints = shims.SynMap(list(env.type_manager._ints.items()))
            env.type_manager._reals = shims.SynMap(list(env.type_manager._reals.items()))
        w = _world(env)
        tags = _tags()
        table = dict(_ops())
        table.update(_leaf_ops(w))
        base = {k: em.FluentExp(w.orig[k]) for k in ("b1", "b2", "n", "r")}
        base["o1"] = em.ObjectExp(w.orig["o1"])
        base["x"] = em.ParameterExp(w.orig["x"])
        base["y"] = em.VariableExp(w.orig["y"])
        base["py"] = em.FluentExp(w.orig["p"], [base["y"]])
    kind_of = {"b1": "b", "b2": "b", "n": "n", "r": "n", "o1": "o", "x": "o", "y": "o", "py": "b"}
    shadow_of = {"b1": ("fluent", "b1"), "b2": ("fluent", "b2"), "n": ("fluent", "n"), "r": ("fluent", "r"), "o1": ("obj", "o1"),
                 "x": ("param", "x"), "y": ("var", "y"), "py": ("fluent", "p", ("var", "y"))}
    nodes = [(base[k], shadow_of[k], kind_of[k]) for k in leaves]
    snaps, pairs = [], []
    st = dict(nlit=0)
    lit_forms = forms if forms is not None else (["int", "frac2", "frac4"] if lits == "sym" else None)
    raw_sh = {"o1": ("obj", "o1"), "o2": ("obj", "o2"), "x": ("param", "x"), "y": ("var", "y")}

    def snap(node):
        snaps.append((node, node.node_type, tuple(node.args), payload_of(node), node.node_id))

    for n, _s, _k in nodes:
        snap(n)
    done = []  # (constructor name, per-slot decisions) of the executed steps
    for k, what in enumerate(plan):
        template = None
        if what == "again":
            ctx.assume(len(done) > 0)
            name, template = done[ctx.choice(f"again{k}", len(done))]
        elif what == "free":
            name = ops[ctx.choice(f"op{k}", len(ops))]
        else:
            name = what
        slots, build, shadow = table[name]
        args, shs, decisions = [], [], []
        for si, slot in enumerate(slots):
            tdec = template[si] if template is not None else None
            if slot in "bNnO":
                want = {"b": "b", "N": "n", "n": "n", "O": "o"}[slot]
                cands = [i for i, (_n, _sh, kd) in enumerate(nodes) if kd == want
                         and (window is None or i < len(leaves) or i >= len(nodes) - window)]
                if tdec is not None:
                    c = tdec[1] if tdec[0] == "node" else None
                else:
                    n_lit = 1 if (slot == "n" and lits is not None and st["nlit"] < max_lits) else 0
                    ctx.assume(len(cands) + n_lit > 0)
                    c = ctx.choice(f"a{k}_{si}", len(cands) + n_lit)
                    c = cands[c] if c < len(cands) else None
                if c is not None:
                    args.append(nodes[c][0])
                    shs.append(nodes[c][1])
                    decisions.append(("node", c))
                else:
                    form, v, f0 = _draw_literal(ctx, st, lits, lit_forms, tdec[1] if tdec is not None else None, int_range)
                    args.append(v)
                    shs.append(canon(form, v))
                    decisions.append(("lit", f0))
                continue
            decisions.append(None)
            if slot == "I":
                if lits == "sym":
                    v = ctx.int(f"lit{st['nlit']}", *int_range)
                    st["nlit"] += 1
                else:
                    ints = [v for f, v in CONCRETE_LITS if f == "int"]
                    v = ints[ctx.choice(f"int{k}", len(ints))]
                args.append(v)
                shs.append(v)
            elif slot == "Q":
                if lits == "sym":
                    den = (1, 2, 4)[ctx.choice(f"den{k}", 3)]
                    v = Fraction(ctx.int(f"lit{st['nlit']}", -12, 12), den)
                    st["nlit"] += 1
                else:
                    fr = [Fraction(1, 2), Fraction(4, 2), Fraction(3, 1), Fraction(-1, 2)]
                    v = fr[ctx.choice(f"frac{k}", len(fr))]
                args.append(v)
                shs.append(v)
            elif slot == "T":
                v = bool(ctx.choice(f"t{k}", 2))
                args.append(v)
                shs.append(v)
            elif slot == "D":
                args.append(ctx.choice(f"dup{k}", 2))
                shs.append(None)
            elif slot == "V":
                vs = VARSETS[ctx.choice(f"vars{k}", len(VARSETS))]
                d = ctx.choice(f"vdup{k}", 2)
                args.append(tuple((w.dup if d else w.orig)[v] for v in vs))
                shs.append(vs)
            elif slot == "R":
                nm = RAW_OBJ[ctx.choice(f"raw{k}", len(RAW_OBJ))]
                d = ctx.choice(f"rdup{k}", 2)
                args.append((w.dup if d else w.orig)[nm])
                shs.append(raw_sh[nm])
        done.append((name, decisions))
        try:
            node = build(em, args)
        except ZeroDivisionError:
            ctx.assume(False)  # Div by a constant-zero divisor: the type checker divides by it (outside the claim)
        except UPTypeError:
            ctx.assume(False)  # not in the typed grammar
        sh = shadow(shs)
        match(ctx, node, sh, pairs, tags, name)
        kd = "b" if sh[0] in ("and", "or", "not", "implies", "iff", "exists", "forall", "bool", "le", "lt", "equals") else \
             "o" if sh[0] in ("obj", "param", "var") else "n"
        if sh[0] == "fluent":
            kd = {"b1": "b", "b2": "b", "p": "b", "n": "n", "r": "n", "g": "n"}[sh[1]]
        nodes.append((node, sh, kd))
        snap(node)
    # hash-consing: identical <=> shadow terms equal, over every node met (incl. sub-nodes and literal constants)
    for n, sh, _k in nodes[:len(leaves)]:
        pairs.append((n, sh))
    seen, uniq = set(), []
    for n, sh in pairs:
        if (id(n), id(sh)) not in seen:
            seen.add((id(n), id(sh)))
            uniq.append((n, sh))
    for i in range(len(uniq)):
        for j in range(i + 1, len(uniq)):
            (n1, s1), (n2, s2) = uniq[i], uniq[j]
            same = sh_eq(s1, s2)
            if same:
                ctx.check(n1 is n2, "hashcons:equal-terms-distinct-nodes", "the same expression was built twice and the two nodes are not identical")
                ctx.witness("identical")
            else:
                ctx.check(n1 is not n2, "hashcons:different-terms-same-node", "two structurally different expressions are the same node")
                ctx.witness("distinct")
    # ids pairwise distinct over distinct nodes, and over the whole table
    distinct = {}
    for n, _sh in uniq:
        distinct[id(n)] = n
    ids = [n.node_id for n in distinct.values()]
    ctx.check(len(set(ids)) == len(ids), "ids:not-distinct", "two distinct nodes share a node id")
    allnodes = list(em.expressions.values())
    ctx.check(len({n.node_id for n in allnodes}) == len(allnodes), "ids:table-not-distinct", "two nodes of the environment share a node id")
    ctx.check(all(hash(n) == n.node_id for n in distinct.values()), "ids:hash", "hash(node) is not its id")
    # immutability: what was observed at creation is what is observed now
    for node, t0, a0, p0, id0 in snaps:
        a1 = tuple(node.args)
        ok = node.node_type == t0 and node.node_id == id0 and len(a1) == len(a0) and all(x is y for x, y in zip(a1, a0))
        p1 = payload_of(node)
        ok = ok and (p1 is p0 or bool(p1 == p0))
        ctx.check(ok, "immutable:changed", "operator, children, payload or id of an earlier node changed during the history")
    ctx.witness("history")


def h_alias(ctx):
    """The model object stored as a node's payload must not alias a container the caller still holds: a fluent is built from a
    caller-owned signature container, an expression is built over it, the caller then edits his container, and everything
    observed before (signature, hash, equality with an independently built equal fluent, the node, a rebuilt node) must be unchanged."""
    from collections import OrderedDict

    from unified_planning.model import Fluent, Object, Parameter

    env = ctx.fresh_env(hashcons="exact")
    em, tm = env.expression_manager, env.type_manager
    T = tm.UserType("T")
    S = tm.UserType("S", T)
    arity = 1 + ctx.choice("arity", 2)
    names = ["l1", "l2"][:arity]
    form = ("list", "odict")[ctx.choice("form", 2)]
    if form == "list":
        box = [Parameter(nm, T, env) for nm in names]
    else:
        box = OrderedDict((nm, T) for nm in names)
    f = Fluent("visited", tm.BoolType(), box, env)
    twin = Fluent("visited", tm.BoolType(), environment=env, **{nm: T for nm in names})
    objs = [em.ObjectExp(Object(f"o{i}", T, env)) for i in range(arity)]
    node = em.FluentExp(f, objs)
    sig0 = [(q.name, q.type) for q in f.signature]
    h0, id0, args0 = hash(f), node.node_id, tuple(node.args)
    ctx.check(f == twin and hash(f) == hash(twin) and em.FluentExp(twin, objs) is node, "alias:twin-before",
              "two equal fluents do not give the identical node")
    mut = ctx.choice("mutation", 5)
    if form == "list":
        if mut == 0:
            box.append(Parameter("l9", T, env))
        elif mut == 1:
            box.pop()
        elif mut == 2:
            box.clear()
        elif mut == 3:
            box[0] = Parameter("other", S, env)
        else:
            box.reverse()
            ctx.assume(arity == 2)
    else:
        if mut == 0:
            box["l9"] = T
        elif mut == 1:
            box.popitem()
        elif mut == 2:
            box.clear()
        elif mut == 3:
            box[names[0]] = S
        else:
            box.move_to_end(names[0])
            ctx.assume(arity == 2)
    ok = [(q.name, q.type) for q in f.signature] == sig0 and hash(f) == h0 and f == twin and f.arity == arity
    ctx.check(ok, "alias:fluent-changed", "a fluent changed when the caller edited the container he built its signature from")
    ok = node.node_id == id0 and tuple(node.args) == args0 and node.fluent() is f and len(node.args) == node.fluent().arity
    ctx.check(ok, "immutable:changed", "operator, children, payload or id of an earlier node changed")
    again = em.FluentExp(f, objs)
    ctx.check(again is node, "hashcons:equal-terms-distinct-nodes", "the same expression was built twice and the two nodes are not identical")
    ctx.check(em.FluentExp(twin, objs) is node, "hashcons:equal-terms-distinct-nodes", "the same expression over an equal fluent is a different node")
    ctx.witness("alias")


FAMILIES = {
    "bool": ["And2", "AndL", "And1", "And0", "Or2", "Or1", "Or0", "Not", "Implies", "Iff", "EqIffB", "Bool"],
    "bool3": ["And3", "And2", "And1L", "And0L", "OrL", "Or0L", "Not", "TRUE", "FALSE"],
    "rel": ["LE", "GE", "LT", "GT", "Equals", "EqIffN"],
    "arith1": ["Plus2", "PlusL", "Plus1", "Plus0", "Plus0L", "Minus", "Int"],
    "arith2": ["Times2", "Times1", "Times0", "Times0L", "Div", "Real", "Plus2"],
    "infix-n": ["iadd", "iradd", "isub", "imul", "ineg", "ipos", "Plus2", "Minus", "Times2"],
    "infix-r": ["ige", "igt", "ile", "ilt", "LE", "LT", "mEquals", "Equals"],
    "infix-b": ["iinv", "iand", "ior", "mNot", "Not", "And2", "Or2"],
    "leaves": ["Fl_b1", "Fl_b2", "Fl_n", "Fl_p", "Fl_p_raw", "Fl_g", "Obj1", "Obj2", "Par", "VarY", "VarZ", "AutoFl"],
    "quant": ["Exists", "Forall", "Fl_p", "VarY", "And2", "Not"],
}
# sub-families for the deeper histories (operands built by earlier steps)
DEEP = {
    "bool-a": (["And2", "Not", "And1", "Or2"], ["b1"]),
    "bool-b": (["Implies", "Iff", "Not", "Or1", "Bool"], ["b1"]),
    "rel-a": (["LE", "GE", "Not", "Plus2"], ["n"]),
    "arith-a": (["Plus2", "Plus1", "Minus"], ["n"]),
    "arith-b": (["Times2", "Times1", "Div", "Plus0", "Times0"], ["n"]),
    "infix-a": (["iadd", "ige", "LE", "ineg"], ["n"]),
    "quant-a": (["Exists", "Not"], ["py"]),
    "quant-b": (["Forall", "Exists"], ["py"]),
}


def shards(tier, seed):
    out = []
    deep = tier != "quick"
    B = 900 if deep else 100

    def add(name, **kw):
        eng = kw.pop("engine", "symex")
        # the direct engine's budget is wall time: generous, the machine is shared (measured: <= 45 s CPU per quick shard)
        out.append(dict(name=name, fn="h_history", kwargs=kw, budget=B if eng == "symex" else 3 * B, per_path=30, engine=eng))

    # ---- concrete literals, real dict, direct engine: structure
    lits_q = [2, 5, 6, 7, 8]  # indices into CONCRETE_LITS: 2, 4/2, 0.5, 2.0 (an integral float), '2'
    for fam in ("bool", "bool3", "infix-b"):
        add(f"direct-pairs-{fam}", ops=FAMILIES[fam], plan=["free"] * (3 if deep else 2), leaves=["b1", "b2"], engine="direct")
    for fam in ("rel", "arith1", "arith2", "infix-n", "infix-r"):
        add(f"direct-pairs-{fam}", ops=FAMILIES[fam], plan=["free", "free"] + (["again"] if deep else []), lits="concrete", leaves=["n"],
            engine="direct", forms=None if deep else lits_q, max_lits=4 if deep else 2)
    add("direct-pairs-leaves", ops=FAMILIES["leaves"], plan=["free"] * (3 if deep else 2), leaves=["o1", "x", "y"], engine="direct")
    add("direct-pairs-quant", ops=FAMILIES["quant"], plan=["free"] * (3 if deep else 2), leaves=["py", "y"], engine="direct")
    for nm, (ops, lv) in DEEP.items():
        if not deep and nm in ("bool-b", "quant-b"):
            continue
        numeric = lv == ["n"]
        add(f"direct-deep-{nm}", ops=ops, plan=["free"] * (4 if deep else 3), leaves=lv, engine="direct",
            lits="concrete" if numeric else None, forms=[2, 4] if numeric else None, max_lits=2 if deep else 1,
            window=2 if deep else None)
    out.append(dict(name="direct-alias", fn="h_alias", kwargs={}, budget=3 * B, per_path=30, engine="direct"))
    # ---- symbolic literals: sharing of constants decided by the solver at the real lookup
    consts = ["Int", "Real", "Plus1", "Times1"]
    for first in consts if deep else consts[:3]:
        add(f"sym-const-{first}", ops=consts, plan=[first, "free"] + (["free"] if deep else []), lits="sym", leaves=["n"], max_lits=4)
    add("sym-const-again", ops=consts, plan=["free", "again"] + (["again"] if deep else []), lits="sym", leaves=["n"], max_lits=4,
        forms=["int", "frac2"] if deep else None)
    for nm, ops, forms in (("le-ge-int", ["LE", "GE"], ["int"]), ("le-ge-frac2", ["LE", "GE"], ["frac2"]), ("lt-gt-frac4", ["GT", "LT"], ["frac4"]),
                           ("lt-gt-int", ["LT", "GT"], ["int"]), ("eq-le-int", ["Equals", "LE"], ["int"]), ("eq-ge-frac2", ["EqIffN", "GE"], ["frac2"]),
                           ("infix-int", ["ige", "ile", "LE"], ["int"]), ("infix-frac2", ["igt", "ilt", "mEquals"], ["frac2"]),
                           ("plus-minus-int", ["Plus2", "Minus"], ["int"]), ("plus-times-int", ["PlusL", "Times2"], ["int"]),
                           ("iadd-minus-int", ["iadd", "isub", "ineg"], ["int"])):
        if not deep and nm == "infix-frac2":
            continue
        plan = ["free", "free"] + (["again"] if forms == ["int"] or deep else []) + (["again"] if deep and forms == ["int"] else [])
        if forms == ["frac4"] and not deep:
            plan[0] = ops[0]
        arith = ops[0][0] in "Pi" and ops[0] not in ("ige",)
        if "Times2" in ops and not deep:
            plan = ["free", "again"]  # the type of a product takes min/max of four symbolic products: many forks per node
        add(f"sym-{nm}", ops=ops, plan=plan, lits="sym", forms=forms, leaves=["n"], max_lits=2 if not deep else 3,
            window=1 if arith else None, int_range=[-8, 8] if arith else [None, None])
    return out


MANIFEST = dict(
    engine="symex",
    technique="symbolic execution (CrossHair/z3) of ExpressionManager constructor histories with symbolic numeric literals against a shadow term algebra; "
              "choice-exhaustive re-execution (direct engine, real dict) for the structural shards",
    text="Bounded model checking of hash-consing: every history of 3 (thorough: 4) constructor calls from each constructor family, every choice of operands "
         "among the nodes built so far, and EVERY value of the numeric literals (ints unbounded, k/2 and k/4 rationals) - whether two literals coincide is "
         "decided by the solver at the real create_node lookup. Real nodes must be identical exactly when the shadow terms (documented normalisations applied) "
         "are equal, must have the documented operator/children/payload, pairwise distinct ids, and never change.",
    note="Trusted: the shadow algebra (my reading of the ExpressionManager docstrings), CrossHair's int/Fraction model, z3, the association-list replacement of "
         "the table object in symbolic shards (create_node's lookup/insert logic is what runs; the concrete shards use the real dict). "
         "Outside: ill-typed constructions, Div by constant zero, temporal/presence/Dot nodes, XOr.",
)
