"""C08 Compilers succeed and produce well-formed results inside their supported kind.

Same (compiler, problem) programs as C06 (vf/compfam.py), every one additionally built with identifiers from an
ADVERSARIAL POOL (separators, prefixes of one another, names equal to names the compilers generate).  The real
compile() runs; assertions on the concrete result: no exception other than the documented rejection
(UPProblemDefinitionError), every name unique, every referenced fluent / object / type / parameter declared,
plan_back_conversion available and callable on the empty plan and on every one-step plan.
Solver role: LOW.  Identifiers are drawn by choice variables; the engine acts as a bounded exhaustive explorer and
the solver decides nothing beyond the feasibility of the choices (symbolic strings through dict keys and has_name
realise under CrossHair: probed).  The universal claim "for every identifier" is outside.
"""
from vf import compfam, gen

PROPERTY = "C08"
LEVEL = "exploration"
FUNCTIONS = [
    "unified_planning.engines.compilers.utils:get_fresh_name",
    "unified_planning.engines.compilers.utils:create_action_with_given_subs",
    "unified_planning.engines.compilers.grounder:Grounder._compile",
    "unified_planning.engines.results:CompilerResult._post_init",
    "unified_planning.engines.compilers.compilers_pipeline:CompilersPipeline._compile",
    "unified_planning.model.mixins.actions_set:ActionsSetMixin.add_action",
]
BOUNDS = "programs of vf/compfam.py x 6 identifier pools (choice variable) x every Boolean initial-value combination"
OUTSIDE = "identifiers outside the pools; problems outside the family"
ASSUMPTIONS = ["a compile() that raises UPProblemDefinitionError is a documented rejection; any other exception inside the supported kind is a violation"]
RULE = ("one evaluation = one (compiler, skeleton, identifier pool, initial Booleans) program compiled by the real compiler; non-trivial = the compiler "
        "accepted the problem and the well-formedness assertions were evaluated on its result")

POOLS = [
    None,
    dict(o1="a_b", o2="c", a="move", a2="move_a", b="flag", x="x"),         # move(a_b) ... move_a(b-like): separator clashes
    dict(o1="b_c", o2="c", a="move_a", a2="move_a_b", b="flag", x="x"),     # move_a(b_c) vs move_a_b(c)
    dict(o1="o", o2="o_0", b="b", p="not_b", n="n", u="is_value_defined_u", w="w", x="x"),  # names the compilers generate
    dict(a="A", a2="a", o1="O1", o2="o1", b="B", p="b", x="X"),             # case variants
    dict(o1="x", o2="y", a="a", a2="a_x", p="p_x", b="p", x="p_x_"),        # parameter / object / fluent prefixes
    dict(b="dnf_fake_goal", p="cerm", a="cerm_0", a2="a_0_1", o1="o1_", o2="o1__", x="x"),
    dict(a="act", a2="act_0", o1="o", o2="o_0", x="x"),                        # a later action named like a generated variant
    dict(a="act_0", a2="act", o1="o_0", o2="o", x="x"),
]
_DEFAULT_NAMES = dict(T="T", S="S", o1="o1", o2="o2", b="b", p="p", w="w", u="u", n="n", a="a", a2="a2")
for _p in POOLS:
    if _p:
        _all = dict(_DEFAULT_NAMES, **{k: v for k, v in _p.items() if k != "x"})
        assert len(set(_all.values())) == len(_all), _p


def _names(prob):
    out = [(a.name, "action") for a in prob.actions] + [(f.name, "fluent") for f in prob.fluents] + \
          [(o.name, "object") for o in prob.all_objects] + [(t.name, "type") for t in prob.user_types]
    return out


def _walk(e, seen):
    stack = [e]
    while stack:
        x = stack.pop()
        if id(x) in seen:
            continue
        seen[id(x)] = x
        stack.extend(x.args)


def _check_refs(ctx, prob, tag):
    fluents = set(prob.fluents)
    objects = set(prob.all_objects)
    types = set(prob.user_types)
    exprs = {}
    for a in prob.actions:
        params = set(a.parameters)
        local = {}
        for c in getattr(a, "preconditions", []):
            _walk(c, local)
        for e in getattr(a, "effects", []):
            _walk(e.fluent, local)
            _walk(e.value, local)
            _walk(e.condition, local)
        for x in local.values():
            if x.is_parameter_exp():
                ctx.check(x.parameter() in params, f"{tag}:undeclared-parameter", f"action {a.name} mentions parameter {x.parameter().name} it does not declare")
        for p in a.parameters:
            if p.type.is_user_type():
                ctx.check(p.type in types, f"{tag}:undeclared-type", f"parameter {p.name} of {a.name} has undeclared type {p.type}")
        exprs.update(local)
    for gl in prob.goals:
        _walk(gl, exprs)
    for tc in prob.trajectory_constraints:
        _walk(tc, exprs)
    for k, v in prob.explicit_initial_values.items():
        _walk(k, exprs)
        _walk(v, exprs)
    for x in exprs.values():
        if x.is_fluent_exp():
            ctx.check(x.fluent() in fluents, f"{tag}:undeclared-fluent", f"expression mentions fluent {x.fluent().name} which the compiled problem does not declare")
        elif x.is_object_exp():
            ctx.check(x.object() in objects, f"{tag}:undeclared-object", f"expression mentions object {x.object().name} which the compiled problem does not declare")
    for f in prob.fluents:
        for p in f.signature:
            if p.type.is_user_type():
                ctx.check(p.type in types, f"{tag}:undeclared-type", f"fluent {f.name} has a parameter of undeclared type {p.type}")
    for o in prob.all_objects:
        ctx.check(o.type in types, f"{tag}:undeclared-type", f"object {o.name} has undeclared type {o.type}")


def h_wellformed(ctx, cname, sk):
    from unified_planning.exceptions import UPProblemDefinitionError
    from unified_planning.plans import ActionInstance, SequentialPlan
    import itertools

    pool = POOLS[ctx.choice("pool", len(POOLS))]
    sk = dict(sk, names=pool)
    g = gen.build(ctx, sk)
    P = g.problem
    res = compfam.compile_or_prune(ctx, cname, P, own_crashes=True)
    Pc = res.problem
    ctx.check(Pc is not None, f"{cname}:no-problem", "compile returned a result without a problem")
    names = _names(Pc)
    seen = {}
    for nm, kind in names:
        ctx.check(nm not in seen, f"{cname}:duplicate-name", f"compiled problem declares the name {nm!r} twice ({seen.get(nm)} and {kind})")
        seen[nm] = kind
    _check_refs(ctx, Pc, cname)
    _ = Pc.kind  # computing the kind walks the whole model
    ctx.check(res.plan_back_conversion is not None, f"{cname}:no-back-conversion", "result offers no plan_back_conversion")
    em = g.env.expression_manager
    back = res.plan_back_conversion(SequentialPlan([], g.env))
    ctx.check(len(back.actions) == 0, f"{cname}:empty-plan-back", "the empty plan does not convert back to the empty plan")
    orig_actions = set(P.actions)
    for a in Pc.actions:
        doms = [list(Pc.objects(p.type)) for p in a.parameters]
        for combo in itertools.product(*doms):
            plan = SequentialPlan([ActionInstance(a, tuple(em.ObjectExp(o) for o in combo))], g.env)
            bp = res.plan_back_conversion(plan)
            for ai in bp.actions:
                ctx.check(ai.action in orig_actions, f"{cname}:back-unknown-action", f"plan_back_conversion produced action {ai.action.name} that is not an action of the original problem")
    ctx.witness("program")
    ctx.note("program", dict(compiler=cname, pool=pool, compiled_names=[n for n, _ in names][:30]))


def shards(tier, seed):
    out = []
    for cname, i, sk in compfam.programs(tier):
        out.append(dict(name=f"{cname}-{i}", fn="h_wellformed", engine="direct", kwargs=dict(cname=cname, sk=sk), budget=200 if tier == "quick" else 900))
    return out


MANIFEST = dict(
    engine="direct",
    technique="bounded exhaustive exploration over choice variables (compiler x skeleton x adversarial identifier pool x initial Booleans) of the real compile(); structural well-formedness assertions on the concrete result (solver role: none beyond choice feasibility)",
    text="Exploration: every program of the bounded family, with identifiers from adversarial pools, is compiled by the real compiler; the result must be well-formed (unique names, declared references, usable plan back-conversion). "
         "This property's input is structure and strings; symbolic strings are out of reach of the engine, so the claim is the pool, not all identifiers.",
    note="Trusted: the well-formedness walker in this module. Documented rejections (UPProblemDefinitionError) are not violations.",
)
