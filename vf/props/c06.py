"""C06 Plans of compiled problems map back to valid plans (compiler soundness).

Translation validation.  Program = (skeleton problem P from vf/compfam.py, compiler).  The real
compile() runs concretely; the real map_back_action_instance is called on every compiled ground
instance to build the finite table M.  The solver decides, for every plan length n <= k:
    exists pi' (|pi'| = n):  valid_{P'}(pi')  and  not valid_P(M(pi'))          -- must be unsat
with both sides encoded by R (vf/refsem.py) and P's trajectory constraints judged by their PDDL3
semantics over the state sequence (vf/tv.py).  A model is confirmed with the real
SequentialPlanValidator on both problems (where the original has no non-invariant trajectory
constraints, which the real validator does not support) before it is reported.
"""
from vf import compfam, gen

PROPERTY = "C06"
LEVEL = "translation_validation"
FUNCTIONS = [
    "unified_planning.engines.compilers.grounder:Grounder._compile",
    "unified_planning.engines.compilers.conditional_effects_remover:ConditionalEffectsRemover._compile",
    "unified_planning.engines.compilers.disjunctive_conditions_remover:DisjunctiveConditionsRemover._compile",
    "unified_planning.engines.compilers.negative_conditions_remover:NegativeConditionsRemover._compile",
    "unified_planning.engines.compilers.quantifiers_remover:QuantifiersRemover._compile",
    "unified_planning.engines.compilers.usertype_fluents_remover:UsertypeFluentsRemover._compile",
    "unified_planning.engines.compilers.bounded_types_remover:BoundedTypesRemover._compile",
    "unified_planning.engines.compilers.state_invariants_remover:StateInvariantsRemover._compile",
    "unified_planning.engines.compilers.trajectory_constraints_remover:TrajectoryConstraintsRemover._compile",
    "unified_planning.engines.compilers.undefined_initial_numeric_remover:UndefinedInitialNumericRemover._compile",
    "unified_planning.engines.compilers.compilers_pipeline:CompilersPipeline._compile",
    "unified_planning.engines.compilers.utils:replace_action",
    "unified_planning.engines.compilers.utils:lift_action_instance",
    "unified_planning.engines.results:CompilerResult._post_init",
]
BOUNDS = ("10 compilers + 3 pipelines x the skeleton problems of vf/compfam.py (2 objects, <= 2 actions, all numeric leaves concrete), every Boolean "
          "initial value combination by choice variables; all compiled plans of length <= 3 (quick) / 4 (thorough) by BMC")
OUTSIDE = "plans longer than k; problems outside the family; value-symbolic runs cover the value-sensitive compilers only (bounded types, conditional effects, state invariants, undefined initial numeric, grounder, disjunctive conditions) with <= 2 symbolic leaves in small windows and plans <= 2 (quick) / 3 (thorough)"
ASSUMPTIONS = ["R (vf/refsem.py) encodes the documented semantics on both sides; an encoder mistake tends to cancel, and C01 ties R to the real simulator",
               "PDDL3 semantics of sometime / at-most-once / sometime-before / sometime-after as in vf/tv.py"]


SYM_PROGRAMS = [
    ("bounded_types", 0, ["x0", "ub"]), ("bounded_types", 0, ["d", "ub"]), ("bounded_types", 1, ["d", "ub"]), ("bounded_types", 3, ["d", "lb"]),
    ("conditional_effects", 2, ["c2", "x0"]), ("conditional_effects", 3, ["c", "x0"]), ("conditional_effects", 3, ["d", "ub"]),
    ("state_invariants", 1, ["x0", "c3"]), ("state_invariants", 1, ["d", "c3"]),
    ("undefined_initial_numeric", 0, ["c1", "x0"]), ("undefined_initial_numeric", 2, ["x0"]), ("undefined_initial_numeric", 4, ["d"]),
    ("grounder", 3, ["x0", "c"]), ("disjunctive_conditions", 3, ["x0", "c"]),
]
SYM_PROGRAMS_THOROUGH = [
    ("bounded_types", 2, ["c1", "ub"]), ("bounded_types", 1, ["x0", "d"]), ("conditional_effects", 2, ["c2", "c"]),
    ("state_invariants", 1, ["x0", "d"]), ("undefined_initial_numeric", 5, ["d", "c1"]),
]


def _mk(ctx, cname, sk):
    from vf.refsem import Ref
    from vf import tv

    g = gen.build(ctx, sk)
    P = g.problem
    res = compfam.compile_or_prune(ctx, cname, P)
    Pc = res.problem
    Ro, Rc = Ref(P, name="o."), Ref(Pc, name="c.")
    tab = tv.table(Rc, Ro, res, g.env)
    return g, P, Pc, res, Ro, Rc, tab


def _real_check(g, P, Pc, res, Rc, plan_idx):
    """real validators: compiled plan VALID and mapped-back plan INVALID?"""
    from unified_planning.engines.plan_validator import SequentialPlanValidator
    from unified_planning.plans import ActionInstance, SequentialPlan

    em = g.env.expression_manager
    gas = Rc.ground_actions()
    plan = SequentialPlan([ActionInstance(gas[i][0], tuple(em.ObjectExp(o) for o in gas[i][1])) for i in plan_idx], g.env)
    v = SequentialPlanValidator(environment=g.env)
    v.skip_checks = True
    rc = v.validate(Pc, plan)
    back = res.plan_back_conversion(plan)
    ro = v.validate(P, back)
    return bool(rc.status) and not bool(ro.status)


def h_sound(ctx, cname, sk, k):
    import z3
    from vf import tv

    g, P, Pc, res, Ro, Rc, tab = _mk(ctx, cname, sk)
    has_traj = any(not tc.is_always() for tc in P.trajectory_constraints)
    for n in range(k + 1):
        cc = [z3.Int(f"c{i}") for i in range(n)]

        def build(n=n, cc=cc):
            uc = tv.unroll(Rc, n, cc)
            uo = tv.unroll(Ro, n, [tv.lookup(tab, c) for c in cc])
            viol = z3.And([tv.valid(Rc, uc, n)] + [c >= 0 for c in cc] + [z3.Not(tv.valid(Ro, uo, n))])
            return viol, {f"c{i}": c for i, c in enumerate(cc)}

        def concrete(m, n=n):
            plan_idx = [int(m[f"c{i}"]) for i in range(n)]
            return _real_check(g, P, Pc, res, Rc, plan_idx)

        ctx.forall(build, None if has_traj else concrete, f"unsound:{cname}:len{n}",
                   f"a plan of length {n} valid for the compiled problem maps back to a plan that is not valid for the original problem")
    ctx.witness("program")
    ctx.note("program", dict(compiler=cname, skeleton=gen.describe(sk), compiled_actions=len(Pc.actions), table=tab))


def shards(tier, seed):
    out = []
    k = 3 if tier == "quick" else 4
    for cname, i, sk in compfam.programs(tier):
        out.append(dict(name=f"{cname}-{i}", fn="h_sound", engine="direct", kwargs=dict(cname=cname, sk=sk, k=k),
                        budget=150 if tier == "quick" else 1500, query_timeout=60))
    # value-symbolic re-run of the value-sensitive compilers (E1): the numeric leaves named in `sym` are solver variables,
    # the real compile() runs under the tracer, and the same BMC query is posed on the PATH solver (so it is decided for
    # every value of the leaves on that path, with R splicing the symbolic constants in)
    for cname, i, sym in SYM_PROGRAMS if tier == "quick" else SYM_PROGRAMS + SYM_PROGRAMS_THOROUGH:
        sk = dict(compfam.FAMILY[cname][i], sym=sym)
        sk.pop("values", None)
        out.append(dict(name=f"sym-{cname}-{i}-{'_'.join(sym)}", fn="h_sound", engine="symex", kwargs=dict(cname=cname, sk=sk, k=2 if tier == "quick" else 3),
                        budget=150 if tier == "quick" else 1500, per_path=60))
    return out


MANIFEST = dict(
    engine="direct",
    technique="translation validation: real compile() + real map_back on each program of a bounded family; z3 BMC over a reference-semantics encoding of original and compiled problem decides 'no valid compiled plan maps back to an invalid plan' for all plans <= k",
    text="Translation validation with bounded model checking: for each (compiler, problem) program and every compiled plan up to length k (all of them, by the solver, not sampled), "
         "the mapped-back plan is valid for the original problem, trajectory constraints judged by PDDL3 semantics.",
    note="Trusted: R on both sides (validated against the real simulator by C01), the PDDL3 encoding in vf/tv.py, z3. Counterexample plans are confirmed with the real SequentialPlanValidator on both problems before being reported (except for non-invariant trajectory constraints, which it does not support).",
)
