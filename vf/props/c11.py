"""C11 Simplification preserves the meaning of expressions.

Three layers.

(1) equivalence over all interpretations and all constants.  Expression skeletons are chosen production by
    production (ctx.choice) from a typed grammar
        B ::= b | c | sb | p(O) | sp(O) | true | false | not B | B and B | B or B | B -> B | B <-> B | and(B,B,B)
            | exists x:T. B | forall x:T. B | N = N | N < N | N <= N | O = O
        N ::= n | m | sn | qn | k1 | k2 | 0 | 1 | 2 | 3 | -1 | -2 | 1/2 | N + N | N - N | N * N | N / N | plus(N,N,N) | F(N)
        O ::= o1 | o2 | x (innermost bound variable) | xo (next outer one) | z (free variable) | y (parameter) | w(O)
            | xn (free occurrence of the variable that the next inner quantifier binds)
    (every production is one node; <= 7 nodes, depth <= 3).  k1, k2 are SYMBOLIC integer constants (unbounded solver
    variables); every shard restricts the grammar to a pool of productions and fixes the production at the root.
    n:int[0,10], m:int[-3,3] are numeric fluents bounded on both sides, qn:int[0,5] a parameter, F(v) = 2v+1 an
    interpreted function, T a user type with the two objects o1, o2.  With `problem=True` the expression is
    simplified by Simplifier(env, problem): sb, sn, sp are static fluents (initial value of sn SYMBOLIC) and the
    oracle fixes them to their initial values.
    Real code: Simplifier(env[, problem]).simplify.  Per path:
      * one solver query  exists interpretation within the declared types with non-zero divisors in e:  [[e]] != [[s]];
      * free variables of s are free variables of e (own structural computation; env.free_vars_extractor returns
        fluent expressions, not variables, and FreeVarsOracle is used by the code under test);
      * a second simplification (fresh Simplifier) of s gives s again (structural comparison; numeric payloads that are
        symbolic are compared by a solver query);  an exception out of simplify is a violation unless no
        interpretation of e has all divisors non-zero.
(2) large-magnitude integer division.  Simplifier.walk_div is run AT UNIT LEVEL on stub constant nodes whose payloads
    are proxy numbers (E3): SInt carries a z3 Int term, `/` builds the IEEE-754 binary64 result (FloatingPoint(11,53),
    RNE), int() of a float is fp.to_sbv(RTZ), Fraction(a, b) is the exact rational; branches of the real function are
    explored by re-execution (the choice-only driver).  Per path: one query  exists l, r in the 64-bit signed range,
    r != 0:  folded constant != l / r.  The model is REPLAYED on the real Simplifier through the public API.
(3) existential elimination: skeletons  exists x. (x = t and phi)  with t in {o1, o2, x, xo, z, y, w(.)}, two-variable
    and nested quantifiers, sub-typed variable; same assertions as (1).
"""
from fractions import Fraction

PROPERTY = "C11"
LEVEL = "model_checking"
FUNCTIONS = [
    "unified_planning.model.walkers.simplifier:Simplifier.simplify",
    "unified_planning.model.walkers.simplifier:Simplifier.walk_and",
    "unified_planning.model.walkers.simplifier:Simplifier.walk_or",
    "unified_planning.model.walkers.simplifier:Simplifier.walk_not",
    "unified_planning.model.walkers.simplifier:Simplifier.walk_iff",
    "unified_planning.model.walkers.simplifier:Simplifier.walk_implies",
    "unified_planning.model.walkers.simplifier:Simplifier.walk_exists",
    "unified_planning.model.walkers.simplifier:Simplifier.walk_forall",
    "unified_planning.model.walkers.simplifier:Simplifier.walk_equals",
    "unified_planning.model.walkers.simplifier:Simplifier.walk_le",
    "unified_planning.model.walkers.simplifier:Simplifier.walk_lt",
    "unified_planning.model.walkers.simplifier:Simplifier.walk_fluent_exp",
    "unified_planning.model.walkers.simplifier:Simplifier.walk_interpreted_function_exp",
    "unified_planning.model.walkers.simplifier:Simplifier.walk_plus",
    "unified_planning.model.walkers.simplifier:Simplifier.walk_minus",
    "unified_planning.model.walkers.simplifier:Simplifier.walk_times",
    "unified_planning.model.walkers.simplifier:Simplifier.walk_div",
    "unified_planning.model.walkers.simplifier:Simplifier._number_to_fnode",
    "unified_planning.model.fnode:FNode.simplify",
]
BOUNDS = ("layer 1: typed skeletons with <= 7 nodes and depth <= 3 (quick: the pools listed in shards(); thorough: wider pools, same bound), "
          "<= 2 symbolic integer constants per shard (unbounded), at most one of them below a * node and none below a / node; "
          "concrete-constant shards (choice-only engine) carry the full arithmetic pool including / and F; "
          "layer 2: walk_div on int/int, int/real, real/int constants, all operands (numerators, denominators) 64-bit signed, divisor non-zero; "
          "layer 3: exists-elimination skeletons with <= 9 nodes (nested: <= 12), variables of type T (or its subtype S)")
OUTSIDE = ("depth > 3 / more than 7 nodes; real constants with symbolic denominators in layer 1; temporal operators (always, sometime, ...), "
           "timing and multi-agent Dot expressions; coincidences between a symbolic constant and another constant of the same expression "
           "other than the explicit k2 := k1 alias (syntactic hash-consing); second-stage queries that z3 answers `unknown` (counted, never a pass)")
ASSUMPTIONS = [
    "hash-consing tables keyed syntactically for symbolic constants (S2'): Int(k1) and Int(k2) are distinct nodes even where k1 = k2 is possible "
    "(the alias shards build both from the same constant); counterexamples are replayed with the real tables",
    "vf/exprsem.py is the meaning of expressions; quantifiers are expanded over the objects of the variable's type; t/0 is excluded by the side condition "
    "`every divisor of the ORIGINAL expression is non-zero`; the interpreted function F is its python definition (2v+1), instantiated at every application",
    "S7 (this module, symbolic runs only): the name `math` in unified_planning.model.walkers.type_checker is bound to a proxy whose isnan() answers False "
    "for int/Fraction arguments without inspecting them (an int is never NaN); everything else is delegated to the real math module",
    "S8 (this module, symbolic runs only): the name `float` in unified_planning.model.walkers.type_checker and unified_planning.model.types is bound to a constructor "
    "that returns an exact +-infinity object for float('inf'): comparisons of a (symbolic) int bound with +-inf are answered as python answers them (never equal, "
    "strictly between) without converting the int to a float, which CrossHair would model in the floating-point theory (measured: 15 s timeouts); "
    "inf +- finite = inf; inf * x and inf / x are not modelled (harness error), the symbolic shards keep the operands of * and / bounded",
    "layer 2 encodes, for the operations that walk_div performs on its operands: python int arithmetic as z3 Int terms (//, % with floor semantics); "
    "int / int as the correctly rounded binary64 quotient -- for an exact quotient q: to_fp(RNE, q), which is what CPython's long_true_divide returns; "
    "for an inexact quotient fp.div(RNE, to_fp(l), to_fp(r)) under the additional path constraint |l|, |r| <= 2**53 (where that IS the correctly rounded quotient); "
    "int(float) as fp.to_sbv(RTZ); Fraction(a, b) as the exact rational a/b; isinstance(value, int) by the proxy's class. The real walk_div source is executed "
    "(not re-written): a repaired walk_div that uses // or Fraction never creates a float proxy and the obligation is pure integer arithmetic. "
    "The proxy numbers live in vf/e3.py. Module-level names `int`, `float`, `Fraction` of unified_planning.model.walkers.simplifier are bound to proxy-aware constructors during the unit-level run only; "
    "the engine is validated first against the real Simplifier on fixed operand pairs (selftest shard); every model is replayed on the real Simplifier",
]

# =============================================================================================
# grammar
# name -> (type, child types)
PRODS = {
    "b": ("B", ()), "c": ("B", ()), "sb": ("B", ()), "true": ("B", ()), "false": ("B", ()),
    "p": ("B", ("O",)), "sp": ("B", ("O",)), "q": ("B", ("O", "O")),
    "not": ("B", ("B",)), "and": ("B", ("B", "B")), "or": ("B", ("B", "B")), "implies": ("B", ("B", "B")), "iff": ("B", ("B", "B")),
    "and3": ("B", ("B", "B", "B")), "or3": ("B", ("B", "B", "B")),
    "exists": ("B", ("B",)), "forall": ("B", ("B",)), "exists2": ("B", ("B",)), "existsS": ("B", ("B",)),
    "le": ("B", ("N", "N")), "lt": ("B", ("N", "N")), "eq": ("B", ("N", "N")), "oeq": ("B", ("O", "O")),
    "n": ("N", ()), "m": ("N", ()), "sn": ("N", ()), "qn": ("N", ()), "k1": ("N", ()), "k2": ("N", ()),
    "0": ("N", ()), "1": ("N", ()), "2": ("N", ()), "3": ("N", ()), "6": ("N", ()), "-1": ("N", ()), "-2": ("N", ()), "1/2": ("N", ()),
    "+": ("N", ("N", "N")), "-": ("N", ("N", "N")), "*": ("N", ("N", "N")), "/": ("N", ("N", "N")),
    "plus3": ("N", ("N", "N", "N")), "times3": ("N", ("N", "N", "N")), "F": ("N", ("N",)),
    "o1": ("O", ()), "o2": ("O", ()), "x": ("O", ()), "xo": ("O", ()), "z": ("O", ()), "y": ("O", ()), "w": ("O", ("O",)),
    "xn": ("O", ()),  # the variable that the NEXT inner quantifier binds, used free here (capture candidates)
    "xnn": ("O", ()),  # the variable bound TWO quantifiers further in (capture below another quantifier)
    "xoo": ("O", ()),  # the variable bound two quantifiers further out
}
# macro productions: a fixed sub-skeleton offered as one production (it costs its real number of nodes / levels)
MACROS = {
    "k1<=k2": ("B", ["le", ["k1"], ["k2"]]), "k2<k1": ("B", ["lt", ["k2"], ["k1"]]), "k1==k2": ("B", ["eq", ["k1"], ["k2"]]),
    "n<=k1": ("B", ["le", ["n"], ["k1"]]), "k2<n": ("B", ["lt", ["k2"], ["n"]]), "n==k2": ("B", ["eq", ["n"], ["k2"]]),
    "1<=2": ("B", ["le", ["1"], ["2"]]), "2<1": ("B", ["lt", ["2"], ["1"]]), "n<=2": ("B", ["le", ["n"], ["2"]]),
    "p(x)": ("B", ["p", ["x"]]), "p(o1)": ("B", ["p", ["o1"]]), "p(z)": ("B", ["p", ["z"]]), "p(xo)": ("B", ["p", ["xo"]]),
    "q(x,z)": ("B", ["q", ["x"], ["z"]]), "q(x,xo)": ("B", ["q", ["x"], ["xo"]]), "sp(o1)": ("B", ["sp", ["o1"]]), "sp(o2)": ("B", ["sp", ["o2"]]),
    "x==o1": ("B", ["oeq", ["x"], ["o1"]]), "o1==x": ("B", ["oeq", ["o1"], ["x"]]), "x==z": ("B", ["oeq", ["x"], ["z"]]),
    "x==xo": ("B", ["oeq", ["x"], ["xo"]]), "xo==x": ("B", ["oeq", ["xo"], ["x"]]), "x==y": ("B", ["oeq", ["x"], ["y"]]),
    "x==w(x)": ("B", ["oeq", ["x"], ["w", ["x"]]]), "x==w(o1)": ("B", ["oeq", ["x"], ["w", ["o1"]]]), "x==w(xo)": ("B", ["oeq", ["x"], ["w", ["xo"]]]),
    "xo==w(x)": ("B", ["oeq", ["xo"], ["w", ["x"]]]), "w(x)==x": ("B", ["oeq", ["w", ["x"]], ["x"]]), "x==o2": ("B", ["oeq", ["x"], ["o2"]]),
    "x==xn": ("B", ["oeq", ["x"], ["xn"]]), "xn==x": ("B", ["oeq", ["xn"], ["x"]]), "p(xn)": ("B", ["p", ["xn"]]),
    "x==xnn": ("B", ["oeq", ["x"], ["xnn"]]), "xnn==x": ("B", ["oeq", ["xnn"], ["x"]]),
    "q(xoo,x)": ("B", ["q", ["xoo"], ["x"]]), "q(x,xoo)": ("B", ["q", ["x"], ["xoo"]]), "q(xoo,xo)": ("B", ["q", ["xoo"], ["xo"]]),
    "w(x)": ("O", ["w", ["x"]]), "w(o1)": ("O", ["w", ["o1"]]),
    "F(k1)": ("N", ["F", ["k1"]]), "F(n)": ("N", ["F", ["n"]]), "F(2)": ("N", ["F", ["2"]]),
}


def _size(sk):
    return 1 + sum(_size(s) for s in sk[1:])


def _depth(sk):
    return 1 + max((_depth(s) for s in sk[1:]), default=-1) if len(sk) > 1 else 0


def _needs_bound(sk):
    """how many enclosing bound variables the macro refers to"""
    own = 3 if sk[0] == "xoo" else 2 if sk[0] == "xo" else 1 if sk[0] == "x" else 0
    return max([own] + [_needs_bound(s) for s in sk[1:]])


QUANT = ("exists", "forall", "exists2", "existsS")
ARITH = ("+", "-", "*", "/", "plus3", "times3")


def _gen(ctx, pool, typ, budget, depth, st, path, forced, actx):
    """-> (skeleton, size); skeleton = [production, child...]; actx: arithmetic context {'mul': counter|None, 'div': bool, 'arith': bool}"""
    cands = []
    source = pool[typ]
    if path in forced:  # shard key: the production(s) allowed at this position (they need not be in the pool)
        source = forced[path] if isinstance(forced[path], list) else [forced[path]]
    for p in source:
        if (MACROS[p][0] if p in MACROS else PRODS[p][0]) != typ:
            continue
        if p in MACROS:
            msk = MACROS[p][1]
            if _size(msk) <= budget and _depth(msk) <= depth and _needs_bound(msk) <= st["bound"]:
                hask = bool(_prods(msk) & {"k1", "k2"})
                if st["symbolic"] and actx["arith"] and msk[0] in ("F", "/"):
                    continue
                if st["symbolic"] and hask and (actx["div"] or (actx["mul"] is not None and actx["mul"]["k"] >= 1)):
                    continue
                cands.append(p)
            continue
        _t, kids = PRODS[p]
        if 1 + len(kids) > budget or (kids and depth <= 0):
            continue
        if p == "x" and st["bound"] < 1:
            continue
        if p == "xo" and st["bound"] < 2:
            continue
        if p == "xoo" and st["bound"] < 3:
            continue
        if p in ("k1", "k2") and st["symbolic"]:
            if actx["div"] or (actx["mul"] is not None and actx["mul"]["k"] >= 1):
                continue
        if st["symbolic"] and actx["arith"] and p in ("F", "/"):
            continue  # unbounded result types below an arithmetic node: the type checker would add +-inf to symbolic bounds
        cands.append(p)
    if not cands:
        ctx.assume(False)
    p = cands[ctx.choice("p" + path, len(cands))]
    if p in MACROS:
        import copy

        msk = copy.deepcopy(MACROS[p][1])
        if actx["mul"] is not None:
            actx["mul"]["k"] += len(_prods(msk) & {"k1", "k2"})
        return msk, _size(msk)
    _t, kids = PRODS[p]
    if p in ("k1", "k2") and actx["mul"] is not None:
        actx["mul"]["k"] += 1
    if p in QUANT:
        st["bound"] += 2 if p == "exists2" else 1
    sub = dict(actx)
    if p in ARITH or p == "F":
        sub["arith"] = True
        if p in ("*", "/", "times3") and actx["mul"] is None:
            sub["mul"] = {"k": 0}
        if p == "/":
            sub["div"] = True
    elif typ == "B":
        sub = {"mul": None, "div": False, "arith": False}
    out, used = [p], 1
    for i, kt in enumerate(kids):
        rest = len(kids) - i - 1
        s, n = _gen(ctx, pool, kt, budget - used - rest, depth - 1, st, path + str(i), forced, sub)
        out.append(s)
        used += n
    if p in QUANT:
        st["bound"] -= 2 if p == "exists2" else 1
    return out, used


def count_skeletons(pool, root, max_nodes, max_depth, forced, symbolic):
    from vf.direct import DirectCtx, Prune, _next_prefix

    n, prefix = 0, []
    while prefix is not None:
        c = DirectCtx(prefix, 0)
        try:
            _gen(c, pool, root, max_nodes, max_depth, {"bound": 0, "symbolic": symbolic}, "r", forced, {"mul": None, "div": False, "arith": False})
            n += 1
        except Prune:
            pass
        prefix = _next_prefix(c.trail)
    return n


def _show(sk):
    p = sk[0]
    if len(sk) == 1:
        return p
    a = [_show(s) for s in sk[1:]]
    if p in ("and", "or", "implies", "iff", "le", "lt", "eq", "oeq", "+", "-", "*", "/"):
        op = {"le": "<=", "lt": "<", "eq": "==", "oeq": "==", "implies": "->", "iff": "<->"}.get(p, p)
        return f"({a[0]} {op} {a[1]})"
    return f"{p}({', '.join(a)})"


def _prods(sk, acc=None):
    acc = set() if acc is None else acc
    acc.add(sk[0])
    for s in sk[1:]:
        _prods(s, acc)
    return acc


def _conjuncts(sk):
    if sk[0] in ("and", "and3"):
        return [c for s in sk[1:] for c in _conjuncts(s)]
    return [sk]


def exists_eq_tag(sk):
    """'' | ':exists-eq' | ':exists-eq-nested': the expression has an exists whose body is a conjunction with an equality between
    object terms (the shape Simplifier.walk_exists rewrites); nested: that body contains a further quantifier"""
    best = ""
    if sk[0] in ("exists", "exists2", "existsS"):
        conj = _conjuncts(sk[1])
        if len(conj) > 1 and any(c[0] == "oeq" for c in conj):
            best = ":exists-eq-nested" if (_prods(sk[1]) & set(QUANT)) else ":exists-eq"
    for s in sk[1:]:
        t = exists_eq_tag(s)
        if len(t) > len(best):
            best = t
    return best


# =============================================================================================
# world
class World:
    pass


def _world(ctx, env, problem, sub, need, symbolic):
    """fluents, objects, parameters, variables, the interpreted function and (optionally) a problem with static fluents"""
    import unified_planning as up
    from unified_planning.model import Fluent, InstantaneousAction, Object, Problem, Variable

    em, tm = env.expression_manager, env.type_manager
    W = World()
    W.env, W.em = env, em
    with ctx.untraced():
        T = tm.UserType("T")
        S = tm.UserType("S", T) if sub else T
        W.T, W.S = T, S
        W.o1, W.o2 = Object("o1", T, env), Object("o2", S, env)
        W.objects = [W.o1, W.o2]
        B = tm.BoolType()
        W.fl = dict(
            b=Fluent("b", B, environment=env), c=Fluent("c", B, environment=env), sb=Fluent("sb", B, environment=env),
            p=Fluent("p", B, environment=env, x=T), sp=Fluent("sp", B, environment=env, x=T), q=Fluent("q", B, environment=env, x=T, y=T),
            n=Fluent("n", tm.IntType(0, 10), environment=env), m=Fluent("m", tm.IntType(-3, 3), environment=env),
            sn=Fluent("sn", tm.IntType(-100, 100), environment=env), w=Fluent("w", T, environment=env, x=T),
        )
        W.act = InstantaneousAction("act", _env=env, y=T, qn=tm.IntType(0, 5))
        W.y, W.qn = em.ParameterExp(W.act.parameter("y")), em.ParameterExp(W.act.parameter("qn"))
        # one variable per nesting depth (+2: `exists2` binds two, `xnn` names the one after next); the thorough tier nests 4 deep
        W.vars = [Variable(f"x{i}", T, env) for i in range(1, 8)]
        W.svars = [Variable(f"xs{i}", S, env) for i in range(1, 8)]
        W.z = Variable("z", T, env)
        from collections import OrderedDict

        W.F = up.model.InterpretedFunction("F", tm.IntType(), OrderedDict(v=tm.IntType()), lambda v: 2 * v + 1, env)
    W.problem = None
    W.static = []  # (fluent, tuple of objects, python/symbolic value)
    if problem:
        with ctx.untraced():
            pr = Problem("pr", env)
            for f in W.fl.values():
                pr.add_fluent(f)
            pr.add_objects(W.objects)
            a = W.act
            a.add_effect(em.FluentExp(W.fl["b"]), em.FluentExp(W.fl["c"]))
            a.add_effect(em.FluentExp(W.fl["c"]), em.TRUE())
            a.add_effect(em.FluentExp(W.fl["p"], [W.y]), em.FALSE())
            a.add_effect(em.FluentExp(W.fl["q"], [W.y, W.y]), em.TRUE())
            a.add_effect(em.FluentExp(W.fl["w"], [W.y]), W.y)
            a.add_effect(em.FluentExp(W.fl["n"]), W.qn)
            a.add_increase_effect(em.FluentExp(W.fl["m"]), em.Int(1))
            pr.add_action(a)
        # initial values of the static fluents (only those the skeleton mentions get a choice / a solver variable)
        vb = bool(ctx.choice("sb0", 2)) if "sb" in need else True
        pr.set_initial_value(em.FluentExp(W.fl["sb"]), em.Bool(vb))
        W.static.append((W.fl["sb"], (), vb))
        if "sn" in need:
            s0 = ctx.int("s0", -100, 100) if symbolic else 4
        else:
            s0 = 4
        pr.set_initial_value(em.FluentExp(W.fl["sn"]), em.Int(s0))
        W.static.append((W.fl["sn"], (), s0))
        # sp(o1) has an initial value, sp(o2) has none (static but undefined: must be left alone)
        v1 = bool(ctx.choice("sp0", 2)) if "sp" in need else False
        pr.set_initial_value(em.FluentExp(W.fl["sp"], [em.ObjectExp(W.o1)]), em.Bool(v1))
        W.static.append((W.fl["sp"], (W.o1,), v1))
        W.problem = pr
    return W


CONCRETE = {"0": 0, "1": 1, "2": 2, "3": 3, "6": 6, "-1": -1, "-2": -2}


def _build(W, sk, K, bound):
    em = W.em
    p = sk[0]
    if p in W.fl and not PRODS[p][1]:
        return em.FluentExp(W.fl[p])
    if p == "true":
        return em.TRUE()
    if p == "false":
        return em.FALSE()
    if p in ("k1", "k2"):
        return K[p]
    if p in CONCRETE:
        return em.Int(CONCRETE[p])
    if p == "1/2":
        return em.Real(Fraction(1, 2))
    if p == "qn":
        return W.qn
    if p == "o1":
        return em.ObjectExp(W.o1)
    if p == "o2":
        return em.ObjectExp(W.o2)
    if p == "x":
        return em.VariableExp(bound[-1])
    if p == "xo":
        return em.VariableExp(bound[-2])
    if p == "z":
        return em.VariableExp(W.z)
    if p == "xn":
        return em.VariableExp(W.vars[len(bound)])
    if p == "xnn":
        return em.VariableExp(W.vars[len(bound) + 1])
    if p == "xoo":
        return em.VariableExp(bound[-3])
    if p == "y":
        return W.y
    if p in QUANT:
        d = len(bound)
        if p == "exists2":
            vs = [W.vars[d], W.vars[d + 1]]
        elif p == "existsS":
            vs = [W.svars[d]]
        else:
            vs = [W.vars[d]]
        body = _build(W, sk[1], K, bound + vs)
        return (em.Forall if p == "forall" else em.Exists)(body, *vs)
    a = [_build(W, s, K, bound) for s in sk[1:]]
    if p in ("p", "sp", "q", "w"):
        return em.FluentExp(W.fl[p], a)
    if p == "F":
        return em.InterpretedFunctionExp(W.F, a)
    f = {"not": em.Not, "and": em.And, "or": em.Or, "implies": em.Implies, "iff": em.Iff, "and3": em.And, "or3": em.Or,
         "le": em.LE, "lt": em.LT, "eq": em.Equals, "oeq": em.Equals, "+": em.Plus, "-": em.Minus, "*": em.Times, "/": em.Div,
         "plus3": em.Plus, "times3": em.Times}[p]
    return f(*a)


# =============================================================================================
# oracle pieces
def free_variables(e, bound=frozenset()):
    """free variables of an expression, computed structurally (independent of FreeVarsOracle)"""
    if e.is_variable_exp():
        v = e.variable()
        return set() if v in bound else {v}
    if e.is_exists() or e.is_forall():
        bound = bound | set(e.variables())
    out = set()
    for a in e.args:
        out |= free_variables(a, bound)
    return out


def _payload_is_symbolic(v):
    return hasattr(v, "var") or (isinstance(v, Fraction) and (hasattr(v.numerator, "var") or hasattr(v.denominator, "var")))


def structural_diff(a, b, pairs):
    """None when a and b are the same expression up to numeric payloads (collected in `pairs` when symbolic); else a short tag
    `<kind in a>/<kind in b>` of the first difference (outermost)"""
    if a is b:
        return None
    ka, kb = a.node_type.name, b.node_type.name
    if ka != kb or len(a.args) != len(b.args):
        return f"{ka}/{kb}"
    if a.is_int_constant() or a.is_real_constant():
        pa, pb = a._content.payload, b._content.payload
        if _payload_is_symbolic(pa) or _payload_is_symbolic(pb):
            pairs.append((pa, pb))
            return None
        return None if pa == pb else f"{ka}/{kb}"
    if not a.args:
        return None if a._content.payload == b._content.payload else f"{ka}/{kb}"
    if a._content.payload != b._content.payload:
        return f"{ka}/{kb}:binder"
    for x, y in zip(a.args, b.args):
        r = structural_diff(x, y, pairs)
        if r:
            return r
    return None


def _if_instances(I, terms):
    """F is its python definition: one instance of  F(t) = 2t+1  per application occurring in the terms"""
    import z3

    f = I.funcs.get("IF.F")
    if f is None:
        return []
    seen, out, stack = set(), [], list(terms)
    while stack:
        t = stack.pop()
        if t.get_id() in seen:
            continue
        seen.add(t.get_id())
        if z3.is_app(t):
            if t.decl().eq(f):
                out.append(t == 2 * t.arg(0) + 1)
            stack.extend(t.children())
    return out


def _interp(W, e):
    """ExprSem + the term of e + side conditions of e (divisors non-zero)"""
    from vf.exprsem import ExprSem

    I = ExprSem(W.objects)
    t = I.term(e)
    return I, t, list(I.side)


def _static_constraints(W, I):
    import z3
    from vf.refsem import znum

    cs = []
    for fl, objs, val in W.static:
        zv = z3.BoolVal(val) if isinstance(val, bool) else znum(val)
        if not objs:
            if ("fluent." + fl.name) in I.leaves:
                cs.append(I.leaves["fluent." + fl.name][0] == zv)
        elif fl.name in I.funcs:
            cs.append(I.funcs[fl.name](*[z3.IntVal(I.oidx[o.name]) for o in objs]) == zv)
    return cs


def equivalence_violation(W, e, s):
    import z3
    from vf.refsem import _real

    I, t1, side = _interp(W, e)
    t2 = I.term(s)
    if t1.sort() != t2.sort():
        if z3.is_bool(t1) or z3.is_bool(t2):
            return True, {}
        t1, t2 = _real(t1), _real(t2)
    cs = [t1 != t2] + side + _if_instances(I, [t1, t2]) + _static_constraints(W, I)
    cs.append(I.domain())
    return z3.And(cs), {n: t for n, (t, _typ) in I.leaves.items()}


def defined_somewhere(W, e):
    """exists an interpretation of e with all divisors non-zero"""
    import z3

    I, t1, side = _interp(W, e)
    cs = side + _if_instances(I, [t1] + side) + _static_constraints(W, I)
    cs.append(I.domain())
    return z3.And(cs), {}


def _repo_location(exc):
    import os
    import traceback

    repo = os.environ.get("VERIF_REPO", "/repo").rstrip("/") + "/"
    for fr in reversed(traceback.extract_tb(exc.__traceback__)):
        if fr.filename.startswith(repo):
            return f"{os.path.basename(fr.filename)}:{fr.name}"
    return "?"


class _MathProxy:
    """S7: see ASSUMPTIONS"""

    def __init__(self, real):
        self._real = real

    def isnan(self, x):
        if isinstance(x, (int, Fraction, _Inf)):
            return False
        return self._real.isnan(x)

    def __getattr__(self, name):
        return getattr(self._real, name)


class _Inf:
    """S8: exact +-infinity for the type checker's bound arithmetic (see ASSUMPTIONS).  python compares int and float exactly:
    no int equals +-inf and every int lies strictly between them; this object answers those comparisons without converting
    the (symbolic) int to a float."""

    __slots__ = ("neg",)

    def __init__(self, neg=False):
        self.neg = neg

    def _same(self, o):
        if isinstance(o, _Inf):
            return o.neg == self.neg
        if type(o) is float:
            return o == (float("-inf") if self.neg else float("inf"))
        return False

    def __neg__(self):
        return _Inf(not self.neg)

    def __eq__(self, o):
        return self._same(o)

    def __ne__(self, o):
        return not self._same(o)

    def __hash__(self):
        return hash(float("-inf") if self.neg else float("inf"))

    def __lt__(self, o):
        return self.neg and not self._same(o)

    def __le__(self, o):
        return self.neg or self._same(o)

    def __gt__(self, o):
        return (not self.neg) and not self._same(o)

    def __ge__(self, o):
        return (not self.neg) or self._same(o)

    def _plus(self, o):
        if isinstance(o, _Inf) and o.neg != self.neg:
            from vf.ctx import HarnessError

            raise HarnessError("S8: inf - inf is not modelled")
        return self

    __add__ = __radd__ = _plus

    def __sub__(self, o):
        return self._plus(-o if isinstance(o, _Inf) else 0)

    def __rsub__(self, o):
        return (-self)._plus(o)

    def _unmodelled(self, *a):
        from vf.ctx import HarnessError

        raise HarnessError("S8: multiplication/division of an infinite bound is not modelled (keep operands of * and / bounded in symbolic shards)")

    __mul__ = __rmul__ = __truediv__ = __rtruediv__ = _unmodelled

    def __repr__(self):
        return "-inf" if self.neg else "inf"


class _FloatMeta(type):
    """`float` as the type checker sees it in symbolic runs: calling it on an infinity literal gives the exact _Inf object,
    and isinstance(x, float) -- how the checker tells an infinite bound from an exact one -- holds for _Inf and real floats"""

    def __call__(cls, x=0.0):
        if isinstance(x, str) and x.strip().lower() in ("inf", "+inf", "infinity", "+infinity"):
            return _Inf(False)
        if isinstance(x, str) and x.strip().lower() in ("-inf", "-infinity"):
            return _Inf(True)
        return float(x)

    def __instancecheck__(cls, obj):
        return isinstance(obj, (_Inf, float))

    def __subclasscheck__(cls, sub):
        return issubclass(sub, (_Inf, float))


class _float_proxy(metaclass=_FloatMeta):
    pass


def _install_shims():
    """S7 + S8, symbolic runs only (never on replay)"""
    import math

    import unified_planning.model.types as ty
    import unified_planning.model.walkers.type_checker as tc

    if not isinstance(tc.math, _MathProxy):
        tc.math = _MathProxy(math)
        tc.float = _float_proxy
        ty.float = _float_proxy


# =============================================================================================
def h_simplify(ctx, pool, root, max_nodes, max_depth, forced=None, problem=False, sub=False, symbolic=True, alias=False):
    from unified_planning.exceptions import UPException, UPTypeError
    from unified_planning.model.walkers.simplifier import Simplifier
    from vf.ctx import Violation

    if ctx.mode == "sym":
        _install_shims()
    st = {"bound": 0, "symbolic": symbolic}
    sk, size = _gen(ctx, pool, root, max_nodes, max_depth, st, "r", forced or {}, {"mul": None, "div": False, "arith": False})
    text = _show(sk)
    used = _prods(sk)
    env = ctx.fresh_env(hashcons="syntactic")
    em = env.expression_manager
    W = _world(ctx, env, problem, sub, used, symbolic)
    K = {}
    if "k1" in used:
        K["k1"] = em.Int(ctx.int("k1") if symbolic else 2)
    if "k2" in used:
        if alias and "k1" in K:
            K["k2"] = K["k1"]  # the coincidence k2 = k1: real hash-consing would give one node
        else:
            K["k2"] = em.Int(ctx.int("k2") if symbolic else 5)
    try:
        e = _build(W, sk, K, [])
    except (UPTypeError, ZeroDivisionError):
        # not a well-typed expression (e.g. a constant-zero divisor is rejected by the type checker: C15's subject)
        ctx.assume(False)
    ctx.note("expression", text)
    tag = exists_eq_tag(sk)

    simp = Simplifier(env, W.problem) if problem else Simplifier(env)
    try:
        s = simp.simplify(e)
    except (UPException, ArithmeticError, AssertionError, TypeError, ValueError, LookupError, AttributeError) as ex:
        name, loc = type(ex).__name__, _repo_location(ex)
        # an exception is acceptable only if the expression has no defined interpretation at all (every one divides by zero)
        ctx.forall(lambda: defined_somewhere(W, e), None, f"simplify:raises:{name}@{loc}{tag}",
                   f"simplify({text}) raised {name} ({str(ex)[:120]}) although the expression is well typed and has a defined value")
        ctx.witness("undefined-everywhere")
        return

    kind = lambda t: "B" if t.is_bool_type() else "N" if (t.is_int_type() or t.is_real_type()) else "O"  # noqa: E731
    ctx.check(kind(s.type) == kind(e.type), f"simplify:type-kind{tag}", f"simplify({text}) has type {s.type}, the original {e.type}")

    ctx.forall(lambda: equivalence_violation(W, e, s), None, f"simplify:not-equivalent{tag}",
               f"simplify({text}) = {s} differs from the original under some interpretation within the declared types")

    with ctx.untraced():
        fe, fs = free_variables(e), free_variables(s)
    ctx.check(fs <= fe, f"simplify:new-free-variable{tag}", f"simplify({text}) = {s} has free variables {sorted(v.name for v in fs - fe)} that the original has not")

    s2 = (Simplifier(env, W.problem) if problem else Simplifier(env)).simplify(s)
    pairs = []
    with ctx.untraced():
        d = structural_diff(s, s2, pairs)
    ctx.check(d is None, f"simplify:not-idempotent:{d}{tag}", f"simplify({text}) = {s}, simplifying that again gives {s2}")
    if pairs:
        def build():
            import z3
            from vf.refsem import _arith, znum

            return z3.Or([x != y for x, y in (_arith(znum(a), znum(b)) for a, b in pairs)]), {}

        ctx.forall(build, None, f"simplify:not-idempotent:constant{tag}", f"simplify({text}) = {s}: a second simplification changes a constant")
    ctx.witness("changed" if s is not e else "unchanged")
    if tag:
        ctx.witness("exists-eq")


# =============================================================================================
# layer 2: E3 -- IEEE-754-exact proxy execution of Simplifier.walk_div at unit level (proxy numbers: vf/e3.py)
from vf.e3 import I64, Engine as _Engine, SFloat, SFrac, SInt, proxies as _proxies, zreal as _zreal  # noqa: E402


class _StubConst:
    """what walk_div may ask of a constant argument node"""

    def __init__(self, value, real):
        self._value, self._real = value, real

    def is_int_constant(self):
        return not self._real

    def is_real_constant(self):
        return self._real

    def is_constant(self):
        return True

    def constant_value(self):
        return self._value

    def __getattr__(self, name):
        if name.startswith("is_"):
            return lambda: False
        from vf.ctx import HarnessError

        raise HarnessError(f"E3 stub node: attribute {name} is not modelled")


class _StubManager:
    def Int(self, v):
        return ("int", v)

    def Real(self, v):
        return ("real", v)

    def Div(self, left, right):
        return ("div", left, right)

    def __getattr__(self, name):
        from vf.ctx import HarnessError

        raise HarnessError(f"E3 stub manager: {name} is not modelled")


def _run_walk_div(eng, left, right):
    """the REAL Simplifier.walk_div on stub constant nodes; -> ('int'|'real'|'div', value...) or ('raise', exception name)"""
    import unified_planning.model.walkers.simplifier as sm

    pint, pfloat, pFraction = _proxies(eng)
    simp = sm.Simplifier.__new__(sm.Simplifier)
    simp.manager, simp.environment, simp.static_fluents, simp.problem = _StubManager(), None, set(), None
    missing = object()
    saved = {k: sm.__dict__.get(k, missing) for k in ("int", "float", "Fraction")}
    sm.int, sm.float, sm.Fraction = pint, pfloat, pFraction
    try:
        try:
            return sm.Simplifier.walk_div(simp, None, [left, right])
        except (ZeroDivisionError, OverflowError, ValueError, AssertionError) as ex:
            return ("raise", type(ex).__name__)
    finally:
        for k, v in saved.items():
            if v is missing:
                del sm.__dict__[k]
            else:
                setattr(sm, k, v)


def _operands(eng, branch, fixed=None):
    """-> (left stub, right stub, exact numerator term, exact denominator term, query vars): the exact quotient is num/den"""
    z3 = eng.z3
    names = {"int-int": ["l", "r"], "int-real": ["l", "rn", "rd"], "real-int": ["ln", "ld", "r"], "real-real": ["ln", "ld", "rn", "rd"]}[branch]
    v = {}
    for i, nm in enumerate(names):
        t = z3.Int(nm)
        eng.pc.append(z3.And(t >= I64[0], t <= I64[1]))
        if nm in ("ld", "rd"):
            eng.pc.append(t >= 2)  # a Real constant: positive denominator; denominator 1 is an int-valued Real, covered by d >= 2 with n multiple of d
        if fixed is not None:
            eng.pc.append(t == fixed[i])
        v[nm] = t
    if branch == "int-int":
        L, R = SInt(eng, v["l"]), SInt(eng, v["r"])
        num, den = v["l"], v["r"]
    elif branch == "int-real":
        L, R = SInt(eng, v["l"]), SFrac(eng, z3.ToReal(v["rn"]) / z3.ToReal(v["rd"]))
        num, den = v["l"] * v["rd"], v["rn"]
    elif branch == "real-int":
        L, R = SFrac(eng, z3.ToReal(v["ln"]) / z3.ToReal(v["ld"])), SInt(eng, v["r"])
        num, den = v["ln"], v["ld"] * v["r"]
    else:
        L, R = SFrac(eng, z3.ToReal(v["ln"]) / z3.ToReal(v["ld"])), SFrac(eng, z3.ToReal(v["rn"]) / z3.ToReal(v["rd"]))
        num, den = v["ln"] * v["rd"], v["ld"] * v["rn"]
    eng.pc.append(den != 0)  # Div by a zero constant is not an expression (the type checker rejects it)
    return _StubConst(L, branch.startswith("real")), _StubConst(R, branch.endswith("real")), num, den, v


def _result_violation(eng, res, num, den):
    """z3 term: the folded constant differs from num/den (None: nothing was folded)"""
    z3 = eng.z3
    if res[0] == "raise":
        return z3.BoolVal(True)  # divisor non-zero on this path: an exception is a wrong answer
    if res[0] == "div":
        return None
    val = res[1]
    if res[0] == "int":
        if isinstance(val, SInt):
            return val.t * den != num
        return z3.IntVal(int(val)) * den != num
    q = _zreal(eng, val)
    return q * z3.ToReal(den) != z3.ToReal(num)


def _real_fold(values, branch):
    """the REAL simplifier on the concrete operands, through the public API -> (folded value as Fraction | None, exact Fraction, text)"""
    from unified_planning.environment import Environment
    from unified_planning.model.walkers.simplifier import Simplifier

    env = Environment()
    em = env.expression_manager
    g = lambda k: int(values[k])  # noqa: E731
    if branch == "int-int":
        lv, rv = g("l"), g("r")
    elif branch == "int-real":
        lv, rv = g("l"), Fraction(g("rn"), g("rd"))
    elif branch == "real-int":
        lv, rv = Fraction(g("ln"), g("ld")), g("r")
    else:
        lv, rv = Fraction(g("ln"), g("ld")), Fraction(g("rn"), g("rd"))
    mk = lambda x: em.Int(x) if isinstance(x, int) else em.Real(x)  # noqa: E731
    e = em.Div(mk(lv), mk(rv))
    exact = Fraction(lv) / Fraction(rv)
    try:
        s = Simplifier(env).simplify(e)
    except Exception as ex:  # noqa
        return ("raise", type(ex).__name__), exact, f"{lv} / {rv}"
    if not (s.is_int_constant() or s.is_real_constant()):
        return None, exact, f"{lv} / {rv}"
    return Fraction(s.constant_value()), exact, f"{lv} / {rv}"


def h_div(ctx, branch):
    """layer 2: every path of the real walk_div on symbolic 64-bit operands"""
    sig = f"div:{branch}:folded-constant-differs"
    msg = f"Simplifier.walk_div folds a {branch} constant division to a constant that is not the exact quotient"

    def concrete(m):
        got, exact, _txt = _real_fold(m, branch)
        return got is not None and got != exact

    if ctx.mode == "replay":
        ctx.forall(None, concrete, sig, msg)
        return
    eng = _Engine(ctx)
    L, R, num, den, qv = _operands(eng, branch)
    res = _run_walk_div(eng, L, R)
    viol = _result_violation(eng, res, num, den)
    ctx.note("result", f"{res[0]} float-arithmetic={'yes' if eng.used_float else 'no'} assumptions={sorted(set(eng.notes))}")
    if viol is None:
        ctx.witness("not-folded")
        return
    ctx.forall(lambda: (eng.z3.And(eng.pc + [viol]), qv), concrete, sig, msg)
    ctx.witness("folded-via-float" if eng.used_float else "folded-exact")


SELFTEST_PAIRS = {
    "int-int": [(6, 3), (7, 2), (-7, 2), (6, -3), (0, 5), (2 ** 53 + 1, 1), (3 * (2 ** 60 + 1), 3), (10 ** 18, 10), (-(2 ** 63), -1), (9, 6)],
    "int-real": [(3, 1, 2), (-5, 7, 3)],
    "real-int": [(1, 2, 3), (7, 3, -2)],
    "real-real": [(1, 2, 3, 4), (-9, 4, 3, 2)],
}


def h_div_selftest(ctx, branches):
    for br in branches:
        _selftest_branch(ctx, br)


def _selftest_branch(ctx, branch):
    """validation of the E3 encoding: with the operands fixed, the proxy run of walk_div must give exactly what the real Simplifier gives"""
    from vf.ctx import HarnessError

    if ctx.mode == "replay":
        return
    import z3

    for fixed in SELFTEST_PAIRS[branch]:
        eng = _Engine(ctx)
        L, R, num, den, qv = _operands(eng, branch, fixed=fixed)
        res = _run_walk_div(eng, L, R)
        names = list(qv)
        got, exact, txt = _real_fold(dict(zip(names, fixed)), branch)
        s = z3.Solver()
        s.set("timeout", 60000)
        s.add(eng.pc)
        if s.check() != z3.sat:
            raise HarnessError(f"E3 selftest: path condition of {txt} is not satisfiable")
        m = s.model()
        if res[0] in ("int", "real"):
            v = res[1]
            t = v.t if isinstance(v, SInt) else v.q if isinstance(v, SFrac) else None
            if t is None:
                mine = Fraction(v)
            else:
                mv = m.eval(t, model_completion=True)
                mine = Fraction(mv.as_long()) if z3.is_int_value(mv) else Fraction(mv.numerator_as_long(), mv.denominator_as_long())
        else:
            mine = None if res[0] == "div" else res
        if mine != got:
            raise HarnessError(f"E3 selftest: proxy run of walk_div on {txt} gives {mine}, the real Simplifier gives {got}")
        if (got is not None and not isinstance(got, tuple)) and got != exact:
            ctx.note("selftest-sees-defect", txt)
        ctx.witness("selftest-agree")


# =============================================================================================
# shards
def _sh(name, pool, root="B", n=7, d=3, forced=None, budget=100, engine="symex", **kw):
    symbolic = engine == "symex"
    sh = dict(name=name, fn="h_simplify",
              kwargs=dict(pool=pool, root=root, max_nodes=n, max_depth=d, forced=forced or {}, symbolic=symbolic, **kw),
              budget=budget, per_path=30)
    if engine != "symex":
        sh["engine"] = engine
        sh["budget"] = max(budget, 400)  # the choice-only driver's budget is wall-clock (these shards need <= 60 s CPU)
    return sh


BOOLOPS = ["not", "and", "or", "implies", "iff"]


def layer1(tier):
    q = tier == "quick"
    bud = 150 if q else 900
    out = []
    # -- symbolic constants (symex) --
    # Boolean structure over a fluent and constant-only atoms that fold on solver-chosen sides (k1<=k2, k2<k1 complementary)
    BK = ["b", "k1<=k2", "k2<k1"] if q else ["b", "c", "k1<=k2", "k2<k1", "k1==k2", "n<=k1"]
    out.append(_sh("l1-bool-k-andor", dict(B=BK + ["not", "and", "or"], N=[], O=[]), forced={"r": ["and", "or"]}, budget=bud))
    out.append(_sh("l1-bool-k-impiff", dict(B=BK + ["not", "implies", "iff"], N=[], O=[]), forced={"r": ["implies", "iff"]}, budget=bud))
    if not q:
        out.append(_sh("l1-bool-k-mixed", dict(B=["b", "k1<=k2", "k2<k1"] + BOOLOPS, N=[], O=[]), budget=bud))
    # numeric terms: constant accumulation / flattening in walk_plus, walk_minus, walk_times
    fams = [("plusminus", ["n", "k1", "k2", "+", "-", "plus3"], ["2"], ["+", "-", "plus3"]),
            ("times", ["n", "k1", "0", "2", "*", "times3"], ["m", "1"], ["*", "times3"]),
            ("mixed", ["n", "k1", "-1", "+", "-", "*"], ["k2", "plus3"], ["+", "-", "*", "plus3"])]
    for fname, base, extra, roots in fams:
        if q:
            out.append(_sh(f"l1-num-{fname}", dict(B=[], N=base, O=[]), root="N", n=5, d=2, budget=bud))
        else:
            for r in roots:
                for r0 in roots + ["leaf"]:
                    if r0 == r and r in ("plus3", "times3"):
                        continue  # does not fit in 6 nodes
                    lv = [x for x in base + extra if x not in roots]
                    out.append(_sh(f"l1-num-{fname}-{r}-{r0}", dict(B=[], N=base + extra, O=[]), root="N", n=6, d=3, budget=bud,
                                   forced={"r": r, "r0": lv if r0 == "leaf" else r0}))
    # comparisons of an arithmetic term with a second symbolic constant
    for cmp in (["le"] if q else ["le", "lt", "eq"]):
        out.append(_sh(f"l1-cmp-{cmp}", dict(B=[cmp], N=["n", "k1", "k2", "+", "-"] + ([] if q else ["2"]), O=[]),
                       forced={"r1": "k2", "r0": ["n", "k1", "+", "-"]}, budget=bud))
    out.append(_sh("l1-cmp-lt-eq", dict(B=["lt", "eq"], N=["n", "k1", "k2", "2", "+", "*"], O=[]), n=6 if q else 7, forced={"r1": ["k2", "n"]}, budget=bud))
    # interpreted function on constant / non-constant arguments
    out.append(_sh("l1-ifun", dict(B=["le", "eq"], N=["F", "k1", "k2", "n", "1", "+"], O=[]), n=6 if q else 7, forced={"r0": "F"}, budget=bud))
    # simplification relative to a problem: static fluents are replaced by their (symbolic) initial values
    out.append(_sh("l1-static", dict(B=["sb", "sp(o1)", "sp(o2)", "le", "and", "not"] + ([] if q else ["b", "eq"]), N=["sn", "k1", "n", "+"], O=[]),
                   n=6 if q else 7, problem=True, forced={"r": ["le", "and", "not"] if q else ["le", "eq", "and", "not"], "r1": ["sb", "sp(o1)", "sp(o2)", "k1", "sn"]}, budget=bud))
    # the coincidence k2 = k1 (one node for both)
    out.append(_sh("l1-alias", dict(B=["k1<=k2", "k2<k1", "k1==k2", "n<=k1", "k2<n", "and", "or", "iff", "not"], N=[], O=[]), alias=True,
                   forced={"r": ["and", "or", "iff"]}, budget=bud))
    if not q:
        out.append(_sh("l1-alias-num", dict(B=["le", "eq"], N=["n", "k1", "k2", "+", "-", "*"], O=[]), alias=True, n=6, budget=bud))
    # -- concrete constants (choice-only engine): wider structure --
    B0 = ["b", "c", "true", "false", "not", "and", "or", "implies", "iff"]
    out.append(_sh("l1c-bool", dict(B=B0 if q else B0 + ["1<=2", "and3"], N=[], O=[]), n=5 if q else 6, engine="direct", budget=bud))
    out.append(_sh("l1c-arith", dict(B=[], N=["n", "6", "3", "0", "-2", "1/2", "-", "*", "/"] + ([] if q else ["+"]), O=[]), root="N", n=5, d=2, engine="direct", budget=bud))
    out.append(_sh("l1c-cmp-div", dict(B=["le", "eq"], N=["n", "m", "6", "3", "-2", "/", "*", "F"], O=[]), n=6, engine="direct", forced={"r0": ["/", "*", "F"]}, budget=bud))
    out.append(_sh("l1c-quant", dict(B=["exists", "forall", "b", "p(x)", "p(o1)", "p(z)", "x==o1", "and", "or", "not"], N=[], O=[]), n=7 if q else 8, d=3 if q else 4,
                   engine="direct", forced={"r": ["exists", "forall"]}, budget=bud))
    out.append(_sh("l1c-static", dict(B=["sb", "sp", "b", "le", "and", "implies", "not", "exists"], N=["sn", "3", "n", "+", "F"], O=["o1", "o2", "x", "y"]),
                   n=6, problem=True, engine="direct", forced={"r": ["le", "and", "implies", "not", "exists"]}, budget=bud))
    if not q:
        for op in ("le", "eq", "and", "or", "implies", "iff", "not", "exists", "forall"):
            out.append(_sh(f"l1c-wide-{op}", dict(B=["b", "p", "le", "eq", "oeq", "and", "or", "not", "exists"], N=["n", "3", "0", "+", "*", "/", "F"], O=["o1", "x", "z", "w"]),
                           n=6, d=3, engine="direct", forced={"r": op}, budget=bud))
    return out


def layer3(tier):
    """exists x. (x = t and phi): the shape rewritten by Simplifier.walk_exists"""
    q = tier == "quick"
    bud = 150 if q else 900
    out = []
    EQ = ["x==o1", "o1==x", "x==z", "x==y", "x==w(x)", "w(x)==x", "x==w(o1)", "x==o2"]
    PHI = ["p(x)", "p(o1)", "q(x,z)", "b", "not", "or", "and"]
    out.append(_sh("l3-exists-eq", dict(B=EQ + PHI, N=[], O=[]), n=9 if q else 10, d=4, engine="direct", budget=bud,
                   forced={"r": "exists", "r0": ["and", "and3"], "r00": EQ + ["p(x)"], "r01": EQ + PHI}))
    out.append(_sh("l3-exists-eq-sub", dict(B=EQ + PHI, N=[], O=[]), n=8 if q else 10, d=4, engine="direct", sub=True, budget=bud,
                   forced={"r": "existsS", "r0": ["and"] if q else ["and", "and3"], "r00": EQ + ["p(x)"]}))
    EQ2 = ["x==xo", "xo==x", "x==w(xo)", "xo==w(x)", "x==o1", "x==z"]
    out.append(_sh("l3-exists2", dict(B=EQ2 + ["p(x)", "p(xo)", "q(x,xo)", "and", "and3"], N=[], O=[]), n=11 if q else 12, d=4, engine="direct", budget=bud,
                   forced={"r": "exists2", "r0": ["and", "and3"]}))
    NEST = ["exists", "forall"]
    out.append(_sh("l3-nested", dict(B=["x==o1", "x==z", "x==xo", "xo==x", "x==w(xo)", "p(x)", "q(x,xo)", "q(x,z)", "and"] + NEST, N=[], O=[]), n=12 if q else 13, d=5,
                   engine="direct", budget=bud,
                   forced={"r": "exists", "r0": "and", "r00": ["x==o1", "x==z", "x==xn", "xn==x", "p(x)"], "r01": NEST, "r010": ["and", "q(x,xo)", "q(x,z)"]}))
    # capture TWO quantifiers down: exists v0.(v0 == v2 and Q v1. Q v2. phi(v0, v2)); v2 occurs free in the equality
    out.append(_sh("l3-nested2", dict(B=["x==xnn", "xnn==x", "x==z", "q(xoo,x)", "q(x,xoo)", "q(xoo,xo)", "p(x)", "and"] + NEST, N=[], O=[]), n=13, d=6,
                   engine="direct", budget=bud,
                   forced={"r": "exists", "r0": "and", "r00": ["x==xnn", "xnn==x", "x==z"], "r01": NEST, "r010": NEST,
                           "r0100": ["q(xoo,x)", "q(x,xoo)", "and"], "r01000": ["q(xoo,x)", "q(xoo,xo)"], "r01001": ["p(x)", "q(x,xoo)"]}))
    return out


def layer2(tier):
    brs = ["int-int", "int-real", "real-int", "real-real"]
    out = [dict(name="l2-div-selftest", fn="h_div_selftest", kwargs=dict(branches=brs), budget=300, engine="direct", query_timeout=60)]
    for br in brs:
        out.append(dict(name=f"l2-div-{br}", fn="h_div", kwargs=dict(branch=br), budget=300 if tier == "quick" else 900, engine="direct", query_timeout=60))
    return out


def shards(tier, seed):
    return layer1(tier) + layer2(tier) + layer3(tier)


MANIFEST = dict(
    engine="symex",
    technique="symbolic execution (CrossHair/z3) of the real Simplifier on grammar-generated typed expression skeletons with symbolic integer constants, "
              "equivalence decided by one z3 query per path over all interpretations; choice-only enumeration for concrete-constant and quantifier skeletons; "
              "IEEE-754-exact proxy (concolic) execution of the real Simplifier.walk_div at unit level with z3 FloatingPoint(11,53) terms",
    text="Bounded model checking in three layers. (1) For every typed expression skeleton of the stated pools (<= 7 nodes, depth <= 3) and EVERY value of the "
         "symbolic integer constants (and of the static fluent's initial value), simplify(e) has the same value as e under every interpretation of fluents, parameters "
         "and free variables within their declared types (divisors non-zero), has no new free variable, and is a fixed point of simplify. (2) For all 64-bit signed "
         "operands, the constant that walk_div folds equals the exact quotient (decided on an IEEE-754-exact model of the float arithmetic the function performs; "
         "counterexamples replayed on the real Simplifier). (3) The exists-elimination skeletons (x = t and phi, two variables, nested, sub-typed) satisfy the same assertions.",
    note="Trusted: vf/exprsem.py as the meaning of expressions, CrossHair's int model, z3 (Int/Real/FloatingPoint), the shims S2' S7 S8 listed in ASSUMPTIONS. "
         "Defects found on the snapshot and since repaired in /repo (scratch/fixes/C11-*.md): walk_div float rounding above 2**53; walk_exists: self-referential equality, "
         "sub-typed variable, variable capture, result not re-simplified; walk_minus result not flattened. Outside: deeper expressions, temporal operators, real constants with symbolic denominators.",
)
