"""C29 Durative-to-processes plan conversions are mutually inverse.

Symbolic: the start time of every timed action instance (whole ticks, k symbolic), the fixed duration constant of the
fixed-duration action, the value of the int parameter that a parameter-dependent fixed duration reads, the duration of every
instance of a variable-duration action.  Structure (which instances make up the plan, <= 3, incl. two instances of the same
action with the same parameters) is a shard parameter.
Real code: DurativeActionToProcesses.compile (-> _compile, _compile_durative_action), CompilerResult.plan_forward_conversion
= _forward_plan_to_plan, CompilerResult.plan_back_conversion = _back_plan_to_plan.
Assertions (no validity of the plan is required by the property; assumed is only what the conversions themselves rely on,
see ASSUMPTIONS):
  (1) back(forward(plan)) == plan as a multiset of (start, action, parameters, duration): one solver query
      "exists values on this path for which no permutation matches";
  (2) forward(plan) contains exactly one start instance per input instance (same time) and one compiled end instance per
      instance of a variable-duration action, and every compiled end instance lies inside (start, start + duration] of its
      action instance: solver query over an injective assignment of end events to instances;
  (3) neither conversion raises.
"""
from fractions import Fraction
from itertools import permutations

from vf import tplan
from vf.logic import And, Or

PROPERTY = "C29"
LEVEL = "model_checking"
FUNCTIONS = [
    "unified_planning.engines.compilers.durative_actions_to_processes:DurativeActionToProcesses._compile",
    "unified_planning.engines.compilers.durative_actions_to_processes:DurativeActionToProcesses._compile_durative_action",
    "unified_planning.engines.compilers.durative_actions_to_processes:_forward_plan_to_plan",
    "unified_planning.engines.compilers.durative_actions_to_processes:_back_plan_to_plan",
    "unified_planning.engines.compilers.durative_actions_to_processes:_action_variable_duration",
    "unified_planning.engines.compilers.durative_actions_to_processes:_get_first_end_timing",
]
BOUNDS = ("one problem family inside DurativeActionToProcesses.supported_kind(): F (fixed constant duration, symbolic), P(k) (fixed duration "
          "k resp. k+1 read from a bounded int parameter, k symbolic), V (duration interval [1,12] ticks, end effect), W (duration interval, "
          "effect at end-1 tick: the compiled end action fires before the end), I (instantaneous), conditions/effects on Boolean fluents; "
          "plans of 1..3 (thorough: 4) timed instances from 17 (thorough: 28) instance lists incl. F,F / P(k),P(k) / V,V with equal parameters; start times in 0..12 ticks, "
          "durations in 1..8 ticks, all symbolic (quick: the compile step is run natively when every duration constant is concrete)")
OUTSIDE = ("plans that give a fixed-duration action another duration than its fixed one; two instances of the same variable-duration action "
           "with the same parameters that properly overlap (the kind has no SELF_OVERLAPPING); fluent-dependent durations (unsupported); "
           "more than 4 instances; time units other than 1 and 1/3")
ASSUMPTIONS = [
    "the plan gives every instance of a fixed-duration action exactly its fixed duration (back conversion recomputes it from the action)",
    "for a variable-duration action whose first end timing is end-delta, duration > delta (asserted by _forward_plan_to_plan)",
    "two instances of the same variable-duration action with the same parameters do not overlap: end_i <= start_j or end_j <= start_i "
    "(_back_plan_to_plan pairs an end event with the latest started instance; touching instances are inside the claim)",
    "two instances with different symbolic int parameters have different values (syntactic hash-consing keeps their constants apart)",
]


def _build(ctx, env, kd, u):
    from unified_planning.model import (ClosedTimeInterval, DurativeAction, EndTiming, Fluent, InstantaneousAction, Problem,
                                        StartTiming)

    em, tm = env.expression_manager, env.type_manager
    p = Problem("datp", env)
    fl = {}
    for nme in ("x", "y", "z", "w"):
        f = Fluent(nme, tm.BoolType(), environment=env)
        p.add_fluent(f, default_initial_value=em.FALSE())
        fl[nme] = em.FluentExp(f)
    F = DurativeAction("F", _env=env)
    F.set_fixed_duration(em.Real(Fraction(kd) if u == 1 else kd * u))
    F.add_effect(StartTiming(), fl["x"], em.TRUE())
    F.add_condition(ClosedTimeInterval(StartTiming(), EndTiming()), em.Not(fl["w"]))
    F.add_effect(EndTiming(), fl["y"], em.TRUE())
    P = DurativeAction("P", _env=env, k=tm.IntType(1, 9))
    P.set_fixed_duration(P.parameter("k"))
    P.add_effect(EndTiming(), fl["z"], em.TRUE())
    P1 = DurativeAction("P1", _env=env, k=tm.IntType(1, 9))
    P1.set_fixed_duration(em.Plus(P1.parameter("k"), em.Int(1)))
    P1.add_condition(StartTiming(), em.Not(fl["w"]))
    P1.add_effect(EndTiming(), fl["z"], em.TRUE())
    V = DurativeAction("V", _env=env)
    V.set_closed_duration_interval(em.Real(1 * u), em.Real(12 * u))
    V.add_condition(StartTiming(), em.Not(fl["w"]))
    V.add_effect(StartTiming(), fl["x"], em.TRUE())
    V.add_effect(EndTiming(), fl["x"], em.FALSE())
    W = DurativeAction("W", _env=env)
    W.set_closed_duration_interval(em.Real(2 * u), em.Real(12 * u))
    W.add_effect(EndTiming() - 1 * u, fl["y"], em.TRUE())
    W.add_effect(EndTiming(), fl["z"], em.TRUE())
    I = InstantaneousAction("I", _env=env)
    I.add_precondition(em.Not(fl["w"]))
    I.add_effect(fl["z"], em.TRUE())
    for a in (F, P, P1, V, W, I):
        p.add_action(a)
    p.add_goal(fl["z"])
    return dict(problem=p, F=F, P=P, P1=P1, V=V, W=W, I=I)


def h_inverse(ctx, insts, sym, vals=None, den=1):
    """insts: list of [action name, param slot or None]; numerators: s<i> start, d<i> duration of a V/W instance, kd (F's duration),
    k<slot> value of the int parameter in that slot (instances that share a slot share the parameter expression)."""
    from unified_planning.engines.compilers.durative_actions_to_processes import DurativeActionToProcesses
    from unified_planning.engines.mixins.compiler import CompilationKind
    from unified_planning.model import DurativeAction
    from unified_planning.plans import ActionInstance, TimeTriggeredPlan

    env = ctx.fresh_env(hashcons="syntactic")
    em = env.expression_manager
    u = Fraction(1, den)
    vals = dict(dict(kd=3), **(vals or {}))

    def tick(k):
        return Fraction(k) if den == 1 else Fraction(k, den)

    kd = tplan.num(ctx, "kd", sym.get("kd"), vals["kd"])
    concrete_model = "kd" not in sym
    comp = DurativeActionToProcesses()
    if concrete_model:
        with ctx.untraced():  # S6: every input of the compile step is concrete
            S = _build(ctx, env, kd, u)
            supported = comp.supports(S["problem"].kind)
            res = comp.compile(S["problem"], CompilationKind.DURATIVE_ACTIONS_TO_PROCESSES)
    else:
        S = _build(ctx, env, kd, u)
        with ctx.untraced():
            supported = comp.supports(S["problem"].kind)
        res = comp.compile(S["problem"], CompilationKind.DURATIVE_ACTIONS_TO_PROCESSES)
    if not supported:
        from vf.ctx import HarnessError

        raise HarnessError("the skeleton is outside DurativeActionToProcesses.supported_kind()")
    slots = {}
    items = []  # (start, ai, dur)
    for i, (name, slot) in enumerate(insts):
        act = S[name]
        start = tick(tplan.num(ctx, f"s{i}", sym.get(f"s{i}"), vals.get(f"s{i}", 2 * i)))
        params = ()
        if name in ("P", "P1"):
            if slot not in slots:
                spec = sym.get(f"k{slot}")
                if spec is not None and any(n == "P1" and sl == slot for n, sl in insts):
                    # k + 1 over a symbolic constant makes TypeChecker.walk_plus compare a symbolic bound with float("inf")
                    # (floating-point theory, solver time-outs): P1's parameter value is a structural choice instead
                    k = spec[0] + ctx.choice(f"k{slot}", spec[1] - spec[0] + 1)
                else:
                    k = tplan.num(ctx, f"k{slot}", spec, vals.get(f"k{slot}", 2 + int(slot)))
                for _o, ko in slots.values():
                    ctx.assume(k != ko)
                slots[slot] = (em.Int(k), k)
            pe, k = slots[slot]
            params = (pe,)
            dur = Fraction(k) if name == "P" else Fraction(k + 1)
        elif name == "F":
            dur = Fraction(kd) if den == 1 else kd * u
        elif name in ("V", "W"):
            dur = tick(tplan.num(ctx, f"d{i}", sym.get(f"d{i}"), vals.get(f"d{i}", 3)))
            if name == "W":
                ctx.assume(dur > u)  # what _forward_plan_to_plan asserts: 0 < duration + first_end_timing.delay
            else:
                ctx.assume(dur > 0)
        else:
            dur = None
        items.append((start, ActionInstance(act, params), dur))
    # same variable-duration action + same parameters: disjoint instances only (see ASSUMPTIONS)
    for i in range(len(items)):
        for j in range(i + 1, len(items)):
            (si, ai, di), (sj, aj, dj) = items[i], items[j]
            if insts[i][0] in ("V", "W") and insts[i][0] == insts[j][0]:
                ctx.assume(si + di <= sj or sj + dj <= si)
    plan = TimeTriggeredPlan(list(items), env)
    fwd = res.plan_forward_conversion(plan)
    ctx.check(isinstance(fwd, TimeTriggeredPlan), "forward:not-a-tt-plan", "plan_forward_conversion did not return a TimeTriggeredPlan")
    # (2) shape of the forward plan
    kw = res.plan_forward_conversion.keywords
    start_fw, end_fw = kw["start_actions_forward"], kw["end_actions_forward"]
    fw_items = list(fwd.timed_actions)
    for _t, fai, fd in fw_items:
        ctx.check(fd is None, "forward:duration", "a compiled (instantaneous) action instance carries a duration")
    starts = [(t, fai) for t, fai, _ in fw_items if any(fai.action == c for c in start_fw.values())]
    ends = [(t, fai) for t, fai, _ in fw_items if any(fai.action == c for c, _tm in end_fw.values())]
    ctx.check(len(starts) + len(ends) == len(fw_items), "forward:unknown-action", "the forward plan contains an action that is neither a start nor an end action")
    var_idx = [i for i, (n, _s) in enumerate(insts) if n in ("V", "W")]
    ctx.check(len(starts) == len(items), "forward:starts", f"{len(starts)} start instances for {len(items)} plan instances")
    ctx.check(len(ends) == len(var_idx), "forward:ends", f"{len(ends)} compiled end instances for {len(var_idx)} variable-duration instances")

    def same_inst(fai, orig_ai, table, pick=lambda v: v):
        return fai.action == pick(table[orig_ai.action]) and tuple(fai.actual_parameters) == tuple(orig_ai.actual_parameters)

    # every start instance at the start time of its own instance (injective assignment)
    alts = []
    for perm in permutations(range(len(items))):
        if all(same_inst(starts[j][1], items[perm[j]][1], start_fw) for j in range(len(starts))):
            alts.append(And(*[starts[j][0] == items[perm[j]][0] for j in range(len(starts))]))
    ctx.require(Or(*alts) if alts else False, "forward:start-times", "the start instances of the forward plan are not the plan's instances at their start times")
    # every compiled end instance inside (start, start + duration] of its own instance
    alts = []
    for perm in permutations(var_idx):
        if all(same_inst(ends[j][1], items[perm[j]][1], end_fw, lambda v: v[0]) for j in range(len(ends))):
            alts.append(And(*[And(items[perm[j]][0] < ends[j][0], ends[j][0] <= items[perm[j]][0] + items[perm[j]][2])
                              for j in range(len(ends))]))
    ctx.require(Or(*alts) if alts else (len(ends) == 0), "forward:end-outside-duration",
                "a compiled end event of the forward plan does not lie inside (start, start + duration] of its action instance")
    # (1) round trip
    try:
        back = res.plan_back_conversion(fwd)
    except AssertionError:
        # reported as a violation with a stable signature (an escaping exception would be reported as well, but every
        # crashing path is then concretised and the region is enumerated value by value)
        touching = False
        for i in range(len(items)):
            for j in range(len(items)):
                if i != j and insts[i][0] in ("V", "W") and insts[i][0] == insts[j][0] and items[i][0] + items[i][2] == items[j][0]:
                    touching = True
        ctx.fail("back:assertion-error" + (":touching-same-action" if touching else ""),
                 "plan_back_conversion raises AssertionError on the plan produced by plan_forward_conversion"
                 + (" (an instance of a variable-duration action starts exactly when another instance of the same action with the "
                    "same parameters ends, and is listed first in the plan)" if touching else ""))
    ctx.check(isinstance(back, TimeTriggeredPlan), "back:not-a-tt-plan", "plan_back_conversion did not return a TimeTriggeredPlan")
    b_items = list(back.timed_actions)
    ctx.check(len(b_items) == len(items), "roundtrip:length", f"back(forward(plan)) has {len(b_items)} instances, the plan has {len(items)}")

    def same_orig(bai, oai):
        return bai.action == oai.action and tuple(bai.actual_parameters) == tuple(oai.actual_parameters)

    alts = []
    for perm in permutations(range(len(items))):
        if all(same_orig(b_items[j][1], items[perm[j]][1]) and ((b_items[j][2] is None) == (items[perm[j]][2] is None))
               for j in range(len(items))):
            alts.append(And(*[And(b_items[j][0] == items[perm[j]][0],
                                  True if items[perm[j]][2] is None else b_items[j][2] == items[perm[j]][2])
                              for j in range(len(items))]))
    ctx.require(Or(*alts) if alts else False, "roundtrip:not-inverse",
                "back(forward(plan)) differs from the plan as a multiset of (start, action instance, duration)")
    ctx.witness(f"roundtrip-{len(items)}")


def shards(tier, seed):
    out = []
    Q = tier == "quick"
    budget = 100 if Q else 1500
    SW, DW, KW = [0, 12], [1, 8], [1, 8]

    def sh(name, insts, sym=None, vals=None, **kw):
        if sym is None:  # everything symbolic except F's duration constant (compile runs natively)
            sym = {}
            seen = set()
            for i, (n, slot) in enumerate(insts):
                sym[f"s{i}"] = SW
                if n in ("V", "W"):
                    sym[f"d{i}"] = DW
                if n in ("P", "P1") and slot not in seen:
                    sym[f"k{slot}"] = KW
                    seen.add(slot)
        d = dict(name=name, fn="h_inverse", kwargs=dict(insts=insts, sym=sym, **({"vals": vals} if vals else {}), **kw),
                 budget=budget, per_path=60)
        out.append(d)

    F, V, W, I = ["F", None], ["V", None], ["W", None], ["I", None]
    P0, P1_, Q0, Q1 = ["P", "0"], ["P", "1"], ["P1", "0"], ["P1", "1"]
    sh("F-F", [F, F])
    sh("F-F-I", [F, F, I])
    sh("P0-P0", [P0, P0])
    sh("P0-P1-P0", [P0, P1_, P0])
    sh("Q0-Q0-Q1", [Q0, Q0, Q1], sym=dict(s0=SW, s1=SW, s2=SW, k0=[1, 3], k1=[1, 3]))
    sh("V-V", [V, V])
    sh("V-W", [V, W])
    sh("W-W", [W, W])
    sh("F-V-I", [F, V, I])
    sh("P0-W-F", [P0, W, F])
    sh("V-F-V", [V, F, V])
    sh("W-I-W", [W, I, W])
    sh("V", [V])
    sh("I-I", [I, I])
    # F's duration constant symbolic: the compiler itself runs under the tracer
    sh("F-F-symkd", [F, F], sym=dict(kd=[1, 8], s0=SW, s1=SW))
    sh("F-V-symkd", [F, V], sym=dict(kd=[1, 8], s0=SW, s1=SW, d1=DW))
    sh("F-P0-symkd", [F, P0], sym=dict(kd=[1, 8], s0=SW, s1=SW, k0=KW))
    # thirds as the time unit: fixed-duration constants that no binary float represents exactly (7/3, 5/3)
    sh("F-F-thirds", [F, F], vals=dict(kd=7), den=3)
    sh("F-V-thirds", [F, V], vals=dict(kd=5), den=3)
    if not Q:
        sh("F-W-I-thirds", [F, W, I], vals=dict(kd=7), den=3)
        sh("F-F-symkd-thirds", [F, F], sym=dict(kd=[1, 8], s0=SW, s1=SW), den=3)
        sh("V-V-V", [V, V, V])
        sh("W-W-W", [W, W, W])
        sh("V-W-V", [V, W, V])
        sh("F-F-F-symkd", [F, F, F], sym=dict(kd=[1, 8], s0=SW, s1=SW, s2=SW))
        sh("F-W-V-symkd", [F, W, V], sym=dict(kd=[1, 8], s0=SW, s1=SW, s2=SW, d1=DW, d2=DW))
        sh("Q0-P1-W", [Q0, P1_, W], sym=dict(s0=SW, s1=SW, s2=SW, d2=DW, k0=[1, 4], k1=KW))
        sh("V-V-V-V", [V, V, V, V], sym=dict(s0=SW, d0=DW, s1=SW, d1=DW, s2=SW, d2=DW), vals=dict(s3=14, d3=2))
        sh("F-V-W-I", [F, V, W, I])
        sh("P0-P0-V-V", [P0, P0, V, V])
        sh("W-W-I-W", [W, W, I, W])
        sh("P0-P1-F-F", [P0, P1_, F, F])
    return out


MANIFEST = dict(
    engine="symex",
    technique="symbolic execution (CrossHair/z3) of the real DurativeActionToProcesses compiler and of its forward / back plan conversions on time-triggered plans with symbolic start times, durations, fixed-duration constants and int parameter values; multiset equality and 'end event inside its action' as solver queries over permutations",
    text="Bounded model checking: for each instance list (<= 3 timed instances, incl. equal action + equal parameters) and EVERY value of the symbolic start times / durations / duration constants / parameter values in the windows that satisfies the stated assumptions, "
         "back(forward(plan)) equals the plan as a multiset of (start, instance, duration), the forward plan has one start instance per plan instance at its start time and one compiled end instance per variable-duration instance, lying inside (start, start+duration].",
    note="Trusted: CrossHair's int/Fraction model, z3. No validity of the plan is assumed; assumed is what the conversions rely on (fixed durations respected, duration > first-end delay, no self-overlap of a variable-duration action with equal parameters). In shards without a symbolic duration constant the compile step runs natively (all its inputs are concrete) and only the conversions run under the tracer.",
)
