"""C27 Deordering a valid sequential plan keeps every linearisation valid.

Translation validation.  Program = (skeleton problem from vf/gen.py with all leaves concrete, a VALID
sequential plan of distinct action instances found by BMC over R).  The real
SequentialPlan.convert_to(PARTIAL_ORDER_PLAN) runs concretely; the solver then decides, with one
position variable per action instance,
    exists pos (a permutation respecting the returned order):  the plan in that order is not valid,
                                                               or ends in another final state      -- must be unsat
i.e. ALL linearisations in one query (R unrolled along the symbolic order).  A model is confirmed with the
real SequentialPlanValidator before it is reported.  Second clause: every two instances where one writes a
ground fluent the other reads or writes keep their original relative order (read/write sets computed by this
module from the expanded, ground effects and conditions; concrete check on the transitive closure).
"""
from vf import gen

PROPERTY = "C27"
LEVEL = "translation_validation"
FUNCTIONS = [
    "unified_planning.plans.sequential_plan:SequentialPlan._to_partial_order_plan",
    "unified_planning.plans.sequential_plan:SequentialPlan.convert_to",
    "unified_planning.plans.partial_order_plan:PartialOrderPlan.__init__",
    "unified_planning.plans.partial_order_plan:PartialOrderPlan.get_adjacency_list",
]
BOUNDS = ("skeleton problems with two actions over 2 objects (conditional, forall, numeric effects, quantified conditions, bounded types, state invariants), "
          "every Boolean initial-value combination; every valid plan of distinct instances of length 2..3 (quick) / 2..4 (thorough), at most 25 per program")
OUTSIDE = "longer plans, plans with repeated instances (excluded by the property), nested fluents (the conversion rejects them)"
ASSUMPTIONS = ["R (vf/refsem.py) is the documented semantics", "plans come from the solver's enumeration of R-valid plans (blocking clauses)"]

V = dict(x0=2, c=3, d=2, lb=0, ub=4, c1=1, c2=3, c3=4, d2=1, u0=2)
SKS = [
    dict(pre=[], effs=[0, 10], second_action=[1, 15], pre2=[], effcond2=2, goal=[0]),                       # b:=F,p(x):=T | when p(x): b:=T, p(x):=F
    dict(pre=[12], effs=[10], second_action=[12], pre2=[2], goal=[0]),                                       # producer / consumer on p
    dict(pre=[], effs=[2], second_action=[3, 12], pre2=[], n_bounds="both", goal=[0]),                       # inc / dec under bounds
    dict(pre=[], effs=[0], second_action=[10], pre2=[], inv=[1], goal=[2]),                                  # invariant b or p(o1): a deletes b, a2 adds p
    dict(pre=[4], effs=[2, 12], second_action=[4], pre2=[], n_bounds="both", goal=[0]),                      # n<c guards, assignment resets
    dict(pre=[], effs=[6], second_action=[13, 12], pre2=[7], goal=[0]),                                      # forall effects
    dict(pre=[8], effs=[15], second_action=[10, 12], pre2=[], goal=[0]),                                     # universal condition reads every p
    dict(pre=[], effs=[9, 12], second_action=[5], pre2=[], effcond=0, effcond2=4, n_bounds="both", goal=[5]),  # conditional numeric effects
    dict(pre=[], effs=[10], second_action=[20], pre2=[], goal=[0]),      # forall effect whose CONDITION mentions the bound variable: reads every p(y)
    dict(pre=[], effs=[15], second_action=[20, 10], pre2=[], goal=[0]),
    dict(pre=[], effs=[1], effcond=2, second_action=[15], pre2=[0], goal=[0]),    # the last writer of b wrote it through a CONDITIONAL effect; a2 reads b
    dict(pre=[], effs=[5], effcond=0, second_action=[12], pre2=[5], n_bounds="both", goal=[0]),  # the same on a numeric fluent
    dict(pre=[], effs=[12], second_action=[10], pre2=[], inv=[2], goal=[2]),      # QUANTIFIED invariant: a writes b, a2 writes p(x), nothing else links them
    dict(pre=[], effs=[0], second_action=[15], pre2=[], inv=[2], goal=[1]),
    # three invariants sharing fluents pairwise: a writes b, a2 writes p(x); only the LAST invariant links b with p(o2)
    dict(pre=[], effs=[12], second_action=[10], pre2=[], inv=[1, 3, 4], goal=[2]),
    dict(pre=[], effs=[12], second_action=[10], pre2=[], inv=[3, 1, 4], goal=[2]),
]


def _closure(n, edges):
    reach = [[False] * n for _ in range(n)]
    for i, j in edges:
        reach[i][j] = True
    for k in range(n):
        for i in range(n):
            for j in range(n):
                if reach[i][k] and reach[k][j]:
                    reach[i][j] = True
    return reach


def _rw_sets(R, a, objs):
    """ground fluent keys read / written by the ground instance (own expansion; forall effects and quantifiers expanded)"""
    import itertools
    b0 = {p.name: o for p, o in zip(a.parameters, objs)}
    reads, writes = set(), set()

    def fl(e, b):
        stack = [(e, b)]
        while stack:
            x, bb = stack.pop()
            if x.is_exists() or x.is_forall():
                vs = x.variables()
                for combo in itertools.product(*[list(R.p.objects(v.type)) for v in vs]):
                    b2 = dict(bb)
                    b2.update({v.name: o for v, o in zip(vs, combo)})
                    stack.append((x.arg(0), b2))
                continue
            if x.is_fluent_exp():
                names = []
                for arg in x.args:
                    if arg.is_object_exp():
                        names.append(arg.object().name)
                    elif arg.is_parameter_exp():
                        names.append(bb[arg.parameter().name].name)
                    elif arg.is_variable_exp():
                        names.append(bb[arg.variable().name].name)
                    else:
                        raise NotImplementedError("nested fluent")
                yield (x.fluent().name, tuple(names))
            for arg in x.args:
                stack.append((arg, bb))

    for c in a.preconditions:
        reads |= set(fl(c, b0))
    for eff in a.effects:
        combos = [()]
        if eff.is_forall():
            combos = list(itertools.product(*[list(R.p.objects(v.type)) for v in eff.forall]))
        for combo in combos:
            b = dict(b0)
            b.update({v.name: o for v, o in zip(eff.forall, combo)})
            writes |= set(fl(eff.fluent, b))
            reads |= set(fl(eff.condition, b)) | set(fl(eff.value, b))
            if not eff.is_assignment():
                reads |= set(fl(eff.fluent, b))
    return reads, writes


def h_deorder(ctx, sk, kmax):
    import z3
    from unified_planning.engines.plan_validator import SequentialPlanValidator
    from unified_planning.plans import ActionInstance, PlanKind, SequentialPlan
    from vf import tv
    from vf.refsem import Ref

    g = gen.build(ctx, dict(sk, sym=[], values=V, minimal=True))
    P, env, em = g.problem, g.env, g.em
    R = Ref(P)
    gas = R.ground_actions()
    plans, complete = tv.enumerate_valid_plans(R, kmax, cap=60)
    plans = [pl for pl in plans if len(pl) >= 2 and len(set(pl)) == len(pl)][:25]
    ctx.note("plans", dict(count=len(plans), enumeration_complete=complete))
    v = SequentialPlanValidator(environment=env)
    v.skip_checks = True
    for pl in plans:
        ais = [ActionInstance(gas[i][0], tuple(em.ObjectExp(o) for o in gas[i][1])) for i in pl]
        plan = SequentialPlan(ais, env)
        pop = plan.convert_to(PlanKind.PARTIAL_ORDER_PLAN, P)
        adj = pop.get_adjacency_list
        adj = adj() if callable(adj) else adj
        idx = {id(ai): i for i, ai in enumerate(ais)}
        edges = []
        for src, dsts in adj.items():
            for dst in dsts:
                edges.append((idx[id(src)], idx[id(dst)]))
        n = len(pl)
        ctx.check(len(adj) == n, "pop-nodes", f"partial-order plan has {len(adj)} nodes for a plan of {n} instances")
        reach = _closure(n, edges)
        # clause 2: interfering instances keep their original order
        rw = [_rw_sets(R, gas[i][0], gas[i][1]) for i in pl]
        for i in range(n):
            for j in range(i + 1, n):
                ri, wi = rw[i]
                rj, wj = rw[j]
                if (wi & (rj | wj)) or (wj & (ri | wi)):
                    ctx.check(reach[i][j], "interfering-pair-unordered",
                              f"steps {i} and {j} of plan {[gas[k][0].name + str(tuple(o.name for o in gas[k][1])) for k in pl]} interfere on "
                              f"{sorted((wi & (rj | wj)) | (wj & (ri | wi)))} but the partial order does not keep them ordered")
                    ctx.witness("interfering-pair")
                ctx.check(not reach[j][i], "order-reversed", f"the partial order puts step {j} before step {i}")

        def build(pl=pl, edges=edges, n=n):
            pos = [z3.Int(f"pos{i}") for i in range(n)]
            cons = [z3.And(p >= 0, p < n) for p in pos] + [z3.Distinct(pos)] + [pos[i] < pos[j] for i, j in edges]
            # choice at step t: the instance whose position is t
            choices = []
            for t in range(n):
                c = z3.IntVal(-2)
                for i in range(n):
                    c = z3.If(pos[i] == t, z3.IntVal(pl[i]), c)
                choices.append(c)
            u = tv.unroll(R, n, choices)
            u0 = tv.unroll(R, n, [z3.IntVal(i) for i in pl])
            ok = z3.And(tv.valid(R, u, n), R.states_equal(u["states"][n], u0["states"][n]))
            return z3.And(cons + [z3.Not(ok)]), {f"pos{i}": p for i, p in enumerate(pos)}

        def concrete(m, ais=ais, n=n, plan=plan):
            order = sorted(range(n), key=lambda i: int(m[f"pos{i}"]))
            lin = SequentialPlan([ais[i] for i in order], env)
            r = v.validate(P, lin)
            if not bool(r.status):
                return True
            # same final state?
            r0 = v.validate(P, plan)
            return r.trace[-1] != r0.trace[-1]

        ctx.forall(build, concrete, "linearisation-invalid", "a topological ordering of the deordered plan is not valid or ends in a different final state")
        ctx.witness("plan")
    ctx.witness("program")
    ctx.note("skeleton", gen.describe(sk))


def shards(tier, seed):
    out = []
    kmax = 3 if tier == "quick" else 4
    for i, sk in enumerate(SKS):
        out.append(dict(name=f"sk{i}", fn="h_deorder", engine="direct", kwargs=dict(sk=sk, kmax=kmax), budget=240 if tier == "quick" else 1800,
                        query_timeout=60))
    return out


MANIFEST = dict(
    engine="direct",
    technique="translation validation: real SequentialPlan->PartialOrderPlan conversion on solver-enumerated valid plans; one z3 query with position variables decides validity and final-state equality of ALL linearisations over the reference semantics",
    text="Translation validation with bounded model checking: for each program (problem, valid plan of distinct instances) all topological orderings of the deordered plan are valid and reach the same final state (one solver query over position variables), "
         "and interfering instances stay ordered.",
    note="Trusted: R, the read/write-set computation of this module, z3. Counterexample linearisations are confirmed with the real SequentialPlanValidator before being reported.",
)
