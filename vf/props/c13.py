"""C13 Substitution replaces exactly the free occurrences of its keys.

Input: an expression skeleton (Boolean / numeric / object-valued sub-terms, nested fluent applications, one or two
quantifiers, shadowed and free occurrences of the same variable) and a substitution map of 1-2 (thorough: 3) entries;
every key is a choice among ALL sub-expressions of the skeleton plus a few expressions that do not occur in it (so
keys nested in other keys, compound keys, keys under quantifiers and keys containing bound variables all occur), every
value a choice from a typed pool that contains compatible and incompatible candidates, values that contain variables,
and - in the symbolic shards - integer constants that are solver variables (whether `n -> sigma` is compatible with
n:int[0,10], and whether f(sigma) is well-formed for f(i:int[0,5]), is decided by the solver).
Real code: FNode.substitute -> Substituter.substitute/_push_with_children_to_stack/walk_replace_or_identity,
IdentityDagWalker.walk_*, DagWalker.walk.
Oracles
 (i)   a reference substituter written from the property text (top-down, maximal occurrence first, nothing is replaced
       inside an inserted value, inside a quantifier no key with a free variable bound by it is replaced); the real
       result must be the identical node.  When the reference result cannot be built (it is ill-typed), the real call
       must fail with the same exception type.
 (ii)  for maps whose keys are leaves (variables, parameters, 0-ary fluents) and whose values cannot be captured: one
       solver query over all interpretations: result  !=  original under the interpretation updated by the map.
 (iii) a map with an incompatible pair (compatibility re-implemented from the documentation of Type.is_compatible)
       must raise UPTypeError; afterwards the expression table has the same size, and a follow-up substitution on the same
       environment answers like the reference.
"""
PROPERTY = "C13"
LEVEL = "model_checking"
FUNCTIONS = [
    "unified_planning.model.fnode:FNode.substitute",
    "unified_planning.model.walkers.substituter:Substituter.substitute",
    "unified_planning.model.walkers.substituter:Substituter._push_with_children_to_stack",
    "unified_planning.model.walkers.substituter:Substituter.walk_replace_or_identity",
    "unified_planning.model.walkers.identitydag:IdentityDagWalker.walk_and",
    "unified_planning.model.walkers.identitydag:IdentityDagWalker.walk_exists",
    "unified_planning.model.walkers.identitydag:IdentityDagWalker.walk_fluent_exp",
    "unified_planning.model.walkers.dag:DagWalker.walk",
    "unified_planning.model.walkers.dag:DagWalker.iter_walk",
    "unified_planning.model.variable:FreeVarsOracle.get_free_variables",
    "unified_planning.model.types:is_compatible_type",
]
BOUNDS = ("10 expression skeletons (<= 11 nodes, depth <= 5, <= 2 quantifiers, types T, S<T, bool, int[0,10], int[0,20], int[0,5] argument, real[0,10]); "
          "maps of 1-2 entries (thorough: 3), keys = any sub-expression of the skeleton or one of 3-4 foreign expressions, values from a pool of 6-9 "
          "typed candidates; symbolic shards: integer values are solver variables in [-3, 14]")
OUTSIDE = ("larger expressions and maps; values whose free variables are bound somewhere in the expression are excluded from the SEMANTIC oracle "
           "(variable capture is not addressed by the property's structural clause; the structural oracle still applies to them); "
           "symbolic constants below arithmetic nodes (the type checker compares their bounds with float('inf')); timing / Dot nodes")
ASSUMPTIONS = ["hash-consing tables keyed syntactically for symbolic constants (S2'): node sharing is not the subject; counterexamples are replayed with real tables",
               "the expected result is built with the public constructors in the same environment, so 'identical node' relies on hash-consing (C16)"]


# ------------------------------------------------------------------ world
class W:
    pass


def _world(env):
    from unified_planning.model import Fluent, Object, Parameter, Variable

    em, tm = env.expression_manager, env.type_manager
    w = W()
    w.env, w.em = env, em
    T = tm.UserType("T")
    S = tm.UserType("S", T)
    w.T, w.S = T, S
    w.objs = [Object("o1", T, env), Object("o2", S, env)]
    w.fb = Fluent("b", tm.BoolType(), environment=env)
    w.fc = Fluent("c", tm.BoolType(), environment=env)
    w.fp = Fluent("p", tm.BoolType(), environment=env, x=T)
    w.fq = Fluent("q", tm.BoolType(), environment=env, x=S)
    w.fw = Fluent("w", T, environment=env, x=T)
    w.fn = Fluent("n", tm.IntType(0, 10), environment=env)
    w.fm = Fluent("m", tm.IntType(0, 20), environment=env)
    w.fr = Fluent("r", tm.RealType(0, 10), environment=env)
    w.ff = Fluent("f", tm.BoolType(), environment=env, i=tm.IntType(0, 5))
    w.px = Parameter("x", T, env)
    w.pxs = Parameter("xs", S, env)
    w.pk = Parameter("k", tm.IntType(0, 10), env)
    w.vy = Variable("y", T, env)
    w.vz = Variable("z", S, env)
    E = em
    w.b, w.c = E.FluentExp(w.fb), E.FluentExp(w.fc)
    w.n, w.m, w.r = E.FluentExp(w.fn), E.FluentExp(w.fm), E.FluentExp(w.fr)
    w.x, w.xs, w.k = E.ParameterExp(w.px), E.ParameterExp(w.pxs), E.ParameterExp(w.pk)
    w.y, w.z = E.VariableExp(w.vy), E.VariableExp(w.vz)
    w.o1, w.o2 = E.ObjectExp(w.objs[0]), E.ObjectExp(w.objs[1])
    w.p = lambda a: E.FluentExp(w.fp, [a])  # noqa: E731
    w.q = lambda a: E.FluentExp(w.fq, [a])  # noqa: E731
    w.w_ = lambda a: E.FluentExp(w.fw, [a])  # noqa: E731
    w.f = lambda a: E.FluentExp(w.ff, [a])  # noqa: E731
    return w


def skeleton(w, i):
    """-> (expression, foreign keys, value pool names)"""
    E = w.em
    if i == 0:   # nested keys: x < w(x) < p(w(x)) < not p(w(x))
        return E.And(w.b, w.p(w.x), E.Not(w.p(w.w_(w.x)))), [w.y, w.o1, w.c], "obj"
    if i == 1:   # keys that contain the bound variable
        return E.Exists(E.And(w.p(w.y), E.Equals(w.w_(w.x), w.y)), w.vy), [w.o1, w.c], "obj"
    if i == 2:   # free and bound occurrence of the same variable
        return E.And(w.p(w.y), E.Exists(w.p(w.y), w.vy), w.b), [w.x], "obj"
    if i == 3:   # nested quantifiers
        return E.Forall(E.Or(w.p(w.y), E.Exists(E.And(w.q(w.z), E.Equals(w.w_(w.y), w.z)), w.vz)), w.vy), [w.x, w.p(w.x)], "obj"
    if i == 4:   # numeric, arithmetic key
        return E.And(E.LE(E.Plus(w.n, 1), w.m), w.f(w.n), E.LT(w.r, w.n)), [w.k, E.Int(2)], "num"
    if i == 5:   # two quantifiers over the same variable, closed quantified key
        return E.Or(E.Exists(w.p(w.y), w.vy), E.Forall(E.Implies(w.p(w.y), w.p(w.x)), w.vy)), [w.b, w.y], "obj"
    if i == 6:   # replaced compound key whose inside would become ill-typed
        return E.And(E.Not(w.f(w.k)), E.LE(w.k, w.n), w.b), [w.m], "num"
    if i == 7:   # two variables in one quantifier
        return E.Exists(E.And(E.Equals(w.y, w.z), w.p(w.y), w.b), w.vy, w.vz), [w.x, w.c], "obj"
    if i == 8:   # a closed key inside and outside a quantifier; compound key with a bound variable
        return E.And(E.Exists(E.And(w.p(w.y), w.b), w.vy), E.Iff(w.b, w.c)), [w.y, w.p(w.x)], "bool"
    if i == 9:   # symbolic-constant friendly: no arithmetic node above n / k
        return E.And(E.LE(w.n, w.m), w.f(w.n), E.Not(E.Equals(w.k, w.n)), E.Or(w.f(w.k), w.b)), [w.m], "sym"
    raise ValueError(i)


N_SKELETONS = 10


def value_pool(w, which, syms):
    """syms: None or the two solver variables of a symbolic shard"""
    E = w.em
    if which == "obj":
        return [w.o1, w.o2, w.x, w.xs, w.y, w.z, w.w_(w.x), w.b, E.TRUE()]
    if which == "bool":
        return [w.c, E.TRUE(), E.Not(w.b), w.p(w.x), w.p(w.y), E.Exists(w.q(w.z), w.vz), w.o1]
    if which == "num":
        return [E.Int(3), E.Int(8), E.Int(12), w.m, w.k, E.Plus(w.n, 2), w.r, E.Real(__import__("fractions").Fraction(1, 2)), w.b]
    if which == "sym":
        if syms is not None:
            return [E.Int(syms[0]), syms[1], w.m, w.k, w.b]
        return [E.Int(4), 8, w.m, w.k, E.Int(12), w.b]
    raise ValueError(which)


def subterms(e):
    out, seen = [], set()

    def go(x):
        if x.node_id in seen:
            return
        seen.add(x.node_id)
        out.append(x)
        for a in x.args:
            go(a)

    go(e)
    return out


# ------------------------------------------------------------------ reference
def type_compatible(tk, tv):
    """Type.is_compatible as documented: same type; user types: the value's type is the key's type or a descendant;
    numeric: int<-int, real<-int|real, and the two intervals overlap"""
    if tk is tv:
        return True
    if tk.is_bool_type() or tv.is_bool_type():
        return tk.is_bool_type() and tv.is_bool_type()
    if tk.is_user_type() or tv.is_user_type():
        if not (tk.is_user_type() and tv.is_user_type()):
            return False
        t = tv
        while t is not None:
            if t is tk:
                return True
            t = t.father
        return False
    if tk.is_int_type() and not tv.is_int_type():
        return False
    if not ((tk.is_int_type() or tk.is_real_type()) and (tv.is_int_type() or tv.is_real_type())):
        return False
    if tk.lower_bound is not None and tv.upper_bound is not None and tv.upper_bound < tk.lower_bound:
        return False
    if tk.upper_bound is not None and tv.lower_bound is not None and tv.lower_bound > tk.upper_bound:
        return False
    return True


def free_vars(e, memo=None):
    if e.is_variable_exp():
        return frozenset([e.variable()])
    s = frozenset()
    for a in e.args:
        s = s | free_vars(a)
    if e.is_exists() or e.is_forall():
        s = s - frozenset(e.variables())
    return s


def bound_vars(e):
    s = frozenset(e.variables()) if (e.is_exists() or e.is_forall()) else frozenset()
    for a in e.args:
        s = s | bound_vars(a)
    return s


def rebuild(em, e, kids):
    from unified_planning.model.operators import OperatorKind as K

    t = e.node_type
    if t == K.AND:
        return em.And(kids)
    if t == K.OR:
        return em.Or(kids)
    if t == K.NOT:
        return em.Not(kids[0])
    if t == K.IMPLIES:
        return em.Implies(kids[0], kids[1])
    if t == K.IFF:
        return em.Iff(kids[0], kids[1])
    if t == K.EQUALS:
        return em.Equals(kids[0], kids[1])
    if t == K.LE:
        return em.LE(kids[0], kids[1])
    if t == K.LT:
        return em.LT(kids[0], kids[1])
    if t == K.PLUS:
        return em.Plus(kids)
    if t == K.MINUS:
        return em.Minus(kids[0], kids[1])
    if t == K.TIMES:
        return em.Times(kids)
    if t == K.DIV:
        return em.Div(kids[0], kids[1])
    if t == K.FLUENT_EXP:
        return em.FluentExp(e.fluent(), kids)
    raise NotImplementedError(str(t))


def ref_subst(em, e, subs, bound=frozenset(), eager=False):
    """eager=True is NOT the documented semantics: it also rebuilds the inside of a replaced key (and throws the rebuilt
    expression away); only used to classify an unexpected UPTypeError of the real code"""
    v = subs.get(e)
    hit = v is not None and not (free_vars(e) & bound)
    if hit and not eager:
        return v                      # maximal occurrence, nothing is replaced inside the inserted value
    if e.is_exists() or e.is_forall():
        vs = e.variables()
        body = ref_subst(em, e.arg(0), subs, bound | frozenset(vs), eager)
        return v if hit else (em.Exists if e.is_exists() else em.Forall)(body, *vs)
    if not e.args:
        return v if hit else e
    kids = [ref_subst(em, a, subs, bound, eager) for a in e.args]
    return v if hit else rebuild(em, e, kids)


def skey(e):
    """structural key of an expression (names, not identities)"""
    pl = None
    if e.is_constant():
        pl = e.object().name if e.is_object_exp() else e.constant_value()
    elif e.is_fluent_exp():
        pl = e.fluent().name
    elif e.is_parameter_exp():
        pl = e.parameter().name
    elif e.is_variable_exp():
        pl = e.variable().name
    elif e.is_exists() or e.is_forall():
        pl = tuple(v.name for v in e.variables())
    return (e.node_type.name, pl, tuple(skey(a) for a in e.args))


def _is_leaf_key(k):
    return k.is_variable_exp() or k.is_parameter_exp() or (k.is_fluent_exp() and not k.args)


def semantic_violation(e, res, subs, objects):
    """z3 term: some interpretation where `res` differs from `e` under the interpretation updated by subs (keys are leaves)"""
    import z3
    from vf.exprsem import ExprSem
    from vf.refsem import _real

    I, J = ExprSem(objects), ExprSem(objects)   # same tag: the two share every z3 constant / function by name
    t_res = I.term(res)
    b = {}
    for k, v in subs.items():
        tv = I.term(v)
        kt = k.type
        if kt.is_real_type():
            tv = _real(tv)
        if k.is_parameter_exp():
            b[k.parameter().name] = tv
        elif k.is_variable_exp():
            b[k.variable().name] = tv
        else:
            J.leaves["fluent." + k.fluent().name] = (tv, kt)
    t_org = J.term(e, b)
    if t_res.sort() != t_org.sort():
        t_res, t_org = _real(t_res), _real(t_org)
    return t_res != t_org


# ------------------------------------------------------------------ harness
def _raw(node, flip):
    """leaf keys / values are sometimes passed as the model object or python literal itself (auto_promote)"""
    if not flip:
        return node
    if node.is_variable_exp():
        return node.variable()
    if node.is_parameter_exp():
        return node.parameter()
    if node.is_fluent_exp() and not node.args:
        return node.fluent()
    if node.is_object_exp():
        return node.object()
    if node.is_bool_constant():
        return node.constant_value()
    return node


def promote_one(em, v):
    (n,) = em.auto_promote(v)
    return n


def h_subst(ctx, sk, n_entries=2, sym=False, key0=None):
    from unified_planning.exceptions import UPTypeError

    def setup():
        env = ctx.fresh_env(hashcons="syntactic")
        with ctx.untraced():
            w = _world(env)
            e, foreign, which = skeleton(w, sk)
            keys = subterms(e)
            keys = keys + [k for k in foreign if all(k is not s for s in keys)]
        return env, w, e, keys, which

    env, w, e, keys, which = setup()
    em = env.expression_manager
    syms = (ctx.int("s0", -3, 14), ctx.int("s1", -3, 14)) if sym else None
    values = value_pool(w, which, syms)
    if key0 is not None:
        ctx.assume(key0 < len(keys))
    # the map (ordered: python dicts keep insertion order and the real code iterates it)
    picks = []
    for j in range(n_entries):
        ki = key0 if (j == 0 and key0 is not None) else ctx.choice(f"key{j}", len(keys))
        ctx.assume(all(ki != pk for pk, _ in picks))
        if sym:
            cands = list(range(len(values)))
        else:
            # every compatible candidate and the first two incompatible ones (most of the pool is incompatible with any given key)
            (vnodes) = [promote_one(em, v) for v in values]
            ok = [i for i, v in enumerate(vnodes) if type_compatible(keys[ki].type, v.type)]
            cands = ok + [i for i in range(len(values)) if i not in ok][:2]
        vi = cands[ctx.choice(f"val{j}", len(cands))]
        picks.append((ki, vi))

    def build_map(keys, values):
        raw, nodes = {}, {}
        for j, (ki, vi) in enumerate(picks):
            flip = (ki + vi + j) % 2 == 0
            k = keys[ki]
            v = values[vi]
            vn = promote_one(em, v)
            raw[_raw(k, flip)] = v if not hasattr(v, "node_type") else _raw(v, not flip and (ki + vi) % 3 == 0)
            nodes[k] = vn
        return raw, nodes

    raw_map, node_map = build_map(keys, values)
    ctx.check(len(raw_map) == len(node_map), "harness:map-size", "harness: raw and promoted maps differ in size")
    compatible = all(type_compatible(k.type, v.type) for k, v in node_map.items())
    table_size = len(em.expressions)
    before = skey(e)

    def call(e, m):
        try:
            return ("ok", e.substitute(m))
        except UPTypeError:
            return ("raise", "UPTypeError")
        except (ZeroDivisionError, AssertionError, KeyError) as ex:
            return ("raise", type(ex).__name__)

    if not compatible:
        out = call(e, raw_map)
        ctx.check(out == ("raise", "UPTypeError"), "incompatible:accepted",
                  f"a map with a type-incompatible pair was not rejected with UPTypeError: {out[0]} {out[1] if out[0] == 'raise' else ''}")
        ctx.check(len(em.expressions) == table_size, "incompatible:table-grew", "a rejected substitution created expressions")
        ctx.check(skey(e) == before, "incompatible:expression-changed", "the expression changed")
        # the environment still answers: the compatible part of the map (or the identity map) gives the reference result
        good = {k: v for k, v in node_map.items() if type_compatible(k.type, v.type)} or {keys[0]: keys[0]}
        try:
            want = ("ok", ref_subst(em, e, good))
        except UPTypeError:
            ctx.witness("rejected")
            return
        got = call(e, good)
        ctx.check(got[0] == "ok" and got[1] is want[1], "incompatible:follow-up", "after a rejected map, a valid substitution answers differently from the reference")
        ctx.witness("rejected")
        return
    # compatible map: reference first (same environment: identity of the result is part of the claim)
    try:
        want = ("ok", ref_subst(em, e, node_map))
    except UPTypeError:
        want = ("raise", "UPTypeError")
    except ZeroDivisionError:
        want = ("raise", "ZeroDivisionError")
    if want[0] == "raise":
        # the result is ill-typed; a failed construction leaves its node in the table (reported under C14), so the real call
        # runs in a second, identically built environment
        env, w, e, keys, which = setup()
        em = env.expression_manager
        values = value_pool(w, which, syms)
        raw_map, node_map = build_map(keys, values)
        got = call(e, raw_map)
        ctx.check(got == want, "illtyped-result:" + (got[1] if got[0] == "raise" else "returned"),
                  f"the substituted expression is ill-typed ({want[1]} when built) but substitute {'returned a node' if got[0] == 'ok' else 'raised ' + got[1]}")
        ctx.witness("ill-typed-result")
        return
    got = call(e, raw_map)
    if got[0] == "raise":
        why = ""
        if got[1] == "UPTypeError":
            # does the failure come from rebuilding the inside of a key that is replaced as a whole?  (third environment: a failed
            # construction leaves its node in the table)
            env3, w3, e3, keys3, _wh = setup()
            em = env3.expression_manager
            raw3, node3 = build_map(keys3, value_pool(w3, which, syms))
            try:
                ref_subst(em, e3, node3, eager=True)
            except UPTypeError:
                why = "-inside-replaced-key"
        ctx.fail("raises" + why + ":" + got[1], f"compatible map, the documented result is well-formed, but substitute raised {got[1]}"
                 + (" while rebuilding the inside of a key that is replaced as a whole" if why else ""))
    res = got[1]
    ctx.check(res is want[1], "result:differs" if skey(res) != skey(want[1]) else "result:not-identical",
              "substitute returned an expression other than the documented one (maximal occurrences of the keys, top-down, no key with a bound variable)")
    ctx.check(skey(e) == before, "expression-changed", "the substituted expression itself changed")
    ctx.witness("substituted" if res is not e else "unchanged")
    # semantic oracle
    if all(_is_leaf_key(k) for k in node_map):
        bv = bound_vars(e)
        if not any(free_vars(v) & bv for v in node_map.values()):
            objects = w.objs
            ctx.forall(lambda: (semantic_violation(e, res, node_map, objects), {}), None, "semantic",
                       "the result does not evaluate like the original under the interpretation updated by the map")
            ctx.witness("semantic")


def shards(tier, seed):
    out = []
    deep = tier != "quick"
    for sk in range(N_SKELETONS):
        if sk == 9:
            continue
        if deep:
            out.append(dict(name=f"sk{sk}-3", fn="h_subst", kwargs=dict(sk=sk, n_entries=3), budget=2700, engine="direct", query_timeout=30))
        out.append(dict(name=f"sk{sk}", fn="h_subst", kwargs=dict(sk=sk, n_entries=2), budget=300, engine="direct", query_timeout=30))
    out.append(dict(name="sk9-concrete", fn="h_subst", kwargs=dict(sk=9, n_entries=2), budget=300, engine="direct", query_timeout=30))
    # symbolic integer values: one shard per first key
    nkeys = 11
    for k0 in range(nkeys):
        out.append(dict(name=f"sk9-sym-key{k0}", fn="h_subst", kwargs=dict(sk=9, n_entries=3 if deep else 2, sym=True, key0=k0),
                        budget=900 if deep else 100, per_path=30))
    return out


MANIFEST = dict(
    engine="direct",
    technique="choice-exhaustive execution of the real Substituter over expression skeletons x substitution maps, compared with a reference substituter (identical node), "
              "a z3 query over all interpretations for leaf-keyed maps, and symbolic execution (CrossHair/z3) for integer values that are solver variables",
    text="Bounded model checking: every map of 1-2 entries whose keys range over all sub-expressions of 10 skeletons (nested keys, keys under quantifiers, keys containing bound variables, "
         "foreign keys) and whose values range over typed pools with compatible, incompatible and variable-carrying candidates. Integer values are solver variables in the symbolic shards, so "
         "'compatible' and 'result well-formed' are decided by the solver. The semantic clause is one z3 query per leaf-keyed map over all interpretations.",
    note="Trusted: the reference substituter and the compatibility predicate (written from the property text / docstrings), vf.exprsem, z3. "
         "Outside: capture of variables occurring in values (semantic oracle skipped), larger maps/expressions.",
)
