"""C17 Linearity and monotonicity analysis is sound.

Symbolic: the type bounds of every action PARAMETER, every integer constant and (in the fluent-bound shards) the type
bounds of the fluents are unbounded solver integers; the expression skeleton (<= 6 nodes over + - * /, n-ary + *), the
leaf kinds and which fluent / parameter sits in which slot are choice variables.
Real code: LinearChecker(problem).get_fluents(e) = LinearChecker.walk_* over Simplifier(problem).simplify(e), with the
TypeChecker supplying the types of the fluent-free factors.
Oracle, ONE solver query per path (vf.exprsem gives the value of e under an interpretation):
  reported linear and f in positive \\ negative  ==>  no interpretation of the other leaves within their declared types
  (divisors non-zero) and no v1 < v2 within f's type with e[f:=v1] > e[f:=v2]   (dually for negative \\ positive);
structural clause: if the simplified expression contains a product with two fluent-dependent factors or a quotient whose
divisor depends on a fluent, is_linear must be False.
"""
from fractions import Fraction

PROPERTY = "C17"
LEVEL = "model_checking"
FUNCTIONS = [
    "unified_planning.model.walkers.linear_checker:LinearChecker.__init__",
    "unified_planning.model.walkers.linear_checker:LinearChecker.get_fluents",
    "unified_planning.model.walkers.linear_checker:LinearChecker.walk_default",
    "unified_planning.model.walkers.linear_checker:LinearChecker.walk_times",
    "unified_planning.model.walkers.linear_checker:LinearChecker.walk_div",
    "unified_planning.model.walkers.linear_checker:LinearChecker.walk_minus",
    "unified_planning.model.walkers.linear_checker:LinearChecker.walk_fluent_exp",
    "unified_planning.model.walkers.simplifier:Simplifier.simplify",
    "unified_planning.model.walkers.type_checker:TypeChecker.get_type",
    "unified_planning.model.problem:Problem.get_static_fluents",
]
BOUNDS = ("numeric expression trees of <= 5 nodes (quick) / <= 6 nodes (thorough): binary + - * /, n-ary + * with 3 operands; "
          "leaves: two non-static int fluents F0, F1 (type int[-4,6] / int[-7,-2], or symbolic two-sided bounds in the "
          "fluent-bound shards; the same fluent may occur twice), two action parameters P0, P1 of type int[s, s'] with "
          "UNBOUNDED symbolic s <= s', integer constants (unbounded symbolic), static fluents with a symbolic initial value, "
          "a static fluent without initial value, a real-typed parameter real[s, s'] (thorough)")
OUTSIDE = ("larger trees; fluents with arguments; real constants with symbolic denominators; a quotient of two constants "
           "(folded by the simplifier with float division: C11's subject); unbounded fluent / parameter types")
ASSUMPTIONS = [
    "the value of an expression under an interpretation is vf.exprsem.ExprSem (exact integer / rational arithmetic, x/0 undefined)",
    "monotonicity is judged on the ORIGINAL expression e (the analysis runs on simplify(e); the simplifier's own "
    "equivalence is C11's subject)",
    "CrossHair's float model is pinned to its real-based one (the type checker mixes +-inf with integer bounds and divides "
    "int bounds by int constants; under this model int / int is the exact quotient); counterexamples are replayed "
    "without any model",
    "the module global `math` of type_checker.py is wrapped so that math.isnan(<int or Fraction>) is False without conversion",
    "hash-consing tables keyed syntactically (S2')",
    "an expression on which get_fluents raises ZeroDivisionError is outside the claim iff the solver shows that it has no value in any "
    "state (a divisor that is identically 0 once static fluents are replaced by their values)",
    "a constant divisor is a concrete integer from the pool -3, -1, 2, 5 and in an expression with a division no parameter is point-typed "
    "(exact Fraction division of the type bounds by a SYMBOLIC integer loops in gcd under CrossHair); divisor sub-expressions "
    "built from parameters and constants are unrestricted; a divisor of point type 0 is not well-formed (ZeroDivisionError "
    "in the type checker) and pruned",
]

SHAPES = {
    "leaf": "L",
    "bin": ["o", "L", "L"],
    "nary3": ["n", "L", "L", "L"],
    "left": ["o", ["o", "L", "L"], "L"],
    "right": ["o", "L", ["o", "L", "L"]],
    "nary-in-bin": ["o", ["n", "L", "L", "L"], "L"],
    "bin-in-nary": ["n", ["o", "L", "L"], "L", "L"],
    "bin-bin": ["o", ["o", "L", "L"], ["o", "L", "L"]],  # 7 nodes
}
LEAF_KINDS = ["F0", "F1", "P0", "P1", "C", "Cd", "S", "U", "R"]
DIVISORS = [-3, -1, 2, 5]   # concrete constants (kind Cd): exact Fraction division by a SYMBOLIC integer loops in gcd under CrossHair


def _walk_tags(s):
    if s == "L":
        return
    yield s[0]
    for c in s[1:]:
        yield from _walk_tags(c)


def _n_leaves(s):
    return 1 if s == "L" else sum(_n_leaves(c) for c in s[1:])


class _World:
    pass


def _world(ctx, kinds, sym_fluent_bounds=False):
    """Problem with the fluents / parameters the leaf kinds need.  Returns handles; leaves are made by _leaf."""
    import unified_planning as up
    from unified_planning.model import Fluent, InstantaneousAction, Problem

    from vf.props.c15 import _pin_engine

    _pin_engine(ctx)
    env = ctx.fresh_env(hashcons="syntactic")
    em, tm = env.expression_manager, env.type_manager
    w = _World()
    w.env, w.em, w.tm = env, em, tm
    w.consts = {}
    ks = set(kinds)
    # types
    ftypes = {}
    for j, name in enumerate(("F0", "F1")):
        if name in ks:
            if sym_fluent_bounds:
                lo, hi = ctx.int(f"{name}.lo"), ctx.int(f"{name}.hi")
                ctx.assume(lo <= hi)
            else:
                lo, hi = ((-4, 6), (-7, -2))[j]
            ftypes[name] = tm.IntType(lo, hi)
    ptypes = {}
    for name in ("P0", "P1"):
        if name in ks:
            lo, hi = ctx.int(f"{name}.lo"), ctx.int(f"{name}.hi")
            ctx.assume(lo <= hi)
            ptypes[name] = tm.IntType(lo, hi)
    if "R" in ks:
        lo, hi = ctx.int("R.lo"), ctx.int("R.hi")
        ctx.assume(lo <= hi)
        ptypes["R"] = tm.RealType(Fraction(lo), Fraction(hi))
    s_val = ctx.int("S.val") if "S" in ks else None
    with ctx.untraced():
        prob = Problem("p", env)
        w.fl = {}
        for name, t in ftypes.items():
            w.fl[name] = Fluent(name.lower(), t, environment=env)
            prob.add_fluent(w.fl[name])
        if "S" in ks:
            w.fl["S"] = Fluent("s", tm.IntType(), environment=env)
            prob.add_fluent(w.fl["S"])
        if "U" in ks:
            w.fl["U"] = Fluent("u", tm.IntType(-5, -1), environment=env)   # static, no initial value
            prob.add_fluent(w.fl["U"])
        act = InstantaneousAction("a", _env=env, **{n.lower(): t for n, t in ptypes.items()})
        w.par = {n: act.parameter(n.lower()) for n in ptypes}
    w.param_types = list(ptypes.values()) + (list(ftypes.values()) if sym_fluent_bounds else [])
    # an effect makes F0 / F1 non-static (f := f in a second action: type-compatible whatever the bounds are)
    with ctx.untraced():
        act2 = InstantaneousAction("b", _env=env)
    for name in ("F0", "F1"):
        if name in w.fl:
            act2.add_effect(em.FluentExp(w.fl[name]), em.FluentExp(w.fl[name]))
    prob.add_action(act)
    prob.add_action(act2)
    w.static_value = {}
    if "S" in ks:
        prob.set_initial_value(em.FluentExp(w.fl["S"]), em.Int(s_val))
        w.static_value["fluent.s"] = s_val  # a static fluent IS its initial value in every reachable state
    w.problem, w.action = prob, act
    return w


def _leaf(ctx, w, i, kind):
    em = w.em
    if kind in ("F0", "F1", "S", "U"):
        return em.FluentExp(w.fl[kind])
    if kind in ("P0", "P1", "R"):
        return em.ParameterExp(w.par[kind])
    if kind == "C":
        c = ctx.int(f"c{i}")
        w.consts[i] = c
        return em.Int(c)
    if kind == "Cd":
        return em.Int(DIVISORS[ctx.choice(f"cd{i}", len(DIVISORS))])
    raise ValueError(kind)


def _constant_like(kind):
    return kind in ("C", "S", "Cd")


def _build(ctx, w, shape, leaves, kinds_it, ops, text):
    """-> (FNode, is_constant_subtree)"""
    em = w.em
    if shape == "L":
        e, k = next(leaves), next(kinds_it)
        text.append(k)
        return e, _constant_like(k), k
    op = next(ops)
    text.append("(" + op + " ")
    subs = []
    for s in shape[1:]:
        subs.append(_build(ctx, w, s, leaves, kinds_it, ops, text))
        text.append(" ")
    text.append(")")
    args = [s[0] for s in subs]
    if op == "/":
        # constant / constant is folded by the simplifier (C11's subject); a constant divisor is the concrete leaf Cd
        # (division of the bounds by a symbolic integer loops in Fraction's gcd); a parameter divisor is not point-typed
        ctx.assume(not (subs[0][1] and subs[1][1]))
        ctx.assume(not subs[1][1] or subs[1][2] == "Cd")
        for pt in w.param_types:  # no point-typed parameter next to a division (see ASSUMPTIONS)
            ctx.assume(pt.lower_bound < pt.upper_bound)
    mk = {"+": em.Plus, "-": em.Minus, "*": em.Times, "/": em.Div}[op]
    e = mk(*args) if shape[0] == "n" else mk(args[0], args[1])
    return e, all(s[1] for s in subs), None


def _fluent_dependent(e, static_free):
    """does the (simplified) expression contain a fluent expression?"""
    if e.is_fluent_exp():
        return True
    return any(_fluent_dependent(a, static_free) for a in e.args)


def _structural_nonlinear(e):
    """product with two fluent-dependent factors / quotient with fluent-dependent divisor somewhere in e"""
    if e.is_times() and sum(1 for a in e.args if _fluent_dependent(a, None)) >= 2:
        return "product-of-two-fluent-dependent-factors"
    if e.is_div() and _fluent_dependent(e.arg(1), None):
        return "fluent-dependent-divisor"
    for a in e.args:
        r = _structural_nonlinear(a)
        if r:
            return r
    return None


def _has_nonconstant_divisor(e):
    if e.is_div() and not e.arg(1).is_constant():
        return True
    return any(_has_nonconstant_divisor(a) for a in e.args)


def _mono_violation(e, fexp, increasing, pins):
    """z3: exists an interpretation within the declared types (divisors non-zero in both evaluations) and v1 < v2 within
    the type of the fluent with e[f:=v1] > e[f:=v2] (increasing claimed) / e[f:=v1] < e[f:=v2] (decreasing claimed)."""
    import z3

    from vf.exprsem import ExprSem
    from vf.refsem import _real

    I = ExprSem()
    t1 = I.term(e)
    name = "fluent." + fexp.fluent().name
    if name not in I.leaves:
        return False, {}
    f1, ftype = I.leaves[name]
    f2 = z3.Const("v2." + name, f1.sort())
    sub = lambda t: z3.substitute(t, (f1, f2))  # noqa: E731
    t2 = sub(t1)
    from vf.refsem import znum

    dom, dfn = I.domain(), I.defined()
    for leaf, val in pins.items():
        if leaf in I.leaves:
            dom = z3.And(dom, I.leaves[leaf][0] == znum(val))
    cond = z3.And(dom, dfn, sub(dfn), I.in_type(f2, ftype), f1 < f2,
                  (_real(t1) > _real(t2)) if increasing else (_real(t1) < _real(t2)))
    qv = {n: x for n, (x, _t) in I.leaves.items()}
    qv["v2." + name] = f2
    return cond, qv


def _defined_somewhere(e, pins):
    """z3: an interpretation within the declared types (static fluents pinned) under which e has a value"""
    import z3

    from vf.exprsem import ExprSem
    from vf.refsem import znum

    I = ExprSem()
    I.term(e)
    cond = z3.And(I.domain(), I.defined())
    for leaf, val in pins.items():
        if leaf in I.leaves:
            cond = z3.And(cond, I.leaves[leaf][0] == znum(val))
    return cond, {n: x for n, (x, _t) in I.leaves.items()}


def h_linear(ctx, shape, combos=None, kinds=None, op_lists=None, ops=None, sym_fluent_bounds=False):
    from unified_planning.exceptions import UPTypeError
    from unified_planning.model.walkers import LinearChecker, Simplifier

    sh = SHAPES[shape]
    n = _n_leaves(sh)
    if combos is not None:
        ks = list(combos[ctx.choice("combo", len(combos))])
    else:
        ks = [kinds[ctx.choice(f"kind{i}", len(kinds))] for i in range(n)]
    tags = list(_walk_tags(sh))
    if op_lists is not None:
        opl = list(op_lists[ctx.choice("ops", len(op_lists))])
    else:
        opl = []
        for i, tag in enumerate(tags):
            cand = [o for o in ops if o in "+*"] if tag == "n" else list(ops)
            opl.append(cand[ctx.choice(f"op{i}", len(cand))])
    ctx.assume(any(k in ("F0", "F1") for k in ks))  # without a fluent there is nothing to be monotone in
    w = _world(ctx, ks, sym_fluent_bounds=sym_fluent_bounds)
    leaves = [_leaf(ctx, w, i, k) for i, k in enumerate(ks)]
    text = []
    try:
        e, _c, _k = _build(ctx, w, sh, iter(leaves), iter(ks), iter(opl), text)
    except ZeroDivisionError:
        ctx.assume(False)  # divisor of point type 0: rejected by the type checker
    except UPTypeError:
        ctx.assume(False)
    skel = "".join(text)
    ctx.note("skeleton", skel)
    checker = LinearChecker(w.problem)
    try:
        res = checker.get_fluents(e)
    except ZeroDivisionError:
        # get_fluents simplifies with the problem's static values first; a divisor such as f * s with the static fluent s == 0, or
        # f * 0 over an unbounded f, is identically 0 and the simplifier refuses the division.  That is outside the claim exactly
        # when the expression has no value in ANY state -- decided by the solver; a ZeroDivisionError on an expression that has a
        # value somewhere is reported
        ctx.forall(lambda: _defined_somewhere(e, w.static_value), None, "crash:zero-division-on-defined-expression",
                   f"{skel}: get_fluents raises ZeroDivisionError although the expression has a value in some state")
        ctx.witness("undefined-everywhere")
        return
    ctx.check(isinstance(res, tuple) and len(res) == 3, "result-shape", f"get_fluents returned {type(res).__name__}")
    is_linear, pos, neg = res
    ctx.check(isinstance(is_linear, bool), "result-shape", "is_linear is not a bool")
    simp = Simplifier(w.env, w.problem).simplify(e)
    why = _structural_nonlinear(simp)
    if why is not None:
        ctx.witness("structural")
        ctx.check(not is_linear, f"structural:{why}", f"{skel}: simplified to an expression with a {why.replace('-', ' ')} "
                  f"but reported as linear")
    if not is_linear:
        ctx.witness("nonlinear")  # nothing is claimed about the fluent sets of a non-linear expression
        return
    for fe in sorted(set(pos) | set(neg), key=lambda x: x.fluent().name):
        ctx.check(fe.is_fluent_exp(), "result-shape", "a reported fluent is not a fluent expression")
        only_pos, only_neg = fe in pos and fe not in neg, fe in neg and fe not in pos
        if not (only_pos or only_neg):
            ctx.witness("both-signs")
            continue
        cause = "nonconstant-divisor" if _has_nonconstant_divisor(simp) else "other"
        ctx.witness("monotone-claim")
        if ("fluent." + fe.fluent().name) in w.static_value:
            continue  # a static fluent with a value cannot vary
        ctx.forall(lambda fe=fe, only_pos=only_pos: _mono_violation(e, fe, only_pos, w.static_value), None,
                   f"monotonicity:{'positive' if only_pos else 'negative'}:{cause}",
                   f"{skel}: reported linear with {fe.fluent().name} only among the {'positive' if only_pos else 'negative'} "
                   f"fluents, but the value is not {'non-decreasing' if only_pos else 'non-increasing'} in it")
    if not (set(pos) | set(neg)):
        ctx.witness("linear-no-fluents")


# ---------------------------------------------------------------------------------------------------------------
def _combos(n, kinds, must=("F0",)):
    import itertools

    out = []
    for ks in itertools.product(kinds, repeat=n):
        if not any(k in ("F0", "F1") for k in ks):
            continue
        out.append(list(ks))
    return out


NM = {"+": "plus", "-": "minus", "*": "times", "/": "div"}


def shards(tier, seed):
    out = []
    quick = tier == "quick"
    B, PP = (150, 20) if quick else (900, 40)

    def sh(name, shape, combos, op_lists, **kw):
        out.append(dict(name=name, fn="h_linear", kwargs=dict(shape=shape, combos=combos, op_lists=op_lists, **kw), budget=B, per_path=PP))

    ALL = ["F0", "F1", "P0", "P1", "C", "Cd", "S", "U"]
    Q = ["F0", "F1", "P0", "C", "Cd"]
    PAIRS = [[a, b] for a in "+-*/" for b in "+-*/"]   # [top, inner] (pre-order)
    # every 3-node tree over every leaf-kind combination (both tiers)
    for o in "+-*/":
        sh(f"bin-{NM[o]}", "bin", _combos(2, ALL), [[o]])
    sh("bin-real-param", "bin", [["F0", "R"], ["R", "F0"], ["F1", "R"]], [[o] for o in "+-*/"])
    sh("bin-symbolic-fluent-bounds", "bin", _combos(2, ["F0", "F1", "P0", "Cd"] + ([] if quick else ["C"])), [[o] for o in "+-*/"], sym_fluent_bounds=True)
    if quick:
        # one fluent in every position next to parameters / concrete constants; two fluent occurrences; a symbolic constant
        one = [list(c) for c in _combos(3, ["F0", "P0", "Cd"]) if c.count("F0") == 1]
        Q3 = one + [["F0", "F0", "P0"], ["F0", "P0", "F0"], ["F0", "F1", "P0"], ["F0", "P0", "F1"], ["F0", "C", "P0"]]
        for shape in ("left", "right"):
            for top in "+-*/":
                sh(f"{shape}-top-{NM[top]}-inner-plus-minus", shape, Q3, [p for p in PAIRS if p[0] == top and p[1] in "+-"])
                sh(f"{shape}-top-{NM[top]}-inner-times-div", shape, Q3, [p for p in PAIRS if p[0] == top and p[1] in "*/"])
        sh("nary3-plus", "nary3", Q3 + [["F0", "S", "P0"], ["S", "F0", "F1"]], [["+"]])
        sh("nary3-times", "nary3", Q3 + [["F0", "S", "P0"], ["S", "F0", "F1"]], [["*"]])
    else:
        for shape in ("left", "right"):
            for p in PAIRS:
                sh(f"{shape}-{NM[p[0]]}-{NM[p[1]]}", shape, _combos(3, ALL), [p])
            sh(f"{shape}-symbolic-fluent-bounds", shape, _combos(3, ["F0", "P0", "C", "Cd"]), PAIRS, sym_fluent_bounds=True)
            sh(f"{shape}-real-param", shape, [c for c in _combos(3, ["F0", "R", "P0", "Cd"]) if "R" in c], PAIRS)
        sh("nary3-plus", "nary3", _combos(3, ALL), [["+"]])
        sh("nary3-times", "nary3", _combos(3, ALL), [["*"]])
        for top in "+-*/":
            six = _combos(4, ["F0", "P0", "Cd"]) + [["F0", "C", "P0", "Cd"], ["C", "F0", "P0", "P0"], ["P0", "C", "F0", "F0"]]
            sh(f"nary-in-bin-{NM[top]}", "nary-in-bin", six, [[top, "+"], [top, "*"]])
            sh(f"bin-in-nary-{NM[top]}", "bin-in-nary", six, [["+", top], ["*", top]])
            sh(f"bin-bin-{NM[top]}", "bin-bin", _combos(4, ["F0", "F1", "P0", "Cd"]), [[top, a, b] for a in "+-*/" for b in "+-*/"])
    return out


MANIFEST = dict(
    engine="symex",
    technique="symbolic execution (CrossHair/z3) of the real LinearChecker (over the real Simplifier and TypeChecker) on numeric skeletons whose parameter "
              "type bounds and constants are solver variables; one SMT query per path for a pair of fluent values violating the reported monotonicity (z3 NRA)",
    text="Bounded model checking: for every expression tree within the bounds and EVERY integer value of the parameter bounds and constants, a fluent reported "
         "only-positive (only-negative) by a 'linear' verdict makes the expression non-decreasing (non-increasing) for all values of the other leaves within "
         "their types; products of two fluent-dependent factors and fluent-dependent divisors are never reported linear.",
    note="Trusted: ExprSem as the meaning of + - * /, CrossHair's int model, z3 NRA (unknown counted). Shims as in C15 (float model pinned to reals, math.isnan shortcut). "
         "Outside: trees > 6 nodes, fluents with arguments, unbounded types.",
)
