"""C19 ANML write/read round trip preserves problem semantics.

Translation validation, same scheme as C18 (vf/tvio.py).  Programs: the parametrised skeleton family in its ANML
fragment (typed objects with a two-level hierarchy; Boolean, int / real fluents WITH type bounds, an object-valued
fluent; quantified and nested conditions; conditional and universally quantified effects; state invariants) with
identifiers from adversarial naming schemes (upper case, ANML keywords, leading digits, leading symbols, names that
collide after sanitisation) and numeric leaves from {0, 1, -3, 5/2, 1/8, 10^9+1, 3/10}; plus four temporal programs
(fixed / interval / fluent-dependent durations, conditions over point and durative intervals with delays,
intermediate effects, conditional and universally quantified timed effects, timed goals, timed initial effects).
The REAL ANMLWriter(problem).get_problem() writes, the REAL ANMLReader(env).parse_problem_string() reads back.
rho: ANMLWriter exposes no lookup (its name map is a local variable of _write_problem), so rho is built
POSITIONALLY: the i-th type / fluent / action of the re-read problem is the image of the i-th of the original
(declaration order, which the writer follows), objects in the writer's emission order (by type, then declaration),
parameters by position.  A name collision or a dropped declaration shows as a count / signature mismatch.
Solver's part: as C18 -- concrete equality of objects, signatures (incl. numeric bounds) and initial state under rho,
one-step bisimulation over all states reachable within k steps by BMC over R on shared state terms, and for temporal
programs a slot-wise SEMANTIC comparison (durations as expressions; for every time interval that carries conditions
in either problem the conjunction of its conditions; for every time point that carries effects the transition it
denotes from an arbitrary state; timed goals and timed effects likewise).
State invariants are written as '[ all ] e;' and re-read as a timed goal over [start, end] of the plan: the harness
reads such a timed goal of P' as a state invariant (same meaning for sequential plans) and says so.
"""
import warnings

from vf import tvio

PROPERTY = "C19"
LEVEL = "translation_validation"
FUNCTIONS = [
    "unified_planning.io.anml_writer:ANMLWriter._write_problem",
    "unified_planning.io.anml_writer:ANMLWriter._convert_effect",
    "unified_planning.io.anml_writer:ANMLWriter._convert_anml_timing",
    "unified_planning.io.anml_writer:ANMLWriter._convert_anml_interval",
    "unified_planning.io.anml_writer:ConverterToANMLString.convert",
    "unified_planning.io.anml_writer:_get_anml_name",
    "unified_planning.io.anml_writer:_get_anml_valid_name",
    "unified_planning.io.anml_writer:_is_valid_anml_name",
    "unified_planning.io.anml_reader:ANMLReader.parse_problem_string",
    "unified_planning.io.anml_reader:ANMLReader._parse_problem",
    "unified_planning.io.anml_reader:ANMLReader._parse_action",
    "unified_planning.io.anml_reader:ANMLReader._populate_parsed_action_body",
    "unified_planning.io.anml_reader:ANMLReader._parse_assignment",
    "unified_planning.io.anml_reader:ANMLReader._parse_expression",
    "unified_planning.io.anml_reader:ANMLReader._parse_interval",
    "unified_planning.io.anml_reader:ANMLReader._parse_timing",
    "unified_planning.io.anml_reader:ANMLReader._parse_type_reference",
    "unified_planning.io.anml_reader:ANMLReader._add_goal_or_effect_to_problem",
    "unified_planning.io.anml_grammar:ANMLGrammar.__init__",
]
BOUNDS = ("skeleton family of vf/tvio.py in its ANML fragment: types T, S<T; 2-3 objects; fluents b, p(T), n, u (int or real; n "
          "unbounded / bounded on one or both sides), optional object-valued w(T):T; 1-2 instantaneous actions with one object "
          "parameter and <= 3 effects (21 effect templates), conditions from 22 templates, optional state invariants; 7 naming "
          "schemes; numeric leaves from {0,1,-3,5/2,1/8,10^9+1,3/10} (thorough + {-7/4,1/1024,10^10+1,2}); 4 Boolean initial "
          "patterns; bisimulation depth k = 2 (quick) / 3 (thorough); 4 temporal programs x naming schemes x constants")
OUTSIDE = ("numeric literals are NOT symbolic (number -> text -> number realises under CrossHair): the constants are the stated pool; "
           "identifiers outside the schemes; identifiers with an INNER symbol or space in the general shards (ANMLWriter emits them "
           "verbatim: recorded finding of C38, shown again by the shard names-inner); quality metrics (ANML has none: the writer drops "
           "them); temporal semantics proper (temporal programs are compared slot-wise, semantically per slot, not by temporal model "
           "checking); multi-agent / hierarchical problems; states deeper than k")
ASSUMPTIONS = [
    "engine 'direct': writer and reader run concretely per program; the solver decides the property of their output",
    "rho is positional (the writer exposes no lookup): declaration order of types, fluents, actions; emission order of objects",
    "a timed goal over the closed interval [start, end] of the whole plan in the re-read problem is read as a state invariant",
    "while the reader runs, unified_planning.environment.GLOBAL_ENVIRONMENT points at the path's fresh environment: ANMLReader "
    "creates fluents, objects, actions and variables without passing its environment on (recorded finding, shard env-reader)",
    "R (vf/refsem.py) encodes both problems; it is pinned to the real simulator by C01/C02",
]

SCHEME_IDS = ["plain", "upper", "akw", "pkw", "digit", "lsym", "acollide"]
POOLS = dict(quick=tvio.CONST_POOL_DEC, thorough=tvio.CONST_POOL_THOROUGH)


def _int_pool(pool):
    return [v for v in pool if isinstance(v, int)]


def _write(P):
    from unified_planning.io import ANMLWriter

    return ANMLWriter(P).get_problem()


def _read(ctx, env, text):
    from pyparsing import ParseBaseException
    from unified_planning.exceptions import UPException
    from unified_planning.io import ANMLReader

    try:
        with tvio.global_env(env), warnings.catch_warnings():
            warnings.simplefilter("ignore")
            return ANMLReader(env).parse_problem_string(text, "reread")
    except (ParseBaseException, SyntaxError, UPException, NotImplementedError) as e:
        loc, kind = "", type(e).__name__
        if isinstance(e, ParseBaseException):
            import re
            loc = f" at line {e.lineno} col {e.col}: {e.line!r}"
            lines = text.splitlines()
            around = " ".join(lines[max(0, e.lineno - 2):e.lineno])
            if re.match(r"\s*(fluent|constant) (integer|float) [\[(]", e.line):
                kind = "numeric-type-bound"
            elif "when (" in around:
                kind = "when-parenthesised-condition"
            elif re.match(r"\s*(type|instance|fluent|constant|action) ", e.line) and not all(re.fullmatch(r"[A-Za-z_][A-Za-z0-9_]*", w) for w in re.split(r"[\s(),;<{:\"]+", e.line) if w and not w[0].isdigit()):
                kind = "invalid-identifier"
        ctx.fail(f"rejected:{kind}", f"ANMLReader rejects the text ANMLWriter produced: {type(e).__name__}: {str(e)[:300]}{loc}\n{text}")


def _writer_object_order(P):
    out = []
    for t in P.user_types:
        out.extend(o for o in P.objects(t) if o.type == t)
    return out


def _rho(ctx, P, P2, text):
    ok = (len(P.user_types) == len(P2.user_types) and len(P.fluents) == len(P2.fluents) and len(P.actions) == len(P2.actions)
          and len(P.all_objects) == len(P2.all_objects))
    ctx.check(ok, "declarations-lost", f"the re-read problem has {len(P2.user_types)} types / {len(P2.fluents)} fluents / {len(P2.actions)} actions / "
              f"{len(P2.all_objects)} objects, the original {len(P.user_types)} / {len(P.fluents)} / {len(P.actions)} / {len(P.all_objects)}\n{text}")
    # types: the reader sorts the hierarchy topologically; match by position within the same depth-first structure:
    # declaration order is kept for independent types in practice; fall back to matching by the object lists if not
    t1, t2 = list(P.user_types), list(P2.user_types)
    # the writer declares static fluents as 'constant'; the reader adds all constants first, then the fluents
    static = P.get_static_fluents()
    f1 = [f for f in P.fluents if f in static] + [f for f in P.fluents if f not in static]
    return tvio.Rho({a.name: b.name for a, b in zip(t1, t2)},
                    {a.name: b.name for a, b in zip(_writer_object_order(P), P2.all_objects)},
                    {a.name: b.name for a, b in zip(f1, P2.fluents)},
                    {a.name: b.name for a, b in zip(P.actions, P2.actions)})


def _invariants_of(P2):
    """timed goals of P' over [start, end] of the plan (both closed, no delay) = the written state invariants"""
    inv, other = [], {}
    for iv, gl in P2.timed_goals.items():
        lo, up = iv.lower, iv.upper
        if (lo.is_global() and up.is_global() and lo.is_from_start() and up.is_from_end() and lo.delay == 0 and up.delay == 0
                and not iv.is_left_open() and not iv.is_right_open()):
            inv.extend(gl)
        else:
            other[iv] = gl
    return inv, other


def _refs(P, P2, rho, inv2):
    import z3
    from vf.refsem import Ref

    R = Ref(P)
    R2 = tvio.aligned_ref(R, P2, rho)
    if inv2:
        base = R2.invariants_ok
        R2.invariants_ok = lambda s: z3.And(base(s), *[R2.holds(g, s) for g in inv2])
    return R, R2


def h_rt(ctx, sk, k, pool, rows, schemes=None):
    schemes = schemes or SCHEME_IDS
    pl = POOLS[pool]
    ni = ctx.choice("names", len(schemes))
    ii = ctx.choice("init", len(tvio.INIT_PATTERNS))
    cv = ctx.choice("consts", len(pl))
    tie = ctx.choice("tie", 2)
    if rows is not None:
        ctx.assume([ni, ii, cv, tie] in rows)
    env = ctx.fresh_env()
    vals = tvio.leaf_values(cv, pl, _int_pool(pl) if sk.get("ntype", "int") == "int" else None, tie=bool(tie))
    if sk.get("n_bounds", "none") != "none":
        # lower bound 0 in the general shards (a NEGATIVE bound is a recorded finding: the grammar has no signed number in a
        # type; shard bounds-neg); an initial value below the bound is kept (both sides must then reject the initial state)
        lb = sk.get("lb", 0)
        if lb >= 0:
            vals = {k_: (abs(v) if k_ in ("x0", "d", "c1", "c2", "d2", "u0") else v) for k_, v in vals.items()}
        vals = dict(vals, lb=lb, ub=max(10 ** 9 + 2, vals["x0"]) if sk.get("wide") else max(7, vals["x0"]))
    g = tvio.build(ctx, env, sk, tvio.SCHEMES[schemes[ni]], vals, tvio.INIT_PATTERNS[ii])
    P = g.problem
    ctx.note("program", dict(skeleton=tvio.describe(sk), names=schemes[ni], consts={k_: str(v) for k_, v in vals.items()}))
    text = _write(P)
    P2 = _read(ctx, env, text)
    rho = _rho(ctx, P, P2, text)
    tvio.compare_static(ctx, P, P2, rho)
    inv2, other = _invariants_of(P2)
    ctx.check(len(inv2) == len(P.state_invariants) and not other and not P2.state_invariants, "invariants-lost",
              f"state invariants {P.state_invariants} re-read as invariants {P2.state_invariants} / timed goals {dict(P2.timed_goals)}\n{text}")
    box = {}

    def RR():
        if "R" not in box:
            box["R"], box["R2"] = _refs(P, P2, rho, inv2)
        return box["R"], box["R2"]

    def build():
        R, R2 = RR()
        viol, info = tvio.bisim(R, R2, rho, k)
        return viol, {f"act{i}": c for i, c in enumerate(info["choice"])}

    ctx.forall(build, None, "bisimulation",
               f"some state reachable within {k} steps has a ground action whose applicability or successor (or the goal verdict) differs "
               f"between the problem and its re-read copy\n{text}")

    def init_ok():
        import z3
        R, R2 = RR()
        s0 = R.init_state()
        s2 = tvio.map_state(R, R2, rho, s0)
        return z3.And(R.bounds_ok(s0), R.invariants_ok(s0)) != z3.And(R2.bounds_ok(s2), R2.invariants_ok(s2)), {}

    ctx.forall(init_ok, None, "initial-state-admissibility", "bounds/invariants judge the initial state differently after the round trip\n" + text)
    ctx.witness("program")


# ---------------------------------------------------------------------------------------------------------------
# temporal programs
# ---------------------------------------------------------------------------------------------------------------
def _temporal(ctx, env, nm, vals, variant):
    from unified_planning.model import (ClosedTimeInterval, DurativeAction, EndTiming, GlobalEndTiming, GlobalStartTiming,
                                        LeftOpenTimeInterval, OpenTimeInterval, RightOpenTimeInterval, StartTiming, Variable)

    sk = dict(effs=None, goal=[0, 2], ntype="real", obj_fluent=(variant == 3), n_bounds="both" if variant == 1 else "none")
    vals = dict(vals, lb=0, ub=10 ** 9 + 2)
    g = tvio.build(ctx, env, sk, nm, vals, tvio.INIT_PATTERNS[variant % 4])
    em, P = g.em, g.problem
    F = em.FluentExp
    C = lambda name: tvio._num(em, vals[name])  # noqa: E731
    da = DurativeAction(nm["a"], _parameters=tvio._odict(nm["x"], g.T), _env=env)
    x = em.ParameterExp(da.parameter(nm["x"]))
    t1, t2 = abs(vals["t1"]) + 1, abs(vals["t2"]) + 2
    dur_lo, dur_hi = sorted([t1, t2])
    y = Variable(nm["y"], g.T, env)
    ye = em.VariableExp(y)
    if variant == 0:
        da.set_fixed_duration(tvio._num(em, dur_lo))
        da.add_condition(StartTiming(), F(g.p, [x]))
        da.add_condition(ClosedTimeInterval(StartTiming(), EndTiming()), g.cond(6, x))
        da.add_condition(LeftOpenTimeInterval(StartTiming(), EndTiming()), g.cond(4, x))
        da.add_condition(EndTiming(), em.Not(F(g.b)))
        da.add_effect(StartTiming(), F(g.p, [x]), em.FALSE())
        da.add_effect(EndTiming(), F(g.p, [x]), em.TRUE(), g.cond(4, x))
        da.add_increase_effect(EndTiming(), F(g.n), C("d"))
        da.add_effect(StartTiming(tvio.Fraction(1, 2)), F(g.b), em.TRUE())
        da.add_effect(EndTiming(), F(g.p, [ye]), em.FALSE(), em.Or(F(g.b), F(g.p, [ye])), forall=[y])
    elif variant == 1:
        da.set_closed_duration_interval(tvio._num(em, dur_lo), em.Plus(F(g.u), tvio._num(em, dur_hi)))
        da.add_condition(RightOpenTimeInterval(StartTiming(1), (EndTiming() - tvio.Fraction(1, 4))), g.cond(8, x))
        da.add_condition(StartTiming(), g.cond(15, x))
        da.add_condition(OpenTimeInterval(StartTiming(), EndTiming()), g.cond(19, x))
        da.add_decrease_effect(StartTiming(), F(g.n), em.Minus(C("d"), F(g.u)))
        da.add_effect((EndTiming() - tvio.Fraction(1, 4)), F(g.b), em.TRUE(), g.cond(17, x))
        da.add_effect(EndTiming(), F(g.n), em.Div(F(g.n), em.Int(2)))
    elif variant == 2:
        da.set_open_duration_interval(tvio._num(em, dur_lo), tvio._num(em, dur_hi + 1))
        da.add_condition(StartTiming(2), g.cond(21, x))
        da.add_condition(ClosedTimeInterval(StartTiming(), StartTiming(2)), g.cond(1, x))
        da.add_effect(StartTiming(2), F(g.p, [ye]), em.TRUE(), forall=[y])
        da.add_effect(EndTiming(), F(g.n), em.Minus(C("c1"), F(g.n)))
        P.add_timed_goal(ClosedTimeInterval(GlobalStartTiming(5), GlobalEndTiming()), g.cond(4, em.ObjectExp(g.o1)))
        P.add_timed_goal(GlobalStartTiming(3), em.Not(F(g.p, [em.ObjectExp(g.o2)])))
        P.add_timed_effect(GlobalStartTiming(tvio.Fraction(5, 2)), F(g.b), em.TRUE())
        P.add_timed_effect(GlobalStartTiming(7), F(g.n), C("c2"))
        P.add_increase_effect(GlobalStartTiming(0), F(g.n), C("d"))  # an increase right at the start is not an initial value
    else:
        da.set_left_open_duration_interval(tvio._num(em, dur_lo), em.Plus(tvio._num(em, dur_hi), em.Int(1)))
        da.add_condition(StartTiming(), em.Equals(F(g.w, [x]), em.ObjectExp(g.o1)))
        da.add_condition(EndTiming(), F(g.p, [F(g.w, [x])]))
        da.add_effect(EndTiming(), F(g.w, [x]), x)
        da.add_effect(StartTiming(), F(g.w, [ye]), em.ObjectExp(g.o1), F(g.p, [ye]), forall=[y])
        da.add_decrease_effect(EndTiming() - 1, F(g.n), C("d"), g.cond(0, x))
        ia = g.mk_action("a2", [12], [10, 2, 14], 10)
        P.add_action(ia)
        P.add_timed_effect(GlobalStartTiming(4), F(g.w, [em.ObjectExp(g.o2)]), em.ObjectExp(g.o1))
        P.add_decrease_effect(GlobalStartTiming(0), F(g.n), C("d"))
        P.add_increase_effect(GlobalStartTiming(6), F(g.n), em.Int(1))
    P.add_action(da)
    return g


def _tkey(t):
    return (t.is_global(), t.is_from_start(), tvio.Fraction(t.delay))


def _ikey(iv):
    if hasattr(iv, "lower"):
        return (_tkey(iv.lower), _tkey(iv.upper), iv.is_left_open(), iv.is_right_open())
    return (_tkey(iv), _tkey(iv), False, False)


def h_temporal(ctx, k, pool, schemes=None, rows=None, variants=None):
    from unified_planning.model import DurativeAction

    schemes = schemes or SCHEME_IDS
    pl = POOLS[pool]
    variants = variants or [0, 1, 2, 3]
    variant = variants[ctx.choice("variant", len(variants))]
    ni = ctx.choice("names", len(schemes))
    cv = ctx.choice("consts", len(pl))
    if rows is not None:
        ctx.assume([ni, cv] in rows)
    env = ctx.fresh_env()
    vals = tvio.leaf_values(cv, pl)
    g = _temporal(ctx, env, tvio.SCHEMES[schemes[ni]], vals, variant)
    P = g.problem
    ctx.note("program", dict(temporal_variant=variant, names=schemes[ni], consts={k_: str(v) for k_, v in vals.items()}))
    text = _write(P)
    P2 = _read(ctx, env, text)
    rho = _rho(ctx, P, P2, text)
    tvio.compare_static(ctx, P, P2, rho)
    box = {}

    def RR():
        if "R" not in box:
            box["R"], box["R2"] = _refs(P, P2, rho, [])
        return box["R"], box["R2"]

    tail = "\n" + text
    for a, a2 in zip(P.actions, P2.actions):
        ctx.check(type(a) is type(a2), "action-class-differs", f"{a.name}: {type(a).__name__} re-read as {type(a2).__name__}" + tail)
        if not isinstance(a, DurativeAction):
            ctx.forall(lambda a=a, a2=a2: (tvio.slot_violation(*RR(), rho, a.parameters, a2.parameters, a.preconditions, a2.preconditions,
                                                               a.effects, a2.effects, "s"), {}),
                       None, "instantaneous-action-differs", f"action {a.name} differs after the round trip" + tail)
            continue
        d1, d2 = a.duration, a2.duration
        ctx.check((d1.is_left_open(), d1.is_right_open()) == (d2.is_left_open(), d2.is_right_open()), "duration-openness-differs",
                  f"{a.name}: duration {d1} re-read as {d2}" + tail)
        for side in ("lower", "upper"):
            ctx.forall(lambda side=side, d1=d1, d2=d2, a=a, a2=a2: (tvio.expr_violation(*RR(), rho, getattr(d1, side), getattr(d2, side),
                                                                                        a.parameters, a2.parameters, tag="d"), {}),
                       None, f"duration-{side}-differs", f"{a.name}: duration {d1} re-read as {d2}" + tail)
        c1 = {_ikey(iv): cl for iv, cl in a.conditions.items()}
        c2 = {_ikey(iv): cl for iv, cl in a2.conditions.items()}
        ctx.check(set(c1) == set(c2), "condition-intervals-differ", f"{a.name}: conditions over {sorted(map(str, a.conditions))} re-read over "
                  f"{sorted(map(str, a2.conditions))}" + tail)
        for key in c1:
            ctx.forall(lambda key=key, a=a, a2=a2: (tvio.slot_violation(*RR(), rho, a.parameters, a2.parameters, c1[key], c2[key], [], [], "c"), {}),
                       None, "condition-differs", f"{a.name}: conditions over {key}: {c1[key]} re-read as {c2[key]}" + tail)
        e1 = {_tkey(t): el for t, el in a.effects.items()}
        e2 = {_tkey(t): el for t, el in a2.effects.items()}
        ctx.check(set(e1) == set(e2), "effect-times-differ", f"{a.name}: effects at {sorted(map(str, a.effects))} re-read at {sorted(map(str, a2.effects))}" + tail)
        for key in e1:
            ctx.forall(lambda key=key, a=a, a2=a2: (tvio.slot_violation(*RR(), rho, a.parameters, a2.parameters, [], [], e1[key], e2[key], "e"), {}),
                       None, "effects-differ", f"{a.name}: effects at {key}: {e1[key]} re-read as {e2[key]}" + tail)
    t1 = {_tkey(t): el for t, el in P.timed_effects.items()}
    t2 = {_tkey(t): el for t, el in P2.timed_effects.items()}
    ctx.check(set(t1) == set(t2), "timed-effect-times-differ", f"timed effects at {sorted(map(str, P.timed_effects))} re-read at {sorted(map(str, P2.timed_effects))}" + tail)
    for key in t1:
        ctx.forall(lambda key=key: (tvio.slot_violation(*RR(), rho, [], [], [], [], t1[key], t2[key], "t"), {}),
                   None, "timed-effect-differs", f"timed effects at {key}: {t1[key]} re-read as {t2[key]}" + tail)
    g1 = {_ikey(iv): gl for iv, gl in P.timed_goals.items()}
    g2 = {_ikey(iv): gl for iv, gl in P2.timed_goals.items()}
    ctx.check(set(g1) == set(g2), "timed-goal-intervals-differ", f"timed goals over {sorted(map(str, P.timed_goals))} re-read over {sorted(map(str, P2.timed_goals))}" + tail)
    for key in g1:
        ctx.forall(lambda key=key: (tvio.slot_violation(*RR(), rho, [], [], g1[key], g2[key], [], [], "g"), {}),
                   None, "timed-goal-differs", f"timed goals over {key}: {g1[key]} re-read as {g2[key]}" + tail)

    def goal_build():
        import z3
        R, R2 = RR()
        s = R.fresh_state("g")
        return z3.And(R.state_wf(s), R.goal(s) != R2.goal(tvio.map_state(R, R2, rho, s))), {}

    ctx.forall(goal_build, None, "goal-differs", "goal verdict differs in some state" + tail)
    ctx.witness("program")


def h_env(ctx, sk):
    """the reader's environment argument, without redirection of the global environment"""
    from unified_planning.io import ANMLReader

    env = ctx.fresh_env()
    vals = tvio.leaf_values(0, tvio.CONST_POOL, _int_pool(tvio.CONST_POOL))
    g = tvio.build(ctx, env, sk, tvio.SCHEMES["plain"], vals, tvio.INIT_PATTERNS[1])
    text = _write(g.problem)
    P2 = ANMLReader(env).parse_problem_string(text, "reread")
    ctx.check(P2.environment is env, "env:problem-in-other-environment", "the re-read problem is not in the reader's environment")
    ctx.witness("program")


SKELETONS = [
    dict(pre=[4], effs=[2, 1], effcond=4, goal=[0], n_bounds="both", wide=True),            # 0 inc + conditional Boolean, bounded int
    dict(pre=[2], effs=[0, 1], effcond=2, goal=[0], inv=[1]),                               # 1 add-after-delete + invariant
    dict(pre=[], effs=[4, 5], effcond=0, goal=[5], ntype="real"),                           # 2 two assignments
    dict(pre=[1], effs=[2, 9, 3], effcond=6, goal=[4], ntype="real", n_bounds="both", wide=True),   # 3 inc/dec accumulate, bounded real
    dict(pre=[6], effs=[6, 10], goal=[7], three_objects=True),                              # 4 forall effect, exists goal
    dict(pre=[3], effs=[7, 12], goal=[10], obj_fluent=True, w_init="rot", second_action=[14, 15], pre2=[11], effcond2=10),  # 5 object fluent
    dict(pre=[9], effs=[12], goal=[0], second_action=[11], pre2=[], undef_u=True),          # 6 undefined read
    dict(pre=[8], effs=[13, 0], goal=[12], three_objects=True),                             # 7 forall conditional effect
    dict(pre=[13], effs=[8], goal=[5], inv=[0], n_bounds="both", wide=True),                # 8 fluent-dependent assignment + invariant + bounds
    dict(pre=[15], effs=[18, 12], goal=[22], ntype="real"),                                 # 9 order-sensitive -, /, GT
    dict(pre=[18], effs=[19, 16], effcond=17, goal=[4], ntype="real"),                      # 10 nested * + -, iff condition
    dict(pre=[19], effs=[6, 0], goal=[20], three_objects=True),                             # 11 nested quantifiers
    dict(pre=[21], effs=[22, 1], effcond=6, goal=[16]),                                     # 12 deep and/or; forall effect with a condition over its variable
    dict(pre=[12], effs=[17, 12], goal=[16], ntype="real", undef_u=True, second_action=[21, 10], pre2=[]),  # 13 values read an undefined fluent
    dict(pre=[11], effs=[14, 15], effcond=10, goal=[11], obj_fluent=True, w_init="o1", three_objects=True),  # 14 nested fluent application
    dict(pre=[], effs=[5, 16, 0], effcond=4, goal=[1], second_action=[3], pre2=[5], n_bounds="lower"),        # 15 half-bounded int
    dict(pre=[], effs=[2, 12], goal=[0], second_action=[3], pre2=[], n_bounds="upper"),                       # 16 int bounded from above only
]


# programs of the fragment on which the round trip is known to fail (one shard each, see known_findings)
FINDING_SKELETONS = {
    "bounds-neg": dict(pre=[4], effs=[2, 1], effcond=4, goal=[0], n_bounds="both", lb=-3),           # integer [-3, 7]
    "bounds-half-real": dict(pre=[4], effs=[2, 12], goal=[0], ntype="real", n_bounds="upper"),       # float (-infinity, 7.0]
    "when-not": dict(pre=[19], effs=[20, 0], goal=[0], three_objects=True),                          # when (not (y == x)) {...}
    "when-exists": dict(pre=[2], effs=[1, 15], effcond=19, goal=[0]),                                # when (exists(T y) {...}) {...}
}


def _rows(n_schemes, n_init, n_consts, n):
    rows = [[i % n_schemes, (i // 2) % n_init, (i * 3 + i // n_consts) % n_consts, 0] for i in range(n)]
    # + boundary rows (tie: comparison constants equal to the initial value), one per 4 ordinary rows
    rows += [[(3 * i + 1) % n_schemes, i % n_init, (2 * i) % n_consts, 1] for i in range(max(2, n // 4))]
    return rows


def shards(tier, seed):
    out = []
    ns, ni = len(SCHEME_IDS), len(tvio.INIT_PATTERNS)
    if tier == "quick":
        nc = len(POOLS["quick"])
        for i, sk in enumerate(SKELETONS):
            out.append(dict(name=f"sk{i:02d}", fn="h_rt", engine="direct", budget=600, query_timeout=60,
                            kwargs=dict(sk=sk, k=2, pool="quick", rows=_rows(ns, ni, nc, 5 if i in (11, 12) else 12))))
        for v in range(4):
            out.append(dict(name=f"temporal{v}", fn="h_temporal", engine="direct", budget=600, query_timeout=60,
                            kwargs=dict(k=2, pool="quick", variants=[v], rows=[[(2 * i + v) % ns, (3 * i + v) % nc] for i in range(5)])))
        out.append(dict(name="names-inner", fn="h_rt", engine="direct", budget=60,
                        kwargs=dict(sk=SKELETONS[1], k=2, pool="quick", rows=[[0, 0, 0, 0]], schemes=["isym"])))
        out.append(dict(name="env-reader", fn="h_env", engine="direct", budget=60, kwargs=dict(sk=SKELETONS[7])))
        for name, sk in FINDING_SKELETONS.items():
            out.append(dict(name=name, fn="h_rt", engine="direct", budget=120, query_timeout=60,
                            kwargs=dict(sk=sk, k=2, pool="quick", rows=[[0, 0, 0, 0], [1, 1, 3, 0]], schemes=["plain", "upper"])))
    else:
        nc = len(POOLS["thorough"])
        for i, sk in enumerate(SKELETONS):
            out.append(dict(name=f"t-sk{i:02d}", fn="h_rt", engine="direct", budget=3000, query_timeout=120,
                            kwargs=dict(sk=sk, k=3, pool="thorough", rows=_rows(ns, ni, nc, 154))))
        for v in range(4):
            out.append(dict(name=f"t-temporal{v}", fn="h_temporal", engine="direct", budget=3000, query_timeout=120,
                            kwargs=dict(k=3, pool="thorough", variants=[v])))
        out.append(dict(name="t-names-inner", fn="h_rt", engine="direct", budget=60,
                        kwargs=dict(sk=SKELETONS[1], k=3, pool="thorough", rows=[[0, 0, 0, 0]], schemes=["isym"])))
        out.append(dict(name="t-env-reader", fn="h_env", engine="direct", budget=60, kwargs=dict(sk=SKELETONS[7])))
        for name, sk in FINDING_SKELETONS.items():
            out.append(dict(name="t-" + name, fn="h_rt", engine="direct", budget=300, query_timeout=120,
                            kwargs=dict(sk=sk, k=3, pool="thorough", rows=[[0, 0, 0, 0], [1, 1, 3, 0]], schemes=["plain", "upper"])))
    return out


MANIFEST = dict(
    engine="direct",
    technique="translation validation: the real ANMLWriter and ANMLReader run concretely on every member of a bounded family of problems "
              "(choice-driven identifiers, constants, structure); z3 decides one-step bisimulation between each problem and its re-read copy "
              "over all states reachable within k steps (BMC over a reference semantics encoding both sides on shared state terms) and, for "
              "temporal programs, semantic equality of every duration bound, of the conditions of every interval and of the transition "
              "denoted by the effects of every time point, over all states",
    text="For every program of the stated family: objects, signatures (with numeric bounds) and initial state equal under the positional "
         "renaming; no state reachable within k steps distinguishes the problem from its re-read copy by applicability, successor, "
         "invariants or goal verdict; durations, timed conditions, timed effects, timed goals and timed initial effects agree slot by slot.",
    note="Not symbolic: numeric literals and identifiers -- the claim is per pool member. rho is positional because ANMLWriter exposes no "
         "lookup. Trusted: R (pinned to the real simulator by C01/C02), z3. The reader runs with the global environment redirected to the "
         "path's environment because it ignores its environment argument when creating model objects (reported by the env-reader shard).",
)
