"""C21 The two PDDL readers produce equivalent problems.

Translation validation.  Programs: PDDL domain + problem TEXTS
  (a) generated from a small grammar driven by ctx.choice that includes forms PDDLWriter never emits: a (:constants)
      section, several variables / objects sharing one type annotation ('?x ?y - t', 'o1 o3 - t'), '- number' on
      functions, nested and/or/not/imply, exists / forall with several variables, numeric comparisons with the fluent
      on either side (<, <=, >, >=, = in both operand orders), n-ary + and *, unary minus, division, conditional and
      universally quantified effects with conjunctive bodies, assign / increase / decrease, '(= f number)' in :init with
      integers and decimals, functions without initial value, ':precondition ()', action costs with
      '(:metric minimize (total-cost))', final-value metrics (minimize / maximize, compound expression), comments,
      an untyped variant (no :typing) and an upper-case variant;
  (b) the PDDL files shipped under unified_planning/test/pddl that both readers accept (counters x2, citycar; the
      other 15 are rejected by the ai-planning parser or converter and are therefore outside the property).
Each text is parsed with BOTH real readers, PDDLReader(force_up_pddl_reader=True) and
PDDLReader(force_ai_planning_reader=True) (the ai-planning `pddl` package IS importable in /venv: pddl 0.4.10), in the
path's fresh environment.  A text that either reader rejects is outside 'texts both readers accept' (path ends
without witness; the rejection is noted).  For texts both accept, with rho = identity on names:
  (1) concrete: same objects (+ type chains), fluent and action signatures, same initial state;
  (2) solver: one-step bisimulation over all states reachable within k steps (BMC over R on the UP-reader problem, the
      ai-reader problem stepped from the same z3 state terms): applicability, successors, goal verdicts;
  (3) same metric: kind, and per action the same cost / the same final-state expression in every state (solver).
For citycar (2907 ground actions) the bisimulation uses k = 1 and an evenly spaced sample of 60 ground actions.
"""
import os
import warnings

from vf import tvio

PROPERTY = "C21"
LEVEL = "translation_validation"
FUNCTIONS = [
    "unified_planning.io.pddl_reader:PDDLReader.parse_problem_string",
    "unified_planning.io.up_pddl_reader:UPPDDLReader.parse_problem_string",
    "unified_planning.io.up_pddl_reader:UPPDDLReader._parse_problem",
    "unified_planning.io.up_pddl_reader:UPPDDLReader._parse_exp",
    "unified_planning.io.up_pddl_reader:UPPDDLReader._add_effect",
    "unified_planning.io.up_pddl_reader:UPPDDLReader._instantaneous_action_has_cost",
    "unified_planning.io.up_pddl_reader:UPPDDLReader._problem_has_actions_cost",
    "unified_planning.interop.from_pddl:convert_problem_from_ai_pddl",
    "unified_planning.interop.from_pddl:AIPDDLConverter.convert",
    "unified_planning.interop.from_pddl:AIPDDLConverter._convert_types",
    "unified_planning.interop.from_pddl:AIPDDLConverter._convert_function_to_fluent",
    "unified_planning.interop.from_pddl:AIPDDLConverter._convert_action",
    "unified_planning.interop.from_pddl:AIPDDLConverter._convert_effects",
    "unified_planning.interop.from_pddl:AIPDDLConverter._convert_initial_values",
    "unified_planning.interop.from_pddl:AIPDDLConverter._add_quality_metric",
    "unified_planning.interop.from_pddl:_ExpressionConverter.convert_expression",
]
BOUNDS = ("generated texts: one domain shape (types t, s - t; predicates b, p(t), q(t,t); functions n, m(t); one or two actions) x "
          "24 precondition forms x 9 effect forms x covering rows over {constants section, parameter / object list forms, "
          "function typing, 6 init forms, 4 goal forms, 5 metric forms, comment / case / untyped variants}; numeric literals from "
          "{0, 1, 2, 3, 2.5, 0.125, 0.1, 1000000001}; bisimulation depth k = 2 (quick) / 3 (thorough); shipped files: counters "
          "(2 problems, k = 2 / 3) and citycar (k = 1, 60 sampled ground actions)")
OUTSIDE = ("numeric literals are NOT symbolic (text -> number realises under CrossHair): the claim is per literal of the stated list; "
           "texts that either reader rejects (for the ai-planning reader: binary minus, goals that need a requirement, untyped "
           "variables, upper-case variable names, '(not ...)' in :init, durative actions, derived predicates, object fluents ...); "
           "identifiers (fixed here, C38/C18 vary them); larger domains; states deeper than k; for citycar the ground actions "
           "outside the sample")
ASSUMPTIONS = [
    "engine 'direct': both readers run concretely per text; the solver decides the equivalence of their outputs",
    "rho = identity on names (both readers lower-case / keep the names of the text)",
    "while a reader runs, unified_planning.environment.GLOBAL_ENVIRONMENT points at the path's fresh environment (both readers "
    "ignore part of their environment argument: recorded finding of C18)",
    "R (vf/refsem.py) encodes both problems; it is pinned to the real simulator by C01/C02",
]

REQ = (":strips :typing :negative-preconditions :disjunctive-preconditions :equality :numeric-fluents :conditional-effects "
       ":existential-preconditions :universal-preconditions :action-costs")

PRE = [
    "(p ?x)",                                                                   # 0
    "(and (p ?x) (not (b)))",                                                   # 1
    "(or (b) (and (p ?x) (not (q ?x ?y))))",                                    # 2 nested
    "(and (or (b) (p ?x)) (or (not (b)) (and (p ?y) (b) (q ?x ?y))))",          # 3 nested, ternary and
    "(< (n) 3)",                                                                # 4
    "(> 3 (n))",                                                                # 5 same, operands swapped
    "(>= (m ?x) (n))",                                                          # 6
    "(<= (n) (m ?y))",                                                          # 7
    "(= (n) 2)",                                                                # 8 numeric equality
    "(= 2 (n))",                                                                # 9
    "(= ?x ?y)",                                                                # 10 object equality
    "(not (= ?x c1))",                                                          # 11 constant (needs the constants section)
    "(exists (?z - t) (and (p ?z) (not (= ?z ?x))))",                           # 12
    "(forall (?z ?w - t) (or (q ?z ?w) (b) (not (p ?w))))",                     # 13 two variables, one annotation
    "(imply (b) (p ?x))",                                                       # 14
    "(<= (+ (n) 1) (* 2 (m ?x)))",                                              # 15
    "(< (+ (n) 1 (m ?x)) (* 2 (m ?y) 0.125))",                                  # 16 n-ary + and *
    "(>= (/ (n) 2) (- (m ?x)))",                                                # 17 division, unary minus
    "(and (> (n) 0.1) (< (n) 1000000001))",                                     # 18 decimal that is not a binary fraction, large int
    "()",                                                                       # 19 empty precondition
    "(and)",                                                                    # 20
    "(forall (?z - s) (exists (?w - t) (and (q ?w ?z) (not (= ?w ?z)))))",      # 21 nested quantifiers
    "(and (p ?x) (and (p ?y) (and (b) (or (b) (or (p ?x) (q ?x ?x))))))",       # 22 right-nested
    "(not (and (p ?x) (not (or (b) (not (q ?y ?x))))))",                        # 23 negated compound
    "(and (forall (?z - s) (p ?z)) (exists (?z - t) (and (not (p ?z)) (not (= ?z ?x)))))",   # 24 one variable name, two types (subtype first)
    "(and (exists (?z - t) (not (p ?z))) (forall (?z - s) (or (p ?z) (b))))",                # 25 the same, supertype first
    "(and (> (n) (- 1.5)) (< (- 3) (m ?x)))",                                   # 26 unary minus of a decimal / of an integer constant
    "(>= (+ (n) (- 0.5)) (- (m ?x) (- 1)))",                                    # 27 the same inside arithmetic
]
EFF = [
    "(and (b) (not (p ?x)))",                                                   # 0
    "(when (and (p ?x) (b)) (and (q ?x ?y) (not (p ?x))))",                     # 1 conjunctive condition and body
    "(and (forall (?z - t) (when (p ?z) (not (p ?z)))) (b))",                   # 2
    "(and (increase (n) 1) (p ?y))",                                            # 3
    "(and (assign (m ?x) (+ (n) 2.5)) (decrease (n) (m ?y)))",                  # 4
    "(and (when (< (n) 3) (assign (n) 3)) (not (b)))",                          # 5 conditional numeric
    "(and (b) (not (b)))",                                                      # 6 add-after-delete on one atom
    "(forall (?z ?w - t) (when (q ?z ?w) (and (not (q ?z ?w)) (q ?w ?z))))",    # 7 two quantified variables
    "(and (q ?x ?y) (increase (m ?x) (* (n) 0.1)) (when (b) (decrease (n) 2)))",  # 8
]
INIT = [
    "(p o1) (q o1 o2) (= (n) 2) (= (m o1) 0.125) (= (m o2) 3) (= (m c1) 1) (= (m o3) 0)",     # 0 everything defined
    "(b) (p o2) (q o2 o2) (= (n) 0) (= (m o1) 2.5) (= (m o2) 1000000001) (= (m c1) 1) (= (m o3) 0)",  # 1
    "(p o1) (= (n) 2) (= (m o1) 1)",                                               # 2 m(o2), m(c1), m(o3) WITHOUT initial value
    "(p o1) (p o2) (= (n) 0.1) (= (m o1) 0.125) (= (m o2) 3) (= (m c1) 1) (= (m o3) 0)",      # 3 decimal 0.1
    "(p o1) (q o1 o1) (= (n) 3) (= (m o1) 0) (= (m o2) 0) (= (m c1) 0) (= (m o3) 0)",         # 4
    "(b) (p o1) (p o2) (q o2 o1) (= (n) 1) (= (m o1) 2) (= (m o2) 2) (= (m c1) 2) (= (m o3) 2)",  # 5
]
GOAL = ["(b)", "(and (b) (p o1))", "(and (>= (n) 2) (q o1 o2))", "(and)"]
METRIC = ["", "(:metric minimize (total-cost))", "(:metric minimize (n))", "(:metric maximize (+ (n) (m o1)))", "(:metric minimize (* 2 (m o2)))"]


def gen_text(cfg):
    """cfg: dict of small ints -> (domain text, problem text)"""
    consts = cfg["consts"]            # 0 none, 1 (:constants c1 - t), 2 (:constants c1 - t c2 - s)
    plist = cfg["params"]             # 0 '?x - t ?y - t', 1 '?x ?y - t', 2 '?x - t ?y - s'
    olist = cfg["objects"]            # 0 'o1 - t o2 - s', 1 'o1 o3 - t o2 - s', 2 'o2 - s o1 o3 - t'
    ftyp = cfg["ftype"]               # 0 plain, 1 '- number', 2 grouped '(n) (m ?x - t) - number'
    variant = cfg.get("variant", 0)   # 0 plain, 1 comments + tabs, 2 upper case keywords/names, 3 untyped
    metric = METRIC[cfg["metric"]]
    cost = cfg["metric"] == 1
    pre, eff = PRE[cfg["pre"]], EFF[cfg["eff"]]
    if cost:  # (nested 'and' in effects is outside the ai-planning grammar: splice into an existing conjunction)
        # cost: 0-2 first action costs 2 / 1 / (m ?x), the second one 1; 3: the FIRST action has no total-cost effect; 4: the first
        # costs 1 and the SECOND has none ("some actions cost 1, the others are free" is not plan length)
        first_cost = [2, 1, "(m ?x)", None, 1][cfg.get("cost", 0)]
        if first_cost is not None:
            inc = f"(increase (total-cost) {first_cost})"
            eff = f"{eff[:-1]} {inc})" if eff.startswith("(and ") else f"(and {eff} {inc})"
    params = ["?x - t ?y - t", "?x ?y - t", "?x - t ?y - s"][plist]
    objects = ["o1 - t o2 - s", "o1 o3 - t o2 - s", "o2 - s o1 o3 - t"][olist]
    cdecl = ["", "(:constants c1 - t)", "(:constants c1 - t c2 - s)"][consts]
    funcs = ["(n) (m ?x - t)", "(n) - number (m ?x - t) - number", "(n) (m ?x - t) - number"][ftyp]
    if cost:
        funcs += [" (total-cost)", " (total-cost) - number", " (total-cost) - number"][ftyp]
    second = ""
    if cfg.get("second"):
        second = ("\n (:action a2 :parameters (?x - t) :precondition (and (not (p ?x)))" +
                  f" :effect (and (p ?x) (increase (n) 1){' (increase (total-cost) 1)' if cost and cfg.get('cost', 0) != 4 else ''}))")
    init = INIT[cfg["init"]]
    if consts == 0:
        init = init.replace(" (= (m c1) 1)", "").replace(" (= (m c1) 0)", "").replace(" (= (m c1) 2)", "")
    if consts == 2 and cfg["init"] != 2:
        init += " (= (m c2) 1)"
    if olist == 0:
        init = init.replace(" (= (m o3) 0)", "").replace(" (= (m o3) 2)", "")
    if cost:
        init += " (= (total-cost) 0)"
    dom = (f"(define (domain d)\n (:requirements {REQ})\n (:types t - object s - t)\n {cdecl}\n"
           f" (:predicates (b) (p ?x - t) (q ?x ?y - t))\n (:functions {funcs})\n"
           f" (:action a :parameters ({params})\n  :precondition {pre}\n  :effect {eff}){second})\n")
    prb = (f"(define (problem q) (:domain d)\n (:objects {objects})\n (:init {init})\n (:goal {GOAL[cfg['goal']]})\n {metric})\n")
    if not cfg.get("raw"):
        # 0.1 is misread by the ai-planning converter (recorded finding, shards decimal-*): elsewhere a binary fraction
        import re
        dom, prb = re.sub(r"\b0\.1\b", "0.25", dom), re.sub(r"\b0\.1\b", "0.25", prb)
    if variant == 1:
        dom = dom.replace("\n (:predicates", " ; the types\n\t(:predicates").replace(":effect", "; effects follow\n\t:effect")
        prb = prb.replace("(:init", "; initial state\n (:init")
    elif variant == 2:
        dom = dom.replace("(:action a ", "(:ACTION A ").replace("(and ", "(AND ").replace("(p ", "(P ").replace("(n)", "(N)")
        prb = prb.replace("(:init", "(:INIT").replace("(p o1)", "(P O1)").replace("(n)", "(N)")
    elif variant == 3:
        dom = dom.replace(" :typing", "").replace("(:types t - object s - t)", "").replace(" - number", "").replace(" - t", "").replace(" - s", "")
        prb = prb.replace(" - t", "").replace(" - s", "")
    return dom, prb


def _read_both(ctx, env, dom, prb):
    """-> (P_up, P_ai); a rejection by either reader ends the path (outside 'texts both readers accept')"""
    from unified_planning.io import PDDLReader

    out = []
    for which, kw in (("up", dict(force_up_pddl_reader=True)), ("ai", dict(force_ai_planning_reader=True))):
        try:
            with tvio.global_env(env), warnings.catch_warnings():
                warnings.simplefilter("ignore")
                out.append(PDDLReader(environment=env, **kw).parse_problem_string(dom, prb))
        except AssertionError:
            raise
        except Exception as e:  # parse errors of pyparsing / lark / pddl, UPUnsupportedProblemTypeError, SyntaxError ...
            ctx.note("rejected", f"{which}: {type(e).__name__}: {str(e)[:160]}")
            ctx.assume(False)
    return out


def _compare(ctx, P, P2, k, text, limit=None):
    from vf.props.c18 import _compare_metric
    from vf.refsem import Ref

    rho = tvio.Rho.identity(P)
    ok = ({f.name for f in P.fluents} == {f.name for f in P2.fluents} and {a.name for a in P.actions} == {a.name for a in P2.actions}
          and {o.name for o in P.all_objects} == {o.name for o in P2.all_objects})
    ctx.check(ok, "names-differ", f"the readers disagree on the declared names: fluents {[f.name for f in P.fluents]} / {[f.name for f in P2.fluents]}, "
              f"actions {[a.name for a in P.actions]} / {[a.name for a in P2.actions]}, objects {P.all_objects} / {P2.all_objects}\n{text}")
    rho.types = {t.name: t.name for t in P.user_types}
    rho.types.setdefault("object", "object")
    for t in P2.user_types:
        rho.types.setdefault(t.name, t.name)
    tvio.compare_static(ctx, P, P2, rho, numeric_as_real=True)
    box = {}

    def RR():
        if "R" not in box:
            box["R"] = Ref(P)
            box["R2"] = tvio.aligned_ref(box["R"], P2, rho)
        return box["R"], box["R2"]

    def build():
        R, R2 = RR()
        pairs = tvio.ground_pairs(R, R2, rho, limit=limit)
        viol, info = tvio.bisim(R, R2, rho, k, pairs=pairs)
        return viol, {f"act{i}": c for i, c in enumerate(info["choice"])}

    ctx.forall(build, None, "bisimulation",
               f"some state reachable within {k} steps has a ground action whose applicability or successor (or the goal verdict) differs "
               f"between the UP-reader problem and the ai-planning-reader problem\n{text}")
    _compare_metric(ctx, P, P2, rho, RR)


def h_gen(ctx, pre, k, rows, effs=None, variants=None):
    """one generated text; pre: list of precondition forms of this shard"""
    effs = effs if effs is not None else list(range(len(EFF)))
    pi = pre[ctx.choice("pre", len(pre))]
    ei = effs[ctx.choice("eff", len(effs))]
    row = rows[ctx.choice("row", len(rows))]
    cfg = dict(row, pre=pi, eff=ei)
    if pi == 11 and cfg["consts"] == 0:
        cfg["consts"] = 1
    env = ctx.fresh_env()
    dom, prb = gen_text(cfg)
    ctx.note("program", cfg)
    P, P2 = _read_both(ctx, env, dom, prb)
    _compare(ctx, P, P2, k, dom + prb)
    ctx.witness("program")


FILES = [("counters", "domain.pddl", "problem.pddl", None), ("counters", "domain.pddl", "problem2.pddl", None),
         ("citycar", "domain.pddl", "problem.pddl", 60)]
ALL_FILES = None


def _shipped():
    """every (dir, domain, problem) under unified_planning/test/pddl"""
    import unified_planning

    base = os.path.join(os.path.dirname(unified_planning.__file__), "test", "pddl")
    out = []
    for d in sorted(os.listdir(base)):
        p = os.path.join(base, d)
        if not os.path.isdir(p):
            continue
        fs = sorted(os.listdir(p))
        doms = [f for f in fs if f in ("domain.pddl", "d.pddl", "domain.hddl")]
        for f in fs:
            if f.endswith(("pddl", "hddl")) and f not in doms and doms:
                out.append((d, doms[0], f))
    return base, out


def h_file(ctx, k, k_big=1, limit_big=60, big_from=200):
    """the shipped PDDL files: every file pair is tried with both readers; those both accept are compared"""
    base, cases = _shipped()
    d, dom_f, prb_f = cases[ctx.choice("file", len(cases))]
    env = ctx.fresh_env()
    dom = open(os.path.join(base, d, dom_f), encoding="utf-8-sig").read()
    prb = open(os.path.join(base, d, prb_f), encoding="utf-8-sig").read()
    ctx.note("program", f"{d}/{prb_f}")
    P, P2 = _read_both(ctx, env, dom, prb)
    n_ground = 0
    for a in P.actions:
        m = 1
        for par in a.parameters:
            m *= len(list(P.objects(par.type)))
        n_ground += m
    big = n_ground > big_from
    _compare(ctx, P, P2, k_big if big else k, f"{d}/{dom_f} + {d}/{prb_f}", limit=limit_big if big else None)
    ctx.witness("program")


def _rows(n, seed=0):
    """covering rows over the secondary dimensions (each value of each dimension at least once; pairs spread)"""
    out = []
    for i in range(n):
        j = i + seed
        out.append(dict(consts=j % 3, params=(j // 2) % 3, objects=(j + j // 3) % 3, ftype=(j // 4 + j) % 3, init=[0, 1, 3, 4, 5][j % 5], goal=(j // 2) % len(GOAL),
                        metric=(j + j // 5) % len(METRIC), cost=j % 3, second=j % 2, variant=1 if j % 7 == 3 else 0))
    return out


GROUPS = [[0, 1], [2, 3], [4, 5], [6, 7], [8, 9], [10, 11], [12, 13], [14, 22], [15, 16], [17, 18], [20], [21, 23], [24, 25], [26, 27]]
# texts on which the readers are known to disagree (one shard each, see known_findings)
FINDINGS = {
    "undef-init": dict(pre=[0, 6], effs=[0, 4], rows=[dict(r, init=2) for r in _rows(3)]),                  # functions without (= ...) in :init
    "decimal-init": dict(pre=[0, 4], effs=[0, 3], rows=[dict(r, init=3, raw=1) for r in _rows(2)]),         # (= (n) 0.1)
    "decimal-expr": dict(pre=[18, 0], effs=[8, 0], rows=[dict(r, raw=1, init=0) for r in _rows(2)]),        # 0.1 inside conditions / effects
    "empty-pre": dict(pre=[19], effs=[0, 3], rows=_rows(3)),                                                # :precondition ()
}


def shards(tier, seed):
    out = []
    if tier == "quick":
        for gi, grp in enumerate(GROUPS):
            out.append(dict(name=f"gen{gi:02d}-pre{'-'.join(map(str, grp))}", fn="h_gen", engine="direct", budget=600, query_timeout=60,
                            kwargs=dict(pre=grp, k=2, rows=_rows(2, seed=gi))))
        out.append(dict(name="variants", fn="h_gen", engine="direct", budget=120,
                        kwargs=dict(pre=[1, 4], k=2, effs=[0, 3], rows=[dict(r, variant=v) for v in (2, 3) for r in _rows(2, seed=v)])))
        out.append(dict(name="costs-some-free", fn="h_gen", engine="direct", budget=120, query_timeout=60,
                        kwargs=dict(pre=[0, 4], k=2, effs=[0, 3], rows=[dict(r, metric=1, cost=c, second=1) for c in (3, 4, 1) for r in _rows(2, seed=c)])))
        out.append(dict(name="files", fn="h_file", engine="direct", budget=300, query_timeout=120, kwargs=dict(k=2)))
        for name, kw in FINDINGS.items():
            out.append(dict(name=name, fn="h_gen", engine="direct", budget=120, query_timeout=60, kwargs=dict(k=2, **kw)))
    else:
        for gi, grp in enumerate(GROUPS):
            for pi in grp:
                out.append(dict(name=f"t-gen-pre{pi:02d}", fn="h_gen", engine="direct", budget=3000, query_timeout=120,
                                kwargs=dict(pre=[pi], k=3, rows=_rows(30, seed=pi))))
        out.append(dict(name="t-costs-some-free", fn="h_gen", engine="direct", budget=600, query_timeout=120,
                        kwargs=dict(pre=[0, 4, 12], k=3, effs=[0, 3, 4], rows=[dict(r, metric=1, cost=c, second=1) for c in (3, 4, 1) for r in _rows(4, seed=c)])))
        out.append(dict(name="t-variants", fn="h_gen", engine="direct", budget=600,
                        kwargs=dict(pre=[1, 4, 12], k=3, rows=[dict(r, variant=v) for v in (1, 2, 3) for r in _rows(4, seed=v)])))
        for name, kw in FINDINGS.items():
            out.append(dict(name="t-" + name, fn="h_gen", engine="direct", budget=300, query_timeout=120, kwargs=dict(k=3, **kw)))
        out.append(dict(name="t-files", fn="h_file", engine="direct", budget=3000, query_timeout=600, kwargs=dict(k=3, k_big=1, limit_big=200)))
    return out


MANIFEST = dict(
    engine="direct",
    technique="translation validation of two front ends against each other: both real PDDL readers parse every member of a bounded family "
              "of PDDL texts (grammar-generated, choice-driven, incl. forms the writer never emits; plus the shipped PDDL files both accept); "
              "z3 decides one-step bisimulation of the two resulting problems over all states reachable within k steps (BMC over a reference "
              "semantics encoding both on shared state terms) and equality of metrics over all states",
    text="For every text of the stated family that both readers accept: same objects, signatures and initial state; no state reachable "
         "within k steps distinguishes the two problems by applicability, successor or goal verdict; same metric (kind, per-action cost / "
         "final-state expression in every state).",
    note="Not symbolic: the text (structure by choice variables, numeric literals from a fixed list). Texts rejected by either reader are "
         "outside the property and counted as ignored paths, not as passes. Trusted: R (pinned to the real simulator by C01/C02), z3.",
)
