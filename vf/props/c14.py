"""C14 Shared environment walkers are history independent, even after failures.

One environment A, a history of calls on its shared walkers: env.simplifier (FNode.simplify), env.substituter
(FNode.substitute), env.type_checker (FNode.type and every constructor call), env.free_vars_oracle,
env.free_vars_extractor (fluent extraction), one ExpressionQuantifiersRemover and one StateEvaluator kept for the
whole history.  Which call comes next (kind x expression x map) is a choice variable.  The pool's expressions contain
an integer constant sigma that is a solver variable, so whether a call fails in the middle of its walk is decided by
the solver, not hard-wired:
   substitute(b and 1/(x - sigma) <= 2, {x: 3})      ZeroDivisionError (type checker, inside the substituter)  iff sigma = 3
   substitute(b and f(x), {x: sigma}), f(i:int[0,5])  rejected up front iff sigma outside [0,10]; UPTypeError mid-walk iff 5 < sigma <= 10
   simplify(exists v:int[0,10]. v = sigma and f(v))   UPTypeError inside the nested substitution v := sigma  iff 5 < sigma <= 10
   simplify(1 / F(sigma) <= 2), F(v) = v - 2          ZeroDivisionError in Simplifier.walk_div               iff sigma = 2
   evaluate(b and 1/(x - sigma) <= 2, x = 3)          ZeroDivisionError in the StateEvaluator                iff sigma = 3
   evaluate((u <= 3) and b), u has no value           UPStateMissingFluentError; quantifier removal over an int variable fails
Oracle: every call is also run on a FRESH environment B built identically (same sigma); the two outcomes (structural
key of the result: operator / payload names / children, recursively - or the exception type) must coincide.  Calls made
after a failing call are the point of the property: a wrong answer or an unexpected exception there is how a dirty
walker (stack / memoization / evaluator fields) or a dirty expression table shows.
"""
PROPERTY = "C14"
LEVEL = "model_checking"
FUNCTIONS = [
    "unified_planning.model.walkers.dag:DagWalker.walk",
    "unified_planning.model.walkers.dag:DagWalker.iter_walk",
    "unified_planning.model.walkers.dag:DagWalker._process_stack",
    "unified_planning.model.walkers.dag:DagWalker._compute_node_result",
    "unified_planning.model.walkers.substituter:Substituter.substitute",
    "unified_planning.model.walkers.substituter:Substituter._push_with_children_to_stack",
    "unified_planning.model.walkers.simplifier:Simplifier.simplify",
    "unified_planning.model.walkers.simplifier:Simplifier.walk_exists",
    "unified_planning.model.walkers.simplifier:Simplifier.walk_div",
    "unified_planning.model.walkers.simplifier:Simplifier.walk_interpreted_function_exp",
    "unified_planning.model.walkers.type_checker:TypeChecker.get_type",
    "unified_planning.model.walkers.type_checker:TypeChecker.walk_div",
    "unified_planning.model.walkers.type_checker:TypeChecker.walk_fluent_exp",
    "unified_planning.model.walkers.free_vars:FreeVarsExtractor.get",
    "unified_planning.model.variable:FreeVarsOracle.get_free_variables",
    "unified_planning.model.walkers.expression_quantifiers_remover:ExpressionQuantifiersRemover.remove_quantifiers",
    "unified_planning.model.walkers.state_evaluator:StateEvaluator.evaluate",
    "unified_planning.model.walkers.quantifier_simplifier:QuantifierSimplifier.walk_exists",
    "unified_planning.model.expression:ExpressionManager.create_node",
    "unified_planning.environment:Environment.__init__",
]
BOUNDS = ("histories of 3 (quick) / 4 (thorough) calls; 10 pool expressions (<= 9 nodes) x 4 maps x 8 call kinds, the first call of a shard is one of the "
          "candidate failing calls, the others are choices from a per-shard sub-pool of 5-7 calls; sigma a solver variable in [-20, 30] "
          "(concrete shards: sigma in {2, 3, 4, 7, 12} by choice, histories of 3 (4) free calls from larger sub-pools)")
OUTSIDE = ("longer histories; quantifiers with two or more variables (Simplifier.walk_exists returns them in an address-dependent order: a nondeterministic "
           "outcome cannot be replayed; written up in scratch/fixes/C14-simplify-exists-variable-order.md); other walkers (Dnf/Nnf, LinearChecker, UsertypeFluentsWalker, NamesExtractor); a Simplifier bound to a problem; "
           "failures raised by user code inside interpreted functions; real-valued sigma")
ASSUMPTIONS = ["hash-consing tables are association lists (S2 exact): the constant sigma shares a node with another constant exactly when the solver allows equality",
               "comparisons of a symbolic int with +-inf in the type checker are answered exactly (vf/infshim.py)",
               "a fresh environment per comparison call is built by the same deterministic builder with the same sigma"]

N_EXPR = 10
CALLS_ALL = (["simp:%d" % i for i in range(N_EXPR)] + ["sub:%d:%d" % (i, j) for i in (0, 1, 4, 8, 9, 2) for j in range(4)]
             + ["type:%d" % i for i in (0, 4, 8)] + ["fv:%d" % i for i in (2, 5, 6)] + ["fl:%d" % i for i in (0, 6)]
             + ["qr:%d" % i for i in (2, 5, 6)] + ["ev:%d" % i for i in (0, 5, 6, 7, 9)] + ["build:%d" % i for i in range(4)])


class World:
    pass


def _minus_two(v):
    return v - 2


def _world(ctx, sigma):
    """deterministic builder; the same call gives structurally the same world in every fresh environment"""
    from collections import OrderedDict

    from unified_planning.model import Fluent, InterpretedFunction, Object, Problem, Variable
    from unified_planning.model.state import UPState
    from unified_planning.model.walkers import ExpressionQuantifiersRemover, StateEvaluator

    env = ctx.fresh_env(hashcons="exact")
    em, tm = env.expression_manager, env.type_manager
    w = World()
    w.env, w.em, w.sigma = env, em, sigma
    with ctx.untraced():
        T = tm.UserType("T")
        objs = [Object("o1", T, env), Object("o2", T, env)]
        w.fx = Fluent("x", tm.IntType(0, 10), environment=env)
        w.fu = Fluent("u", tm.IntType(0, 10), environment=env)
        w.fb = Fluent("b", tm.BoolType(), environment=env)
        w.fc = Fluent("c", tm.BoolType(), environment=env)
        w.ff = Fluent("f", tm.BoolType(), environment=env, i=tm.IntType(0, 5))
        w.fp = Fluent("p", tm.BoolType(), environment=env, o=T)
        w.F = InterpretedFunction("F", tm.IntType(), OrderedDict([("v", tm.IntType())]), _minus_two, env)
        w.vy = Variable("y", T, env)
        w.vv = Variable("v", tm.IntType(0, 10), env)
        prob = Problem("c14", env)
        for fl in (w.fx, w.fu, w.fb, w.fc, w.ff, w.fp):
            prob.add_fluent(fl)
        prob.add_objects(objs)
        w.problem = prob
        # the same fluents over a larger object set: what remove_quantifiers returns depends on the objects_set argument
        prob2 = Problem("c14b", env)
        for fl in (w.fx, w.fu, w.fb, w.fc, w.ff, w.fp):
            prob2.add_fluent(fl)
        prob2.add_objects(objs + [Object("o3", T, env)])
        w.problem2 = prob2
        E = em
        x, u, b, c = E.FluentExp(w.fx), E.FluentExp(w.fu), E.FluentExp(w.fb), E.FluentExp(w.fc)
        y, v = E.VariableExp(w.vy), E.VariableExp(w.vv)
        w.x, w.b = x, b
        p = lambda a: E.FluentExp(w.fp, [a])  # noqa: E731
        w.state = UPState({x: E.Int(3), b: E.TRUE(), c: E.FALSE(), p(E.ObjectExp(objs[0])): E.TRUE(), p(E.ObjectExp(objs[1])): E.FALSE()}, prob)
        w.remover = ExpressionQuantifiersRemover(env)
        w.evaluator = StateEvaluator(prob)
        plain = {
            1: E.And(b, E.FluentExp(w.ff, [x])),
            5: E.Forall(E.Or(p(y), b), w.vy),
            6: E.Or(c, E.Exists(p(y), w.vy)),
            7: E.And(E.LE(u, 3), b),
            8: E.FluentExp(w.ff, [x]),
            9: E.And(E.Not(b), E.LE(x, 2)),
        }
    # expressions that hold sigma (built traced: the constant's lookup forks on equality with the other constants)
    s = E.Int(sigma)
    w.s = s
    ex = dict(plain)
    ex[4] = E.Minus(x, s)
    ex[0] = E.And(b, E.LE(E.Div(1, ex[4]), 2))
    ex[2] = E.Exists(E.And(E.Equals(v, s), E.FluentExp(w.ff, [v])), w.vv)
    ex[3] = E.LE(E.Div(1, w.F(s)), 2)
    w.ex = [ex[i] for i in range(N_EXPR)]
    w.maps = [{x: E.Int(3)}, {x: s}, {b: E.TRUE()}, {x: E.Int(2)}]
    return w


# ------------------------------------------------------------------ structural keys
def skey(e):
    pl = None
    if e.is_constant():
        pl = e.object().name if e.is_object_exp() else e.constant_value()
    elif e.is_fluent_exp():
        pl = e.fluent().name
    elif e.is_interpreted_function_exp():
        pl = e.interpreted_function().name
    elif e.is_parameter_exp():
        pl = e.parameter().name
    elif e.is_variable_exp():
        pl = e.variable().name
    elif e.is_exists() or e.is_forall():
        pl = tuple(v.name for v in e.variables())
    return (e.node_type.name, pl, tuple(skey(a) for a in e.args))


def tkey(t):
    if t.is_bool_type():
        return ("bool",)
    if t.is_user_type():
        return ("user", t.name)
    if t.is_int_type():
        return ("int", t.lower_bound, t.upper_bound)
    if t.is_real_type():
        return ("real", t.lower_bound, t.upper_bound)
    return ("other", str(t))


def deep_eq(a, b):
    """structural equality of keys; numeric payloads may be symbolic"""
    if a is b:
        return True
    if isinstance(a, tuple) or isinstance(b, tuple):
        if not (isinstance(a, tuple) and isinstance(b, tuple)) or len(a) != len(b):
            return False
        for x, y in zip(a, b):
            if not deep_eq(x, y):
                return False
        return True
    if a is None or b is None or isinstance(a, str) or isinstance(b, str):
        return a is b or (isinstance(a, str) and isinstance(b, str) and a == b)
    return bool(a == b)


def set_eq(a, b):
    return all(any(deep_eq(x, y) for y in b) for x in a) and all(any(deep_eq(x, y) for x in a) for y in b)


def _expected_exceptions():
    from unified_planning.exceptions import UPException

    return (UPException, ArithmeticError, LookupError, AssertionError, AttributeError, TypeError, ValueError)


def run_call(w, name):
    """-> ("ok", kind-of-key, key) | ("raise", exception type name)"""
    parts = name.split(":")
    kind, i = parts[0], int(parts[1])
    em = w.em
    try:
        if kind == "simp":
            return ("ok", "expr", skey(w.ex[i].simplify()))
        if kind == "sub":
            return ("ok", "expr", skey(w.ex[i].substitute(w.maps[int(parts[2])])))
        if kind == "type":
            return ("ok", "type", tkey(w.ex[i].type))
        if kind == "fv":
            return ("ok", "set", tuple((v.name,) for v in w.env.free_vars_oracle.get_free_variables(w.ex[i])))
        if kind == "fl":
            return ("ok", "set", tuple(skey(f) for f in w.env.free_vars_extractor.get(w.ex[i])))
        if kind == "qr":
            return ("ok", "expr", skey(w.remover.remove_quantifiers(w.ex[i], w.problem)))
        if kind == "qrb":
            return ("ok", "expr", skey(w.remover.remove_quantifiers(w.ex[i], w.problem2)))
        if kind == "ev":
            return ("ok", "expr", skey(w.evaluator.evaluate(w.ex[i], w.state)))
        if kind == "build":
            if i == 0:   # nothing fails: an expression that shares sub-terms with the pool
                r = em.Iff(em.LE(em.Div(1, em.Minus(w.x, w.s)), 2), em.Not(w.b))
            elif i == 1:  # ill-typed iff sigma outside [0,5]
                r = em.FluentExp(w.ff, [w.s])
            elif i == 2:  # the same, below another node
                r = em.Or(em.Not(em.FluentExp(w.ff, [w.s])), w.b)
            elif i == 3:  # the type checker divides by the constant divisor 3 - 3 (below another node)
                r = em.LE(em.Div(w.x, em.Minus(3, 3)), 2)
            else:         # the same with the rejected node on top
                r = em.Div(w.x, em.Minus(3, 3))
            # a node that the constructor hands out has a type: constructing and typing are told apart
            try:
                t = tkey(r.type)
            except _expected_exceptions() as ex:
                t = ("type-raises", type(ex).__name__)
            return ("ok", "expr+type", (skey(r), t))
        raise ValueError(name)
    except _expected_exceptions() as ex:
        return ("raise", type(ex).__name__)


def same_outcome(a, b):
    if a[0] != b[0]:
        return False
    if a[0] == "raise":
        return a[1] == b[1]
    if a[1] == "set":
        return set_eq(a[2], b[2])
    return deep_eq(a[2], b[2])


def h_history(ctx, pool, n_calls, first=None, sym=True, sigmas=(2, 3, 4, 7, 12)):
    if ctx.mode == "sym":
        from vf import infshim

        infshim.install()
    sigma = ctx.int("sigma", -20, 30) if sym else sigmas[ctx.choice("sigma", len(sigmas))]
    A = _world(ctx, sigma)
    failed = None  # (kind, exception) of the first failing call of the history
    for k in range(n_calls):
        name = first if (k == 0 and first is not None) else pool[ctx.choice(f"call{k}", len(pool))]
        kind = name.split(":")[0]
        got = run_call(A, name)
        B = _world(ctx, sigma)
        want = run_call(B, name)
        if not same_outcome(got, want):
            cls = lambda o: o[1] if o[0] == "raise" else "ok"  # noqa: E731
            where = "afterfail" if failed else "nofail"
            ctx.fail(f"{where}:{kind}:{cls(got)}!={cls(want)}",
                     f"call #{k} {name} on the shared environment {'raised ' + got[1] if got[0] == 'raise' else 'returned'}"
                     f"{'' if got[0] == 'raise' else (' a different result' if want[0] == 'ok' else '')}, on a fresh environment it "
                     f"{'raises ' + want[1] if want[0] == 'raise' else 'returns'}"
                     + (f"; an earlier call of the history ({failed[0]}) had raised {failed[1]}" if failed else ""))
        if failed:
            ctx.witness("after-failure:" + ("ok" if got[0] == "ok" else "raise"))
        else:
            ctx.witness("ok" if got[0] == "ok" else "failing-call")
        if got[0] == "raise" and failed is None:
            failed = (kind, got[1])
    ctx.note("history-failed", failed)


FAILING_FIRST = ["sub:0:0", "sub:1:1", "sub:8:1", "simp:2", "simp:3", "ev:0", "ev:7", "qr:2", "build:1", "build:2", "build:3", "build:4"]
# substitutions that put the POINT type [c - sigma, c - sigma] under a Div make TypeChecker.walk_div divide a float by a symbolic int
# (a floating-point solver query that times out): those calls run with concrete sigma only (direct shards)
CONCRETE_ONLY = set()
POOLS = {
    "sub:0:0": ["sub:0:0", "sub:0:3", "sub:4:0", "sub:4:3", "simp:0", "type:4", "build:0"],
    "sub:1:1": ["sub:1:1", "sub:1:3", "sub:8:1", "sub:9:1", "simp:1", "type:8", "build:1"],
    "sub:8:1": ["sub:8:1", "sub:8:3", "sub:1:1", "sub:1:2", "simp:8", "build:2", "fl:0"],
    "simp:2": ["simp:2", "simp:9", "sub:2:2", "sub:9:3", "fv:2", "qr:5", "build:1"],
    "simp:3": ["simp:3", "simp:0", "sub:0:2", "simp:9", "type:0", "fl:0", "simp:4"],
    "ev:0": ["ev:0", "ev:9", "ev:5", "simp:0", "ev:6", "sub:0:0", "simp:9"],
    "ev:7": ["ev:7", "ev:9", "ev:5", "ev:6", "simp:9", "sub:9:2", "qr:6"],
    "qr:2": ["qr:2", "qr:5", "qr:6", "sub:2:2", "simp:2", "fv:5", "sub:9:3"],
    "build:1": ["build:1", "build:2", "sub:8:1", "sub:1:1", "type:8", "simp:8", "build:0"],
    "build:2": ["build:2", "build:1", "sub:1:1", "simp:1", "sub:9:2", "type:0", "fl:6"],
    "build:3": ["build:3", "build:0", "sub:0:0", "simp:0", "type:4", "sub:4:2", "simp:9"],
    "build:4": ["build:4", "build:3", "build:0", "simp:0", "type:4", "sub:4:2", "simp:9"],
}
NOFAIL_POOL = ["simp:0", "simp:9", "sub:0:3", "sub:9:2", "sub:4:3", "type:0", "fv:5", "fl:0", "qr:5", "qr:6", "ev:9", "ev:5", "build:0"]


def shards(tier, seed):
    out = []
    deep = tier != "quick"
    n = 4 if deep else 3
    for f in FAILING_FIRST:
        if f in CONCRETE_ONLY:
            continue
        pool = [c for c in POOLS[f] if c not in CONCRETE_ONLY][:6 if deep else 4]
        out.append(dict(name=f"sym-first-{f.replace(':', '_')}", fn="h_history", kwargs=dict(pool=pool, n_calls=n, first=f),
                        budget=900 if deep else 150, per_path=30))
    out.append(dict(name="sym-nofail", fn="h_history", kwargs=dict(pool=[c for c in NOFAIL_POOL if c not in CONCRETE_ONLY][:12 if deep else 6], n_calls=n - 1), budget=900 if deep else 100,
                    per_path=30))
    # one quantifier-removing walker asked about two object sets
    OBJSETS = ["qr:5", "qrb:5", "qr:6", "qrb:6", "qr:2", "qrb:2"]
    out.append(dict(name="sym-objsets", fn="h_history", kwargs=dict(pool=OBJSETS if deep else ["qr:2", "qrb:2", "qr:5", "qrb:5"], n_calls=n if deep else 2), budget=900 if deep else 150, per_path=30))
    out.append(dict(name="direct-objsets", fn="h_history", kwargs=dict(pool=OBJSETS, n_calls=n, sym=False), budget=2700 if deep else 600, engine="direct"))
    # concrete sigma, real dict, direct engine: every call of the history is a choice
    for f in FAILING_FIRST:
        # (the direct engine's budget is wall time; the machine is shared)
        out.append(dict(name=f"direct-{f.replace(':', '_')}", fn="h_history", kwargs=dict(pool=POOLS[f][:7 if deep else 6], n_calls=n, sym=False),
                        budget=2700 if deep else 600, engine="direct"))
    return out


MANIFEST = dict(
    engine="symex",
    technique="symbolic execution (CrossHair/z3) of call histories on the shared walkers of one environment with a symbolic constant that decides which calls fail mid-walk; "
              "every call compared with the same call on a fresh environment (structural keys)",
    text="Bounded model checking of history independence: every history of 3 (thorough: 4) walker calls drawn from the pool (simplify, substitute, type, free variables, fluent extraction, "
         "quantifier removal, state evaluation, construction) and EVERY value of the constant sigma in [-20,30] - the solver finds the values for which a substitution builds a zero divisor, "
         "an argument leaves its parameter's interval, or an evaluation divides by zero. Each call's outcome (result structure or exception type) must equal that of the same call on a fresh environment.",
    note="Trusted: the structural key, CrossHair's int model, z3, S2 association-list tables. Walker internals (stack, memoization) are not inspected: a dirty walker is reported through a later wrong answer or exception.",
)
