"""C24 Effect conflict detection is order independent and exception safe.

Symbolic: the value of every numeric effect of the collection (solver integers; whether two
assigned values coincide decides assign/assign conflicts and is decided by the solver at the
hash-consing lookup / constant comparison).  Structure by choice variables: the collection
(which effect templates), the insertion order (a permutation), the timing of a durative action
/ of the problem's timed effects.
Real code: add_effect / add_increase_effect / add_decrease_effect / set_simulated_effect /
add_timed_effect of InstantaneousAction, Event, DurativeAction (at a timing) and Problem (timed
effects), check_conflicting_effects, check_conflicting_simulated_effects.
Assertions (relational; no model of the conflict rule itself is needed):
  * order independence: "some insertion of the collection is rejected" has the same truth value
    in the chosen permutation and in the reference order;
  * an accepted insertion appends exactly that effect (sets exactly that simulated effect);
  * a rejected insertion leaves the stored effects and simulated effects untouched, and EVERY
    candidate next insertion (assign/increase/decrease, conditional or not, on every fluent, with
    every value of the collection and a fresh one, every simulated effect) is accepted/rejected
    exactly as on a fresh container that only received the accepted insertions.
"""
import itertools

PROPERTY = "C24"
LEVEL = "model_checking"
FUNCTIONS = [
    "unified_planning.model.effect:check_conflicting_effects",
    "unified_planning.model.effect:check_conflicting_simulated_effects",
    "unified_planning.model.transition:UntimedEffectMixin.add_effect",
    "unified_planning.model.transition:UntimedEffectMixin.add_increase_effect",
    "unified_planning.model.transition:UntimedEffectMixin.add_decrease_effect",
    "unified_planning.model.transition:UntimedEffectMixin._add_effect_instance",
    "unified_planning.model.transition:UntimedEffectMixin.set_simulated_effect",
    "unified_planning.model.mixins.timed_conds_effs:TimedCondsEffs.add_effect",
    "unified_planning.model.mixins.timed_conds_effs:TimedCondsEffs.add_increase_effect",
    "unified_planning.model.mixins.timed_conds_effs:TimedCondsEffs.add_decrease_effect",
    "unified_planning.model.mixins.timed_conds_effs:TimedCondsEffs._add_effect_instance",
    "unified_planning.model.mixins.timed_conds_effs:TimedCondsEffs.set_simulated_effect",
    "unified_planning.model.problem:Problem.add_timed_effect",
    "unified_planning.model.problem:Problem.add_increase_effect",
    "unified_planning.model.problem:Problem.add_decrease_effect",
    "unified_planning.model.problem:Problem._add_effect_instance",
]
BOUNDS = ("fluents x, y: int[-100,100], r: real[-100,100], b: bool, o: user type with 2 objects, c: bool (conditions); collections of <= 3 effects "
          "(+ optionally one simulated effect) from the templates assign / increase / decrease / conditional assign / conditional increase / "
          "assign a fluent expression / assign real k/2 / Boolean assign / object assign, on the same or on different fluents; every numeric value a solver "
          "integer in [1,9] (<= 3 per path); every permutation; containers: InstantaneousAction, Event, DurativeAction at start / end / start+d "
          "(d in 0..2) with an optional effect at another timing, Problem timed effects at global start+d; quick: all pairs of templates "
          "(with and without a simulated effect) on InstantaneousAction, reduced template lists on the other containers, the triples over "
          "assign/increase/conditional-assign on x; thorough: all pairs on every container and simulated effect, all triples over 7 templates")
OUTSIDE = ("more than 3 effects plus a simulated effect; quantified (forall) effects; parameterised fluents; continuous effects of processes; "
           "values outside [1,9] (conflicts only depend on which values coincide)")
ASSUMPTIONS = ["the candidate next insertions are a finite list (every effect template on every fluent with every value of the collection and one fresh "
               "value, every simulated effect), not all expressions",
               "a copy of a container is obtained by replaying its whole insertion history (accepted and rejected) on a new container; "
               "a copy on which a candidate was rejected is reused for the next candidate",
               "when a path has both an order-dependence and an exception-safety failure the former is reported"]

NUM_LO, NUM_HI = 1, 9  # disjoint from every constant the library or the harness creates (0, ONE, FRESH): no accidental node sharing
FRESH = 77
ONE = 55


# ------------------------------------------------------------------------------------------------
# world
# ------------------------------------------------------------------------------------------------
class World:
    pass


def _world(ctx, env, kind, timing, with_other, delay_hi=2):
    import warnings

    import unified_planning as up
    from unified_planning.model import EndTiming, GlobalStartTiming, StartTiming, Timing

    warnings.simplefilter("ignore")
    w = World()
    w.env, w.kind, w.ctx = env, kind, ctx
    em, tm = env.expression_manager, env.type_manager
    w.em = em
    with ctx.untraced():
        it = tm.IntType(-100, 100)
        loc = tm.UserType("Loc")
        fl = dict(
            x=up.model.Fluent("x", it, environment=env), y=up.model.Fluent("y", it, environment=env),
            r=up.model.Fluent("r", tm.RealType(-100, 100), environment=env),
            b=up.model.Fluent("b", tm.BoolType(), environment=env), c=up.model.Fluent("c", tm.BoolType(), environment=env),
            o=up.model.Fluent("o", loc, environment=env),
        )
        w.fl = {k: em.FluentExp(f) for k, f in fl.items()}
        w.fluents = fl
        w.objs = [em.ObjectExp(up.model.Object(f"o{i}", loc, env)) for i in (1, 2)]
        w.fresh = em.Int(FRESH)
        w.one = em.Int(ONE)
    # timing of the collection (durative action / problem); the delay is a solver integer (Timing is a dict key: realised)
    w.timing = w.other = None
    if kind == "da":
        if timing == "start":
            w.timing = StartTiming()
        elif timing == "end":
            w.timing = EndTiming()
        else:
            w.timing = StartTiming(ctx.concrete(ctx.int("delay", 0, delay_hi)))
        w.other = StartTiming(5) if with_other else None
    elif kind == "pb":
        w.timing = GlobalStartTiming(ctx.concrete(ctx.int("delay", 0, delay_hi)))
        w.other = GlobalStartTiming(5) if with_other else None
    return w


def _new_container(w):
    import unified_planning as up

    env = w.env
    if w.kind == "ia":
        return up.model.InstantaneousAction("a", _env=env)
    if w.kind == "ev":
        return up.model.Event("e", _env=env)
    if w.kind == "da":
        return up.model.DurativeAction("d", _env=env)
    if w.kind == "pb":
        p = up.model.Problem("p", env)
        for f in w.fluents.values():
            p.add_fluent(f)
        return p
    raise ValueError(w.kind)


def _snapshot(w, C):
    """Stored effects (identity of the Effect objects) and simulated effects, as comparable plain data."""
    if w.kind in ("ia", "ev"):
        return ([id(e) for e in C.effects], id(C.simulated_effect) if C.simulated_effect is not None else None)
    if w.kind == "da":
        return (sorted((str(t), [id(e) for e in es]) for t, es in C.effects.items() if es),
                sorted((str(t), id(s)) for t, s in C.simulated_effects.items()))
    return (sorted((str(t), [id(e) for e in es]) for t, es in C.timed_effects.items() if es), None)


def _effects_at(w, C, timing):
    if w.kind in ("ia", "ev"):
        return list(C.effects)
    if w.kind == "da":
        return list(C.effects.get(timing, []))
    return list(C.timed_effects.get(timing, []))


# ------------------------------------------------------------------------------------------------
# operations
# ------------------------------------------------------------------------------------------------
class Op:
    """One insertion: kind in A(ssign) I(ncrease) D(ecrease) S(imulated); fluent key; value node; conditional; at the other timing."""

    def __init__(self, kind, fluent, value=None, cond=False, other=False, sim=None, label=""):
        self.kind, self.fluent, self.value, self.cond, self.other, self.sim, self.label = kind, fluent, value, cond, other, sim, label

    def __repr__(self):
        return self.label


def _apply(w, C, op):
    """True = accepted, False = rejected with UPConflictingEffectsException.  Anything else propagates."""
    from unified_planning.exceptions import UPConflictingEffectsException

    timing = w.other if op.other else w.timing
    try:
        if op.kind == "S":
            if w.kind in ("ia", "ev"):
                C.set_simulated_effect(op.sim)
            else:
                C.set_simulated_effect(timing, op.sim)
            return True
        f = w.fl[op.fluent]
        cond = w.fl["c"] if op.cond else True
        if w.kind in ("ia", "ev"):
            meth = dict(A=C.add_effect, I=C.add_increase_effect, D=C.add_decrease_effect)[op.kind]
            meth(f, op.value, cond)
        elif w.kind == "da":
            meth = dict(A=C.add_effect, I=C.add_increase_effect, D=C.add_decrease_effect)[op.kind]
            meth(timing, f, op.value, cond)
        else:
            meth = dict(A=C.add_timed_effect, I=C.add_increase_effect, D=C.add_decrease_effect)[op.kind]
            meth(timing, f, op.value, cond)
        return True
    except UPConflictingEffectsException:
        return False


def _rebuild(w, history):
    C = _new_container(w)
    for op in history:
        _apply(w, C, op)
    return C


def _sim(w, keys):
    from unified_planning.model import SimulatedEffect

    return SimulatedEffect([w.fl[k] for k in keys], _sim_fun)


def _sim_fun(problem, state, params):
    return []


def _make_op(ctx, w, tpl, i, budget):
    """tpl: 'A:x' 'I:x' 'D:x' 'cA:x' 'cI:x' 'Ay:x' (x := y) 'Ah:r' (r := k/2) 'B:b:1' 'O:o:1' 'S:xy' ; suffix '@o' = at the other timing."""
    from fractions import Fraction

    other = tpl.endswith("@o")
    if other:
        tpl = tpl[:-2]
    parts = tpl.split(":")
    k, f = parts[0], parts[1]
    em = w.em
    lab = f"{tpl}{'@o' if other else ''}#{i}"
    if k == "S":
        return Op("S", None, sim=_sim(w, list(f)), other=other, label=lab)
    if k == "B":
        return Op("A", f, em.Bool(parts[2] == "1"), other=other, label=lab)
    if k == "cB":
        return Op("A", f, em.Bool(parts[2] == "1"), cond=True, other=other, label=lab)
    if k == "O":
        return Op("A", f, w.objs[int(parts[2]) - 1], other=other, label=lab)
    if k == "Ay":
        return Op("A", f, w.fl["y" if f != "y" else "x"], other=other, label=lab)
    # numeric value: a solver integer while the budget of symbolic values lasts
    if budget[0] > 0:
        budget[0] -= 1
        n = ctx.int(f"v{i}", NUM_LO, NUM_HI)
    else:
        n = ONE
    if k == "Ah":
        return Op("A", f, em.Real(Fraction(n, 2)), other=other, label=lab)
    val = em.Int(n)
    kind = dict(A="A", I="I", D="D", cA="A", cI="I", cD="D")[k]
    return Op(kind, f, val, cond=k.startswith("c"), other=other, label=lab)


def _candidates(w, ops, with_sim):
    """The finite list of 'every possible next insertion'."""
    em = w.em
    vals = []
    for op in ops:
        if op.kind == "A" and op.fluent in ("x", "y", "r") and op.value is not None and op.value.is_constant() and all(op.value is not v for v in vals):
            vals.append(op.value)
    touched = [k for k in ("x", "y", "r") if any(op.fluent == k or (op.kind == "S" and k in [str(f.fluent().name) for f in op.sim.fluents]) for op in ops)]
    if not touched:
        touched = ["x"]
    out = []
    for f in touched:
        for j, v in enumerate(vals + [w.fresh]):
            if f != "r" and not v.type.is_int_type():
                continue  # a real constant is not assignable to an int fluent (type error, not a conflict)
            out.append(Op("A", f, v, label=f"cand:A:{f}:v{j}"))
        out.append(Op("A", f, w.fl["y" if f != "y" else "x"], label=f"cand:Ay:{f}"))
        out.append(Op("I", f, w.one, label=f"cand:I:{f}"))
        out.append(Op("D", f, w.one, label=f"cand:D:{f}"))
        out.append(Op("A", f, w.fresh, cond=True, label=f"cand:cA:{f}"))
    if any(op.fluent == "b" for op in ops):
        out.append(Op("A", "b", em.TRUE(), label="cand:B:1"))
        out.append(Op("A", "b", em.FALSE(), label="cand:B:0"))
    if any(op.fluent == "o" for op in ops):
        out.append(Op("A", "o", w.objs[0], label="cand:O:1"))
        out.append(Op("A", "o", w.objs[1], label="cand:O:2"))
    if with_sim:
        for keys in (["x"], ["y"], ["x", "y"], ["b"], ["o"], ["r"]):
            if len(keys) == 1 and keys[0] in ("o", "r", "b") and not any(op.fluent == keys[0] for op in ops):
                continue
            if keys == ["x", "y"] and "y" not in touched:
                continue
            out.append(Op("S", None, sim=_sim(w, keys), label=f"cand:S:{''.join(keys)}"))
    if w.other is not None:
        out.append(Op("A", touched[0], w.fresh, other=True, label="cand:A@o"))
        out.append(Op("I", touched[0], w.one, other=True, label="cand:I@o"))
    return out


# ------------------------------------------------------------------------------------------------
# the harness
# ------------------------------------------------------------------------------------------------
def h_collection(ctx, container, colls, timing="start", n_sym=3, with_other=False, delay_hi=2):
    """colls: list of collections (lists of templates); which one is a choice variable; so is the insertion order."""
    env = ctx.fresh_env()
    coll = colls[ctx.choice("coll", len(colls))]
    w = _world(ctx, env, container, timing, with_other or any(t.endswith("@o") for t in coll), delay_hi)
    has_sim = container != "pb"
    budget = [n_sym]
    ops = [_make_op(ctx, w, t, i, budget) for i, t in enumerate(coll)]
    order = ctx.perm("perm", list(range(len(ops))))
    desc = f"{container} collection {coll} order {order}"

    deferred = []  # exception-safety failures are reported after the order-independence verdict (a known one must not mask it)

    def run(seq, checks):
        C = _new_container(w)
        history, accepted, rejected_any = [], [], False
        for i in seq:
            op = ops[i]
            if checks:
                before = _snapshot(w, C)
                n_before = len(_effects_at(w, C, w.other if op.other else w.timing))
            ok = _apply(w, C, op)
            history.append(op)
            if ok:
                accepted.append(op)
                if checks:
                    effs = _effects_at(w, C, w.other if op.other else w.timing)
                    if op.kind == "S":
                        if len(effs) != n_before:
                            ctx.fail("accepted:effects-changed-by-simulated", f"set_simulated_effect changed the effects ({desc})")
                    elif not (len(effs) == n_before + 1 and effs[-1].value is op.value and effs[-1].fluent is w.fl[op.fluent]):
                        ctx.fail("accepted:not-appended", f"accepted insertion {op} is not the last stored effect ({desc})")
                continue
            rejected_any = True
            if not checks or deferred:
                continue
            if _snapshot(w, C) != before:
                ctx.fail("rejected:effects-changed", f"rejected insertion {op} changed the stored effects ({desc})")
            # judged as if it had never been attempted: stale = copy of this container, fresh = only the accepted insertions
            stale_c = fresh_c = None
            for cand in _candidates(w, ops, has_sim):
                if stale_c is None:
                    stale_c = _rebuild(w, history)
                if fresh_c is None:
                    fresh_c = _rebuild(w, accepted)
                stale = _apply(w, stale_c, cand)
                fresh = _apply(w, fresh_c, cand)
                if stale:
                    stale_c = None  # the candidate went in: take a new copy for the next candidate
                if fresh:
                    fresh_c = None
                if stale != fresh:
                    deferred.append((f"rejected:{_short(op)}:next-{_short(cand)}-judged-differently",
                                     f"after the rejected insertion {op} (history {history}), next insertion {cand} is "
                                     f"{'accepted' if stale else 'rejected'}, but a fresh container holding only the accepted insertions {accepted} "
                                     f"{'accepts' if fresh else 'rejects'} it ({desc})"))
                    break
            ctx.witness("rejected-insertion")
        return rejected_any

    got = run(order, True)
    ref = run(list(range(len(ops))), False)
    if got != ref:
        ctx.fail("order-dependent", f"in order {order} {'some' if got else 'no'} insertion is rejected, in the listed order "
                 f"{'some' if ref else 'none'} ({desc})")
    ctx.witness("conflict" if got else "conflict-free")
    if deferred:
        ctx.fail(*deferred[0])


def _short(op):
    return op.label.split("#")[0].replace("cand:", "")


# ------------------------------------------------------------------------------------------------
# shards
# ------------------------------------------------------------------------------------------------
T_ALL = ["A:x", "A:y", "I:x", "D:x", "cA:x", "cI:x", "Ay:x", "Ah:r", "B:b:1", "O:o:1"]
T_X = ["A:x", "I:x", "cA:x", "A:y"]


def _multisets(ts, k):
    return [list(c) for c in itertools.combinations_with_replacement(ts, k)]


def _second(c):
    """B:b:1,B:b:1 -> B:b:1,B:b:0 ; O likewise (two different constants)"""
    out, seen = [], set()
    for t in c:
        if t in seen and t.endswith(":1"):
            t = t[:-1] + ("0" if t.startswith("B") else "2")
        seen.add(t)
        out.append(t)
    return out


def _chunks(lst, n):
    k = (len(lst) + n - 1) // n
    return [lst[i:i + k] for i in range(0, len(lst), k)]


def shards(tier, seed):
    out = []

    def sh(name, budget, **kw):
        out.append(dict(name=name, fn="h_collection", kwargs=kw, budget=budget, per_path=60))

    pairs = [_second(c) for c in _multisets(T_ALL, 2)]
    triples_x = _multisets(T_X, 3)
    if tier == "quick":
        b = 150
        sh("ia-pairs", b, container="ia", colls=pairs)
        for i, ch in enumerate(_chunks(pairs, 5)):
            sh(f"ia-pairs-Sx-{i}", b, container="ia", colls=[c + ["S:x"] for c in ch])
        sh("ia-pairs-Sy", b, container="ia", colls=[c + ["S:y"] for c in _multisets(["A:y", "I:y", "cA:y", "A:x"], 2)])
        sh("ia-pairs-Sxy-Sb", b, container="ia", colls=[c + ["S:xy"] for c in _multisets(["A:y", "I:x", "cI:x"], 2)] + [["B:b:1", "B:b:0", "S:b"], ["cB:b:1", "A:x", "S:b"]])
        tx = _multisets(["A:x", "I:x", "cA:x"], 3) + [["A:x", "A:x", "A:y"], ["A:x", "I:x", "A:y"]]
        for i, ch in enumerate(_chunks(tx, 3)):
            sh(f"ia-triples-{i}", b, container="ia", colls=ch)
        t4 = [["A:x", "A:x", "A:x"], ["A:x", "A:x", "I:x"], ["A:x", "I:x", "cA:x"], ["I:x", "I:x", "cA:x"]]
        tsx = [["A:x", "A:x", "I:x", "S:x"], ["A:x", "I:x", "cA:x", "S:x"], ["I:x", "I:x", "A:y", "S:x"], ["A:x", "A:y", "cI:x", "S:xy"]]
        for i, c in enumerate(tsx):
            sh(f"ia-triples-S-{i}", b, container="ia", colls=[c])
        sh("ev-pairs-Sx", b, container="ev", colls=[c + ["S:x"] for c in _multisets(["A:x", "I:x", "cI:x", "A:y"], 2)])
        sh("da-pairs", b, container="da", timing="delay", delay_hi=2, colls=_multisets(["A:x", "I:x", "D:x", "cA:x", "Ay:x", "A:x@o"], 2))
        for tmg in ("start", "end"):
            sh(f"da-{tmg}-pairs-Sx", b, container="da", timing=tmg, colls=[c + ["S:x"] for c in _multisets(["A:x", "I:x", "cI:x", "A:y", "I:x@o"], 2)])
        sh("da-triples", b, container="da", timing="start", colls=t4)
        pbp = _multisets(["A:x", "I:x", "D:x", "cA:x", "Ay:x", "Ah:r", "O:o:1", "A:x@o"], 2)
        for i, ch in enumerate(_chunks([_second(c) for c in pbp], 2)):
            sh(f"pb-pairs-{i}", b, container="pb", delay_hi=1, colls=ch)
        sh("pb-triples", b, container="pb", delay_hi=0, colls=t4)
    else:
        b = 900
        t7 = _multisets(["A:x", "I:x", "D:x", "cA:x", "cI:x", "A:y", "Ay:x"], 3)
        for cont in ("ia", "ev", "da", "pb"):
            sims = [None] if cont == "pb" else [None, "S:x", "S:y", "S:xy"]
            for s in sims:
                tag = "" if s is None else "-" + s.replace(":", "")
                for i, ch in enumerate(_chunks(pairs, 2 if s is None else 6)):
                    sh(f"{cont}-pairs{tag}-{i}", b, container=cont, timing="delay", colls=[c + ([s] if s else []) for c in ch])
            if cont != "ev":
                for i, ch in enumerate(_chunks(t7, 6)):
                    sh(f"{cont}-triples-{i}", b, container=cont, timing="start", delay_hi=0, colls=ch)
        for i, ch in enumerate(_chunks(triples_x, 5)):
            sh(f"ia-triples-Sx-{i}", b, container="ia", colls=[c + ["S:x"] for c in ch])
            sh(f"da-triples-Sx-{i}", b, container="da", timing="end", colls=[c + ["S:x"] for c in ch])
        for i, ch in enumerate(_chunks(_multisets(["A:x", "I:x", "cA:x", "A:x@o", "I:x@o", "S:x@o"], 3), 6)):
            sh(f"da-two-timings-{i}", b, container="da", timing="end", colls=[c + ["S:x"] for c in ch])
    return out


MANIFEST = dict(
    engine="symex",
    technique="symbolic execution (CrossHair/z3) of the effect-insertion API with symbolic effect values; relational assertions between a permuted and a reference insertion order and between a container after a rejected insertion and a fresh container holding the accepted insertions",
    text="Bounded model checking: for every collection of <= 3 effects (+ a simulated effect) from the stated templates, EVERY value of the numeric effect values in [1,9] (the solver decides which coincide), every permutation and "
         "each of InstantaneousAction / Event / DurativeAction timing / Problem timed effects: rejection is order independent; a rejected insertion leaves stored effects unchanged and every candidate next insertion is judged "
         "as on a fresh container holding only the accepted insertions.",
    note="Trusted: CrossHair's int model, z3, S2 association-list hash-consing tables. The candidate next insertions are a finite list (ASSUMPTIONS). Outside: forall effects, parameterised fluents, continuous effects.",
)
