"""C35 Simulated execution environment is faithful to its contingent problem.

Explored / solver variables: the shape of the hidden-fluent constraints (unknown / oneof / or, with positive and negated
literals), where each visible fluent gets its initial value from (explicit value, per-fluent default, per-type default,
nothing), the Boolean values themselves, and THE RANDOM CHOICE: the module-level name `random` inside
unified_planning.model.contingent.execution_environment is replaced (for the duration of the constructor call, restored
in a finally) by a stub whose choice(seq) returns seq[i] for a choice variable 0 <= i < len(seq) -- randomness as an
arbitrary value constrained only by its contract, hence "every seed".  Then a sequence of <= 2 ground action instances
(sensing and ordinary) by choice.
Real code: SimulatedExecutionEnvironment.__init__/_get_stateless_deterministic_problem_clone/
_randomly_set_full_initial_state/apply/is_goal_reached, all_smt (pysmt + z3, concrete), UPSequentialSimulator underneath.
Oracle: (a) own evaluation of every oneof/or constraint on the hidden state the environment chose; (b) the declared initial
value of every non-hidden ground fluent computed from the generator's own record (explicit > per-fluent default > per-type
default); (c) an independently built deterministic twin problem (plain Problem, every ground fluent explicit, sensing
actions as effect-free actions) run by UPSequentialSimulator: applicability (UPUsageError iff inapplicable), every ground
fluent after every step, observations == current values of the sensed fluents (and {} for ordinary actions), goal verdict.
"""
PROPERTY = "C35"
LEVEL = "model_checking"
FUNCTIONS = [
    "unified_planning.model.contingent.execution_environment:SimulatedExecutionEnvironment.__init__",
    "unified_planning.model.contingent.execution_environment:SimulatedExecutionEnvironment._get_stateless_deterministic_problem_clone",
    "unified_planning.model.contingent.execution_environment:SimulatedExecutionEnvironment._randomly_set_full_initial_state",
    "unified_planning.model.contingent.execution_environment:SimulatedExecutionEnvironment.apply",
    "unified_planning.model.contingent.execution_environment:SimulatedExecutionEnvironment.is_goal_reached",
    "unified_planning.model.contingent.execution_environment:all_smt",
    "unified_planning.model.contingent.contingent_problem:ContingentProblem.add_oneof_initial_constraint",
    "unified_planning.model.contingent.contingent_problem:ContingentProblem.add_or_initial_constraint",
    "unified_planning.model.contingent.contingent_problem:ContingentProblem.add_unknown_initial_constraint",
    "unified_planning.engines.sequential_simulator:UPSequentialSimulator._apply",
]
BOUNDS = ("one user type with 2 objects; fluents h(T), g (hidden candidates), v, w(T) Boolean and n:int[0,10] visible; 10 constraint shapes "
          "over unknown/oneof/or with <= 3 hidden atoms (positive and negated literals, partially hidden parameterised fluent); initial value "
          "of each visible fluent from explicit / per-fluent default / per-type default / (Booleans) both truth values; hidden fluents "
          "optionally carrying an explicit value or default of their own; every model index the environment can draw; sequences of <= 2 "
          "ground instances of a sensing action (two observed fluents), an ordinary action with conditional, increase and Boolean effects, "
          "an action reading a hidden fluent in its precondition")
OUTSIDE = ("max_constraints; unsatisfiable constraint sets; trajectory constraints / timed effects of the contingent problem; numeric or "
           "object-valued hidden fluents; fluents with no declared initial value at all (the text declares nothing for them); more than "
           "2 steps; real-valued fluents")
ASSUMPTIONS = ["`random` inside execution_environment is a stub: choice(seq) = seq[i], i a choice variable over range(len(seq)); the other "
               "functions of the module are not used by the code (the stub raises if they are)",
               "the hidden state the environment chose and the values of visible fluents are read from its simulator state "
               "(SimulatedExecutionEnvironment._state) through State.get_value; observations / goal verdicts through the public API",
               "pysmt + z3 enumerate the models concretely (S6)"]

SHAPES = {
    0: "unknown(g)",
    1: "oneof(h(o1), h(o2))",
    2: "or(h(o1), h(o2))",
    3: "oneof(h(o1), h(o2)); unknown(g)",
    4: "or(h(o1), g); oneof(h(o2), g)",
    5: "unknown(h(o1)); or(not h(o1), h(o2))",
    6: "oneof(not h(o1), h(o2))  (negated literal whose atom is hidden only through it)",
    7: "no constraint",
    8: "unknown(h(o1))  (h(o2) stays visible)",
    9: "oneof(h(o1), h(o2), g); or(not g, h(o2)); unknown(g)",
}
# where a visible fluent's initial value comes from
MODES = ("explicit", "fluent-default", "type-default")


class _Rand:
    """stand-in for the `random` module inside execution_environment"""

    def __init__(self, ctx):
        self._ctx = ctx
        self.calls = 0
        self.sizes = []

    def choice(self, seq):
        seq = list(seq)
        if not seq:
            raise IndexError("Cannot choose from an empty sequence")  # random.choice's own behaviour
        i = self._ctx.choice(f"rand{self.calls}", len(seq))
        self.calls += 1
        self.sizes.append(len(seq))
        return seq[i]

    def seed(self, *a, **k):
        return None

    def __getattr__(self, name):
        from vf.ctx import HarnessError

        raise HarnessError(f"execution_environment uses random.{name}, which the stub does not model")


class G:
    pass


def _spec(ctx, shape, modes, tdef, hidden_init):
    """draw the Boolean values; returns the generator's own record of the problem"""
    s = G()
    s.shape = shape
    s.modes = dict(modes)  # fluent name -> mode
    s.bool_type_default = tdef  # None / False / True
    s.int_type_default = 4 if "type-default" == modes.get("n") else None
    s.val = {}
    for name in ("v", "w"):
        s.val[name] = bool(ctx.choice(f"val_{name}", 2)) if modes[name] != "type-default" else None
    s.val["w_o1"] = bool(ctx.choice("val_w_o1", 2)) if modes["w"] == "fluent-default" and ctx.choice("w_o1_explicit", 2) else None
    s.val["n"] = {"explicit": 2, "fluent-default": 3, "type-default": None}[modes["n"]]
    s.hidden_init = hidden_init  # None / "explicit" / "default": hidden fluents carry a value of their own (ignored by the environment)
    return s


def _constraints(shape, lit):
    """list of (kind, [literals]) with literals (atom, positive)"""
    h1, h2, g = ("h", "o1"), ("h", "o2"), ("g",)
    P, N = True, False
    return {
        0: [("unknown", [(g, P)])],
        1: [("oneof", [(h1, P), (h2, P)])],
        2: [("or", [(h1, P), (h2, P)])],
        3: [("oneof", [(h1, P), (h2, P)]), ("unknown", [(g, P)])],
        4: [("or", [(h1, P), (g, P)]), ("oneof", [(h2, P), (g, P)])],
        5: [("unknown", [(h1, P)]), ("or", [(h1, N), (h2, P)])],
        6: [("oneof", [(h1, N), (h2, P)])],
        7: [],
        8: [("unknown", [(h1, P)])],
        9: [("oneof", [(h1, P), (h2, P), (g, P)]), ("or", [(g, N), (h2, P)]), ("unknown", [(g, P)])],
    }[shape]


def _build(env, s, contingent, full_init=None):
    """the contingent problem (contingent=True) or the deterministic twin (False, every ground fluent explicit from full_init)"""
    from unified_planning.model import Fluent, InstantaneousAction, Object, Problem
    from unified_planning.model.contingent import ContingentProblem, SensingAction

    em, tm = env.expression_manager, env.type_manager
    b = G()
    T = tm.UserType("T")
    b.objs = [Object("o1", T, env), Object("o2", T, env)]
    o = {x.name: em.ObjectExp(x) for x in b.objs}
    IT = tm.IntType(0, 10)
    fl = dict(h=Fluent("h", tm.BoolType(), environment=env, x=T), g=Fluent("g", tm.BoolType(), environment=env),
              v=Fluent("v", tm.BoolType(), environment=env), w=Fluent("w", tm.BoolType(), environment=env, x=T),
              n=Fluent("n", IT, environment=env))
    b.fl = fl

    def fexp(atom):
        return em.FluentExp(fl[atom[0]], [o[a] for a in atom[1:]])

    b.fexp = fexp
    b.atoms = [("h", "o1"), ("h", "o2"), ("g",), ("v",), ("w", "o1"), ("w", "o2"), ("n",)]
    if contingent:
        tdefs = {}
        if s.bool_type_default is not None:
            tdefs[tm.BoolType()] = em.Bool(s.bool_type_default)
        if s.int_type_default is not None:
            tdefs[IT] = em.Int(s.int_type_default)
        P = ContingentProblem("c", env, initial_defaults=tdefs)
        for name in ("h", "g"):
            dv = em.TRUE() if s.hidden_init == "default" else None
            P.add_fluent(fl[name], default_initial_value=dv)
        for name in ("v", "w", "n"):
            dv = None
            if s.modes[name] == "fluent-default":
                dv = em.Int(s.val[name]) if name == "n" else em.Bool(s.val[name])
            P.add_fluent(fl[name], default_initial_value=dv)
    else:
        P = Problem("twin", env)
        for name in ("h", "g", "v", "w", "n"):
            P.add_fluent(fl[name])
    P.add_objects(b.objs)
    # actions ------------------------------------------------------------------------------------------
    if contingent:
        sense = SensingAction("sense", _env=env, x=T)
    else:
        sense = InstantaneousAction("sense", _env=env, x=T)
    x = em.ParameterExp(sense.parameter("x"))
    sense.add_precondition(em.FluentExp(fl["v"]))
    if contingent:
        sense.add_observed_fluent(em.FluentExp(fl["h"], [x]))
        sense.add_observed_fluent(em.FluentExp(fl["g"]))
    act = InstantaneousAction("act", _env=env, x=T)
    x = em.ParameterExp(act.parameter("x"))
    act.add_precondition(em.Or(em.FluentExp(fl["h"], [x]), em.FluentExp(fl["w"], [x])))
    act.add_effect(em.FluentExp(fl["w"], [x]), em.TRUE())
    act.add_effect(em.FluentExp(fl["h"], [x]), em.FALSE(), em.FluentExp(fl["g"]))
    act.add_increase_effect(em.FluentExp(fl["n"]), em.Int(1))
    tog = InstantaneousAction("tog", _env=env)
    tog.add_precondition(em.Not(em.FluentExp(fl["g"])))
    tog.add_effect(em.FluentExp(fl["v"]), em.Not(em.FluentExp(fl["v"])))
    tog.add_effect(em.FluentExp(fl["g"]), em.TRUE())
    for a in (sense, act, tog):
        P.add_action(a)
    b.actions = dict(sense=sense, act=act, tog=tog)
    P.add_goal(em.FluentExp(fl["w"], [o["o1"]]))
    P.add_goal(em.Or(em.FluentExp(fl["h"], [o["o2"]]), em.GE(em.FluentExp(fl["n"]), em.Int(2))))
    # initial state -------------------------------------------------------------------------------------
    if contingent:
        if s.modes["v"] == "explicit":
            P.set_initial_value(fexp(("v",)), em.Bool(s.val["v"]))
        if s.modes["w"] == "explicit":
            P.set_initial_value(fexp(("w", "o1")), em.Bool(s.val["w"]))
            P.set_initial_value(fexp(("w", "o2")), em.Bool(not s.val["w"]))
        elif s.val["w_o1"] is not None:
            P.set_initial_value(fexp(("w", "o1")), em.Bool(s.val["w_o1"]))
        if s.modes["n"] == "explicit":
            P.set_initial_value(fexp(("n",)), em.Int(s.val["n"]))
        if s.hidden_init == "explicit":
            for atom in (("h", "o1"), ("h", "o2"), ("g",)):
                P.set_initial_value(fexp(atom), em.TRUE())
        for kind, lits in _constraints(s.shape, None):
            exps = [fexp(a) if pos else em.Not(fexp(a)) for a, pos in lits]
            if kind == "unknown":
                P.add_unknown_initial_constraint(exps[0])
            elif kind == "oneof":
                P.add_oneof_initial_constraint(exps)
            else:
                P.add_or_initial_constraint(exps)
    else:
        for atom in b.atoms:
            val = full_init[atom]
            P.set_initial_value(fexp(atom), em.Int(val) if atom == ("n",) else em.Bool(val))
    b.P = P
    return b


def _declared(s, atom):
    """(value, source) the generator declared for a ground fluent; (None, None) if nothing was declared"""
    name = atom[0]
    if name in ("h", "g"):
        if s.hidden_init == "explicit":
            return True, "explicit"
        if s.hidden_init == "default":
            return True, "fluent-default"
        if s.bool_type_default is not None:
            return s.bool_type_default, "type-default"
        return None, None
    mode = s.modes[name]
    if name == "n":
        if mode == "type-default":
            return s.int_type_default, "type-default"
        return s.val["n"], mode
    if mode == "explicit":
        if name == "w":
            return (s.val["w"] if atom[1] == "o1" else (not s.val["w"])), "explicit"
        return s.val[name], "explicit"
    if mode == "fluent-default":
        if atom == ("w", "o1") and s.val["w_o1"] is not None:
            return s.val["w_o1"], "explicit"
        return s.val[name], "fluent-default"
    return s.bool_type_default, ("type-default" if s.bool_type_default is not None else None)


def _hidden_atoms(shape):
    out = []
    for _k, lits in _constraints(shape, None):
        for a, _pos in lits:
            if a not in out:
                out.append(a)
    return out


def _pyval(fnode):
    return fnode.constant_value() if fnode.is_constant() else fnode


def _make_env(ctx, P):
    """construct the real environment with the random stub in place; returns (environment, stub)"""
    import unified_planning.model.contingent.execution_environment as ee_mod
    from unified_planning.model.contingent import SimulatedExecutionEnvironment

    stub = _Rand(ctx)
    saved = ee_mod.random
    ee_mod.random = stub
    try:
        ee = SimulatedExecutionEnvironment(P)
    finally:
        ee_mod.random = saved
    return ee, stub


def _check_initial(ctx, s, c, ee, stub):
    """(a) constraints on the chosen hidden state, (b) declared values of the non-hidden ground fluents.  Returns the full state."""
    hidden = _hidden_atoms(s.shape)
    state = {}
    for atom in c.atoms:
        state[atom] = _pyval(ee._state.get_value(c.fexp(atom)))
    ctx.check(stub.calls == 1, "init:random-calls", f"the environment drew {stub.calls} random choices for one hidden state")
    for kind, lits in _constraints(s.shape, None):
        vals = [state[a] if pos else (not state[a]) for a, pos in lits]
        if kind == "oneof":
            ctx.check(sum(1 for x in vals if x) == 1, "init:oneof-violated",
                      f"hidden state {[(a, state[a]) for a in hidden]} violates oneof{lits} (shape {SHAPES[s.shape]})")
        elif kind == "or":
            ctx.check(any(vals), "init:or-violated",
                      f"hidden state {[(a, state[a]) for a in hidden]} violates or{lits} (shape {SHAPES[s.shape]})")
    if hidden:
        ctx.witness("hidden-state-satisfies-constraints")
    for atom in c.atoms:
        if atom in hidden:
            continue
        want, src = _declared(s, atom)
        if src is None:
            continue  # nothing declared: the text says nothing
        got = state[atom]
        ctx.check(type(got) is type(want) and got == want, f"init:value[{src}]",
                  f"non-hidden fluent {atom} starts with {got!r} in the environment; the problem declares {want!r} ({src})")
        ctx.witness(f"declared-{src}")
    return state


def h_init(ctx, shape, tdef=None, hidden_init=None, modes=None):
    """initial state only: every combination of value sources of the visible fluents, every model index"""
    env = ctx.fresh_env()
    if modes is None:
        modes = dict(v=ctx.pick("mode_v", MODES), w=ctx.pick("mode_w", MODES), n=ctx.pick("mode_n", MODES))
    s = _spec(ctx, shape, modes, tdef, hidden_init)
    c = _build(env, s, True)
    ee, stub = _make_env(ctx, c.P)
    _check_initial(ctx, s, c, ee, stub)
    ctx.note("shape", SHAPES[shape])
    ctx.note("models", stub.sizes)


def h_run(ctx, shape, modes, tdef=None, hidden_init=None, steps=2):
    """initial state + action sequence against the deterministic twin"""
    from unified_planning.engines.sequential_simulator import UPSequentialSimulator
    from unified_planning.exceptions import UPUsageError
    from unified_planning.plans import ActionInstance

    env = ctx.fresh_env()
    em = env.expression_manager
    s = _spec(ctx, shape, modes, tdef, hidden_init)
    c = _build(env, s, True)
    ee, stub = _make_env(ctx, c.P)
    state = _check_initial(ctx, s, c, ee, stub)
    # the twin starts from the declared values of the visible fluents and the hidden state the environment chose
    # (where nothing is declared: whatever the environment has)
    hidden = _hidden_atoms(shape)
    full = {}
    for atom in c.atoms:
        want, src = (None, None) if atom in hidden else _declared(s, atom)
        full[atom] = state[atom] if src is None else want
    t = _build(env, s, False, full_init=full)
    sim = UPSequentialSimulator(t.P, error_on_failed_checks=False)
    ts = sim.get_initial_state()
    ctx.check(ee.is_goal_reached() == sim.is_goal(ts), "goal:initial", "is_goal_reached differs from the twin in the initial state")
    ground = [("sense", "o1"), ("sense", "o2"), ("act", "o1"), ("act", "o2"), ("tog",)]
    for k in range(steps):
        name, *args = ground[ctx.choice(f"step{k}", len(ground))]
        params = tuple(em.ObjectExp(next(o for o in c.objs if o.name == a)) for a in args)
        ai = ActionInstance(c.actions[name], params)
        ts1 = sim.apply(ts, t.actions[name], params)
        try:
            obs = ee.apply(ai)
            raised = False
        except UPUsageError:
            obs, raised = None, True
        if ts1 is None:
            ctx.check(raised, f"apply:{name}:accepted-inapplicable", f"step {k}: {name}{args} is inapplicable in the twin, the environment applied it")
            ctx.witness("inapplicable")
        else:
            ctx.check(not raised, f"apply:{name}:rejected-applicable", f"step {k}: {name}{args} is applicable in the twin, the environment raised UPUsageError")
            ts = ts1
            ctx.witness("applied")
        ctx.check(ee._state is not None, f"apply:{name}:state-lost",
                  f"step {k}: after {name}{args} ({'refused' if raised else 'applied'}) the environment has no current state")
        for atom in c.atoms:
            got, want = _pyval(ee._state.get_value(c.fexp(atom))), _pyval(ts.get_value(t.fexp(atom)))
            ctx.check(type(got) is type(want) and got == want, f"apply:{name}:state",
                      f"step {k}: after {name}{args} fluent {atom} is {got!r} in the environment, {want!r} in the twin")
        if not raised:
            if name == "sense":
                exp = {c.fexp(("h", args[0])): ts.get_value(t.fexp(("h", args[0]))), c.fexp(("g",)): ts.get_value(t.fexp(("g",)))}
                ctx.check(set(obs.keys()) == set(exp.keys()), "apply:sense:observed-keys",
                          f"step {k}: observation keys {sorted(map(str, obs))} != sensed fluents {sorted(map(str, exp))}")
                for fe, val in exp.items():
                    ctx.check(obs[fe] is val, "apply:sense:observed-value",
                              f"step {k}: observed {fe} = {obs[fe]}, its current value is {val}")
                ctx.witness("observation")
            else:
                ctx.check(obs == {}, f"apply:{name}:observation-nonempty", f"step {k}: ordinary action returned observations {obs}")
        ctx.check(ee.is_goal_reached() == sim.is_goal(ts), f"goal:after-{name}", f"step {k}: is_goal_reached differs from the twin after {name}{args}")
    ctx.note("shape", SHAPES[shape])


def shards(tier, seed):
    out = []
    quick = tier == "quick"
    bud = 200 if quick else 900
    E = dict(v="explicit", w="explicit", n="explicit")
    TD = dict(v="type-default", w="type-default", n="type-default")
    FD = dict(v="fluent-default", w="fluent-default", n="fluent-default")
    MIX = dict(v="explicit", w="type-default", n="explicit")
    shapes_all = sorted(SHAPES)
    # (1) initial state: all mode combinations (3^3) x Boolean values x model index; one shard per (shape, type default)
    for shape in shapes_all:
        out.append(dict(name=f"init-shape{shape}-tdefNone", fn="h_init", kwargs=dict(shape=shape, tdef=None), budget=bud, engine="direct"))
    for tdef in (False, True):
        for shape in (shapes_all if not quick else (3, 9)):
            out.append(dict(name=f"init-shape{shape}-tdef{tdef}", fn="h_init", kwargs=dict(shape=shape, tdef=tdef), budget=bud, engine="direct"))
    for hi in ("explicit", "default"):
        out.append(dict(name=f"init-shape3-hidden-{hi}", fn="h_init", kwargs=dict(shape=3, tdef=False, hidden_init=hi, modes=E), budget=bud, engine="direct"))
    # (2) runs against the twin
    runs = [("explicit", E, None, (3, 4, 5, 8)), ("typedef", TD, True, (3, 8)), ("mix", MIX, False, (3,)), ("fluentdef", FD, None, (3,))]
    for tag, modes, tdef, qshapes in runs:
        for shape in (qshapes if quick else shapes_all):
            out.append(dict(name=f"run-{tag}-shape{shape}", fn="h_run", kwargs=dict(shape=shape, modes=modes, tdef=tdef, steps=2 if quick else 3),
                            budget=bud, engine="direct"))
    out.append(dict(name="run-explicit-shape3-hidden-explicit", fn="h_run",
                    kwargs=dict(shape=3, modes=E, tdef=None, hidden_init="explicit", steps=2), budget=bud, engine="direct"))
    return out


MANIFEST = dict(
    engine="direct",
    technique="bounded-exhaustive exploration (re-execution DFS over choice variables) of the real execution environment with its random "
              "choice replaced by a choice variable; oracle = own constraint evaluation, declared-value record, and the real sequential "
              "simulator on an independently built deterministic twin",
    text="Bounded model checking: for each constraint shape, each source of the initial value of each visible fluent (explicit, per-fluent "
         "default, per-type default), each Boolean value, EVERY model the environment can draw (the random choice is a variable ranging over "
         "the whole list handed to random.choice) and every sequence of <= 2 (thorough 3) ground actions: the chosen hidden state satisfies all "
         "oneof/or constraints, visible fluents start with their declared values, apply/observations/is_goal_reached agree with the sequential "
         "simulator on the twin.",
    note="Trusted: the stub's reading of random.choice's contract, UPSequentialSimulator (C01) as the execution oracle on the twin, pysmt/z3 "
         "for model enumeration inside the real code. Solver role low: the variables are structural.",
)
