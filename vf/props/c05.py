"""C05 Time-triggered validation matches the reference temporal semantics.

Symbolic (<= 3 numerators per shard): start times, durations, duration-interval bounds, delays of intermediate
conditions/effects, times of timed effects/goals -- each a rational q + r/4 with q a solver integer and r fixed per
leaf (the other numeric leaves are fixed to values that keep every comparison two-sided).  Open/closed flags of
duration intervals and condition intervals are choice variables.
Real code: TimeTriggeredPlanValidator.validate on a real Problem with DurativeActions built from a declarative
temporal skeleton (this module), Boolean fluents b1..b3 and one bounded int fluent n.
Oracle: vf/refsem_t.py (plain Python over the same symbolic Fractions; forks on the order type of the happenings),
which implements the text of C05 and answers UNSPEC where the text is silent.
"""
from fractions import Fraction

from vf import refsem_t
from vf.timeutil import install_inf_shim, qfrac

PROPERTY = "C05"
LEVEL = "model_checking"
FUNCTIONS = [
    "unified_planning.engines.plan_validator:TimeTriggeredPlanValidator._validate",
    "unified_planning.engines.plan_validator:TimeTriggeredPlanValidator._states_in_interval",
    "unified_planning.engines.plan_validator:TimeTriggeredPlanValidator._apply_effects",
    "unified_planning.engines.plan_validator:TimeTriggeredPlanValidator._apply_effect",
    "unified_planning.engines.plan_validator:TimeTriggeredPlanValidator._instantiate_timing",
    "unified_planning.engines.plan_validator:TimeTriggeredPlanValidator._instantiate_interval",
    "unified_planning.engines.plan_validator:TimeTriggeredPlanValidator._check_condition",
    "unified_planning.model.timing:Timing.__init__",
    "unified_planning.model.timing:TimeInterval.__init__",
    "unified_planning.model.timing:DurationInterval.__init__",
]
BOUNDS = ("temporal skeletons (this module): <= 2 durative actions without parameters, <= 2 conditions and <= 2 effects each "
          "(at-start / at-end / over-all with open or closed ends / one delayed intermediate StartTiming(delay) or EndTiming()-delay), "
          "<= 1 timed effect, <= 1 timed goal, plans of <= 2 action instances (also the same action twice); Boolean fluents b1..b3 and "
          "n:int[-50,50]; <= 3 symbolic numerators per shard in the quick tier (shard kinds: both start times + one duration; a duration + its "
          "interval bounds; a delay or timed instant + one start + the duration it is measured against), values q + r/4 with q in a small "
          "window and r fixed per leaf; the open/closed flags the skeleton is about by choice variables.  Thorough: windows wider by 3, every "
          "open/closed flag free, the second duration symbolic too in the start-time shards (4 numerators)")
OUTSIDE = ("three or more overlapping actions, action parameters, fluent-dependent durations, real-valued fluents, simulated effects, "
           "state invariants and bounded-type violations (C04), quality metrics, denominators other than 1, 2, 4, GlobalEndTiming in timed goals")
ASSUMPTIONS = [
    "the reference semantics vf/refsem_t.py is the text of C05; where the text is silent the reference answers UNSPEC and nothing is compared: "
    "degenerate intervals (lower after upper, a point interval with an open end), an effect instant outside its action, two assignments of equal "
    "value to one fluent at one instant, opposite Boolean assignments by one action instance at one instant, assignment together with "
    "increase/decrease of one fluent at one instant",
    "timed goals are read like conditions (at an instant: in the state before the effects of that instant); the text only says they are 'honoured'",
    "a right-open end and a right-closed end of a non-degenerate interval demand the same states, because the state read at the end instant is the "
    "state before its effects",
    "numeric leaves are built as already normalised Fractions (q, (2q+1)/2, (4q+r)/4) so that gcd normalisation does not fork; symbolic delays and "
    "timed instants are non-integers (an integer-valued delay is stored as int by Timing and would be hashed)",
    "exact engine shim S7 (vf/timeutil.py): a symbolic int compared with +-inf answers the constant (TypeChecker.walk_plus)",
    "the int fluent stays inside its bounds on every path (bounded types are C04's subject); hash-consing tables keyed syntactically (S2')",
]


# ---------------------------------------------------------------------------------------------------------------
# spec -> real unified-planning objects

def _mk_expr(em, fl, e):
    k = e[0]
    if k == "b":
        x = em.FluentExp(fl[e[1]])
        return x if e[2] else em.Not(x)
    if k == "n<=":
        return em.LE(em.FluentExp(fl["n"]), em.Int(e[1]))
    if k == "n>=":
        return em.GE(em.FluentExp(fl["n"]), em.Int(e[1]))
    if k == "and":
        return em.And(_mk_expr(em, fl, e[1]), _mk_expr(em, fl, e[2]))
    if k == "or":
        return em.Or(_mk_expr(em, fl, e[1]), _mk_expr(em, fl, e[2]))
    if k == "true":
        return em.TRUE()
    raise ValueError(e)


def _mk_timing(tp, V):
    from unified_planning.model.timing import EndTiming, GlobalStartTiming, StartTiming

    kind, dl = tp
    if kind == "start":
        return StartTiming() if dl == 0 else StartTiming(V[dl])
    if kind == "end":
        return EndTiming() if dl == 0 else EndTiming() - V[dl]
    if kind == "global":
        return GlobalStartTiming(V[dl]) if dl != 0 else GlobalStartTiming()
    raise ValueError(tp)


def _add_effect(target, timing, em, fl, ef, cond=None):
    """target: DurativeAction or Problem (timed effect)"""
    if ef[0] == "when":
        c = _mk_expr(em, fl, ef[1])
        return _add_effect(target, timing, em, fl, ef[2], c if cond is None else em.And(cond, c))
    args = {} if cond is None else dict(condition=cond)
    is_problem = hasattr(target, "add_timed_effect")
    if ef[0] == "set":
        f, v = em.FluentExp(fl[ef[1]]), em.Bool(ef[2])
        return target.add_timed_effect(timing, f, v, **args) if is_problem else target.add_effect(timing, f, v, **args)
    if ef[0] == "asg":
        f, v = em.FluentExp(fl["n"]), em.Int(ef[1])
        return target.add_timed_effect(timing, f, v, **args) if is_problem else target.add_effect(timing, f, v, **args)
    if ef[0] == "inc":
        return target.add_increase_effect(timing, em.FluentExp(fl["n"]), em.Int(ef[1]), **args)
    if ef[0] == "dec":
        return target.add_decrease_effect(timing, em.FluentExp(fl["n"]), em.Int(ef[1]), **args)
    raise ValueError(ef)


def build_real(ctx, spec, V, flags):
    from unified_planning.exceptions import UPConflictingEffectsException, UPProblemDefinitionError, UPTypeError
    from unified_planning.model import DurativeAction, Fluent, Problem
    from unified_planning.model.timing import DurationInterval, TimeInterval
    from unified_planning.plans import ActionInstance, TimeTriggeredPlan

    env = ctx.fresh_env(hashcons="syntactic")
    em, tm = env.expression_manager, env.type_manager
    with ctx.untraced():
        fl = {name: Fluent(name, tm.BoolType(), environment=env) for name in ("b1", "b2", "b3")}
        fl["n"] = Fluent("n", tm.IntType(-50, 50), environment=env)
        prob = Problem("t", env)
        for name in ("b1", "b2", "b3", "n"):
            prob.add_fluent(fl[name])
            v = spec["init"][name]
            prob.set_initial_value(em.FluentExp(fl[name]), em.Bool(v) if isinstance(v, bool) else em.Int(v))
    flag = lambda f: flags[f] if isinstance(f, str) else bool(f)  # noqa: E731
    das = []
    try:
        for A in spec["actions"]:
            da = DurativeAction(A["name"], _env=env)
            D = A["dur"]
            da.set_duration_constraint(DurationInterval(em.Real(Fraction(V[D["lo"]])), em.Real(Fraction(V[D["hi"]])), flag(D["lopen"]), flag(D["ropen"])))
            for c in A.get("conds", []):
                iv = TimeInterval(_mk_timing(c["iv"][0], V), _mk_timing(c["iv"][1], V), flag(c["iv"][2]), flag(c["iv"][3]))
                da.add_condition(iv, _mk_expr(em, fl, c["e"]))
            for ef in A.get("effs", []):
                _add_effect(da, _mk_timing(ef["at"], V), em, fl, ef["e"])
            prob.add_action(da)
            das.append(da)
        for te in spec.get("timed_effects", []):
            _add_effect(prob, _mk_timing(["global", te["at"]], V), em, fl, te["e"])
        for g in spec.get("timed_goals", []):
            iv = TimeInterval(_mk_timing(g["iv"][0], V), _mk_timing(g["iv"][1], V), flag(g["iv"][2]), flag(g["iv"][3]))
            prob.add_timed_goal(iv, _mk_expr(em, fl, g["e"]))
        for g in spec.get("goals", []):
            prob.add_goal(_mk_expr(em, fl, g))
    except (UPTypeError, UPConflictingEffectsException, UPProblemDefinitionError):
        ctx.assume(False)  # the library refuses to build this model (e.g. an empty duration interval): it does not exist
    plan = TimeTriggeredPlan([(Fraction(V[st["s"]]), ActionInstance(das[st["a"]]), Fraction(V[st["d"]])) for st in spec["plan"]], env)
    return prob, plan, env


# ---------------------------------------------------------------------------------------------------------------

def h_temporal(ctx, spec, nums, flags=None):
    """nums: name -> quarter count (int, concrete value name/4) | ["sym", r, lo, hi] (value q + r/4, q symbolic in [lo,hi]);
    flags: name -> bool | "?" (choice variable)."""
    from unified_planning.engines.plan_validator import TimeTriggeredPlanValidator
    from unified_planning.engines.results import ValidationResultStatus

    install_inf_shim(ctx)
    V = {}
    for name in sorted(nums):
        v = nums[name]
        V[name] = qfrac(ctx.int(name, v[2], v[3]), v[1]) if isinstance(v, list) else Fraction(v, 4)
    F = {}
    for name in sorted(flags or {}):
        v = flags[name]
        F[name] = bool(ctx.choice(name, 2)) if v == "?" else bool(v)
    for a, op, b in spec.get("assume", []):  # keeps the skeleton well-formed (e.g. delay <= duration)
        x, y = V[a], (V[b] if isinstance(b, str) else Fraction(b, 4))
        ctx.assume(x <= y if op == "<=" else x < y)
    prob, plan, env = build_real(ctx, spec, V, F)
    tv = TimeTriggeredPlanValidator(environment=env)
    tv.skip_checks = True
    res = tv.validate(prob, plan)
    ctx.check(res.status in (ValidationResultStatus.VALID, ValidationResultStatus.INVALID), "status", f"status {res.status}")
    real = res.status.name
    verdict, reason = refsem_t.validate(spec, V, F)
    if verdict == refsem_t.UNSPEC:
        ctx.witness(f"unspecified:{reason}")
        return
    if real != verdict:
        detail = ""
        if ctx.mode == "replay":
            detail = f" values { {k: str(v) for k, v in V.items()} } flags {F}"
        ctx.fail(f"real-{real}-ref-{verdict}:{reason}",
                 f"TimeTriggeredPlanValidator says {real}, the reference temporal semantics says {verdict} ({reason}){detail}")
    ctx.witness(f"{verdict.lower()}:{reason.split(':')[0]}")


# ---------------------------------------------------------------------------------------------------------------
# temporal skeletons.  Time points: ["start"|"end", delay-name or 0]; intervals: [tp, tp, lopen, ropen] (flag: bool or flag name)

S, E = ["start", 0], ["end", 0]
INIT = dict(b1=False, b2=False, b3=False, n=0)


def _dur(p, lopen=None, ropen=None):
    lopen, ropen = lopen or p + ".lopen", ropen or p + ".ropen"
    return dict(lo=p + ".lo", hi=p + ".hi", lopen=lopen, ropen=ropen)


SPECS = {
    # light/mend (matchcellar shape): A lights (b2) from its start to its end, B needs the light over its whole execution
    "light": dict(
        init=dict(INIT, b1=True),
        actions=[
            dict(name="A", dur=_dur("A"),
                 conds=[dict(iv=[S, S, False, False], e=["b", "b1", True])],
                 effs=[dict(at=S, e=["set", "b2", True]), dict(at=E, e=["set", "b2", False])]),
            dict(name="B", dur=_dur("B"),
                 conds=[dict(iv=[S, E, "B.c.lopen", "B.c.ropen"], e=["b", "b2", True])],
                 effs=[dict(at=E, e=["set", "b3", True])]),
        ],
        goals=[["b", "b3", True]],
        plan=[dict(a=0, s="s1", d="d1"), dict(a=1, s="s2", d="d2")]),
    # at-end condition of A against at-start effect of B; at-start condition of B against at-end effect of A
    "handover": dict(
        init=dict(INIT, b1=True),
        actions=[
            dict(name="A", dur=_dur("A"),
                 conds=[dict(iv=[E, E, False, False], e=["b", "b1", True])],
                 effs=[dict(at=E, e=["set", "b2", True])]),
            dict(name="B", dur=_dur("B"),
                 conds=[dict(iv=[S, S, False, False], e=["b", "b2", False])],
                 effs=[dict(at=S, e=["set", "b1", False]), dict(at=E, e=["set", "b3", True])]),
        ],
        goals=[["b", "b3", True]],
        plan=[dict(a=0, s="s1", d="d1"), dict(a=1, s="s2", d="d2")]),
    # coinciding effects of two actions: assignments conflict, increases accumulate
    "clash": dict(
        init=dict(INIT),
        actions=[
            dict(name="A", dur=_dur("A"), conds=[],
                 effs=[dict(at=E, e=["set", "b1", True]), dict(at=E, e=["inc", 2])]),
            dict(name="B", dur=_dur("B"), conds=[dict(iv=[E, E, False, False], e=["n>=", 3])],
                 effs=[dict(at=S, e=["set", "b1", False]), dict(at=S, e=["inc", 1])]),
        ],
        goals=[["n>=", 3]],
        plan=[dict(a=0, s="s1", d="d1"), dict(a=1, s="s2", d="d2")]),
    # the same action twice (self overlap): a unit resource taken at start and released at end
    "twice": dict(
        init=dict(INIT),
        actions=[
            dict(name="A", dur=_dur("A"),
                 conds=[dict(iv=[S, S, False, False], e=["n<=", 0])],
                 effs=[dict(at=S, e=["inc", 1]), dict(at=E, e=["dec", 1])]),
        ],
        goals=[["n<=", 0]],
        plan=[dict(a=0, s="s1", d="d1"), dict(a=0, s="s2", d="d2")]),
    # over-all condition with open / closed ends on a fluent that ANOTHER action switches; no effect of A at its own start
    "overall": dict(
        init=dict(INIT),
        actions=[
            dict(name="A", dur=_dur("A"),
                 conds=[dict(iv=[S, E, "A.c.lopen", "A.c.ropen"], e=["b", "b1", True])],
                 effs=[dict(at=E, e=["set", "b3", True])]),
            dict(name="B", dur=_dur("B"), conds=[],
                 effs=[dict(at=S, e=["set", "b1", True]), dict(at=E, e=["set", "b1", False])]),
        ],
        goals=[["b", "b3", True]],
        plan=[dict(a=0, s="s1", d="d1"), dict(a=1, s="s2", d="d2")]),
    # delayed intermediate effect and condition
    "delay": dict(
        init=dict(INIT),
        actions=[
            dict(name="A", dur=_dur("A"),
                 conds=[dict(iv=[["start", "dl"], E, "A.c.lopen", False], e=["n>=", 1])],
                 effs=[dict(at=["start", "dl"], e=["inc", 1]), dict(at=E, e=["set", "b3", True])]),
            dict(name="B", dur=_dur("B"), conds=[dict(iv=[S, S, False, False], e=["n>=", 1])],
                 effs=[dict(at=["end", "dl2"], e=["dec", 1])]),
        ],
        goals=[["b", "b3", True]],
        assume=[["dl", "<=", "d1"], ["dl2", "<=", "d2"]],
        plan=[dict(a=0, s="s1", d="d1"), dict(a=1, s="s2", d="d2")]),
    # timed effect and timed goal against one action
    "timed": dict(
        init=dict(INIT),
        actions=[
            dict(name="A", dur=_dur("A"),
                 conds=[dict(iv=[S, E, "A.c.lopen", False], e=["b", "b1", True])],
                 effs=[dict(at=E, e=["set", "b2", True])]),
        ],
        timed_effects=[dict(at="te", e=["set", "b1", True])],
        timed_goals=[dict(iv=[["global", "tg1"], ["global", "tg2"], "G.lopen", "G.ropen"], e=["b", "b2", True])],
        goals=[["b", "b2", True]],
        assume=[["tg1", "<=", "tg2"]],
        plan=[dict(a=0, s="s1", d="d1")]),
    # conditional effect read in the state before the instant, together with the effect that changes its condition
    "when": dict(
        init=dict(INIT, b1=True),
        actions=[
            dict(name="A", dur=_dur("A"), conds=[],
                 effs=[dict(at=E, e=["when", ["b", "b1", True], ["set", "b3", True]])]),
            dict(name="B", dur=_dur("B"), conds=[],
                 effs=[dict(at=S, e=["set", "b1", False]), dict(at=E, e=["when", ["b", "b3", False], ["asg", 7]])]),
        ],
        goals=[["b", "b3", True], ["n<=", 0]],
        plan=[dict(a=0, s="s1", d="d1"), dict(a=1, s="s2", d="d2")]),
    # one action instance whose delayed assignment may coincide with its own at-end assignment (dl == duration),
    # and with the at-start assignment of a second action
    "selfclash": dict(
        init=dict(INIT),
        actions=[
            dict(name="A", dur=_dur("A"), conds=[],
                 effs=[dict(at=["start", "dl"], e=["asg", 1]), dict(at=E, e=["asg", 2])]),
            dict(name="B", dur=_dur("B"), conds=[dict(iv=[S, S, False, False], e=["n<=", 1])],
                 effs=[dict(at=S, e=["set", "b3", True]), dict(at=["end", "dl2"], e=["inc", 3])]),
        ],
        goals=[["n>=", 2]],
        assume=[["dl", "<=", "d1"], ["dl2", "<=", "d2"]],
        plan=[dict(a=0, s="s1", d="d1"), dict(a=1, s="s2", d="d2")]),
    # a condition between two delayed time points [start+dl, end-dl2] and an effect of the other action sweeping over it
    "window": dict(
        init=dict(INIT, b1=True),
        actions=[
            dict(name="A", dur=_dur("A"),
                 conds=[dict(iv=[["start", "dl"], ["end", "dl2"], "A.c.lopen", "A.c.ropen"], e=["b", "b1", True])],
                 effs=[dict(at=E, e=["set", "b3", True])]),
            dict(name="B", dur=_dur("B"), conds=[],
                 effs=[dict(at=S, e=["set", "b1", False]), dict(at=E, e=["set", "b1", True])]),
        ],
        goals=[["b", "b3", True]],
        plan=[dict(a=0, s="s1", d="d1"), dict(a=1, s="s2", d="d2")]),
    # a timed assignment against the effects of an action: different values at one instant conflict
    "timedclash": dict(
        init=dict(INIT),
        actions=[
            dict(name="A", dur=_dur("A"),
                 conds=[dict(iv=[S, S, False, False], e=["n<=", 0])],
                 effs=[dict(at=S, e=["set", "b1", True]), dict(at=E, e=["asg", 6])]),
        ],
        timed_effects=[dict(at="te", e=["asg", 5])],
        goals=[["n>=", 6]],
        plan=[dict(a=0, s="s1", d="d1")]),
}

# default (concrete) quarter counts: durations 2 (A) and 1.5 (B), wide closed duration intervals
BASE = {"s1": 4, "d1": 8, "s2": 8, "d2": 6, "A.lo": 4, "A.hi": 12, "B.lo": 2, "B.hi": 12, "dl": 2, "dl2": 2, "te": 2, "tg1": 12, "tg2": 16}


def _sym(r, lo, hi):
    return ["sym", r, lo, hi]


def _shard(name, spec, sym, flags=None, budget=110, **over):
    sp = SPECS[spec]
    used = set()

    def walk(x):
        if isinstance(x, dict):
            for v in x.values():
                walk(v)
        elif isinstance(x, list):
            for v in x:
                walk(v)
        elif isinstance(x, str) and x in BASE:
            used.add(x)

    walk(sp)
    nums = {k: BASE[k] for k in used}
    nums.update(over)
    nums.update(sym)
    fl = {}

    def walk_flags(x):
        if isinstance(x, dict):
            for k, v in x.items():
                if k in ("lopen", "ropen") and isinstance(v, str):
                    fl[v] = False
                walk_flags(v)
        elif isinstance(x, list):
            if len(x) == 4 and isinstance(x[0], list):
                for v in x[2:]:
                    if isinstance(v, str):
                        fl[v] = False
            for v in x:
                walk_flags(v)

    walk_flags(sp)
    fl.update(flags or {})
    return dict(name=name, fn="h_temporal", kwargs=dict(spec=sp, nums=nums, flags=fl), budget=budget, per_path=60)


def shards(tier, seed):
    out = []
    Q = "?"
    quick = tier == "quick"
    w = 0 if quick else 3           # thorough: wider windows
    # kind 1: both start times + one duration.  ints: all integers (every coincidence s1+d1 = s2, s1 = s2, e1 = e2... reachable);
    # mixed: s1 = q+1/4, d = q+1/2, s2 = q+3/4 (the end of A can meet the start of B, the starts never meet)
    ints = lambda d: {"s1": _sym(0, 0, 3 + w), "s2": _sym(0, 0, 4 + w), d: _sym(0, 1, 3 + w)}      # noqa: E731
    mixed = lambda d: {"s1": _sym(1, 0, 3 + w), "s2": _sym(3, 0, 4 + w), d: _sym(2, 0, 3 + w)}     # noqa: E731
    out.append(_shard("light-starts-int", "light", ints("d1"), flags={"B.c.lopen": Q, "B.c.ropen": Q}))
    out.append(_shard("light-starts-mixed", "light", mixed("d1"), flags={"B.c.lopen": Q}, d2=4))
    out.append(_shard("handover-starts-int", "handover", ints("d1")))
    out.append(_shard("handover-starts-mixed", "handover", mixed("d1")))
    out.append(_shard("clash-starts-int", "clash", ints("d1")))
    out.append(_shard("clash-starts-mixed", "clash", mixed("d1")))
    out.append(_shard("twice-starts-int", "twice", ints("d1"), d2=8, **{"A.lo": 2}))
    out.append(_shard("overall-starts-int", "overall", ints("d2"), flags={"A.c.lopen": Q, "A.c.ropen": Q}))
    out.append(_shard("overall-starts-mixed", "overall", {"s2": _sym(1, 0, 3 + w), "s1": _sym(3, 0, 4 + w), "d2": _sym(2, 0, 3 + w)},
                      flags={"A.c.lopen": Q}))
    out.append(_shard("when-starts-int", "when", ints("d1")))
    # kind 2: a duration + its interval bounds, open/closed ends by choice
    durs = lambda p, d: {d: _sym(1, 0, 3 + w), p + ".lo": _sym(1, 0, 2 + w), p + ".hi": _sym(1, 1, 3 + w)}   # noqa: E731
    out.append(_shard("light-durbounds-A", "light", durs("A", "d1"), flags={"A.lopen": Q, "A.ropen": Q}, s2=6, d2=2))
    out.append(_shard("twice-durbounds-A", "twice", durs("A", "d1"), flags={"A.lopen": Q, "A.ropen": Q}, s2=20))
    out.append(_shard("handover-durbounds-B", "handover", {"d2": _sym(0, 0, 3 + w), "B.lo": _sym(0, 0, 2 + w), "B.hi": _sym(2, 0, 3 + w)}, s2=12))
    # zero durations are legal when the lower bound is 0: start and end of A coincide
    out.append(_shard("handover-durbounds-A-zero", "handover", {"d1": _sym(0, 0, 2 + w), "A.lo": _sym(0, 0, 1 + w), "A.hi": _sym(0, 0, 2 + w)},
                      flags={"A.lopen": Q, "A.ropen": Q}, s1=8, s2=8))
    # kind 3: a delay / timed instant + one start (+ the duration the delay is measured against)
    out.append(_shard("delay-dl-s2-d1", "delay", dict(dl=_sym(1, 0, 2 + w), s2=_sym(1, 0, 3 + w), d1=_sym(1, 0, 2 + w)), flags={"A.c.lopen": Q}))
    out.append(_shard("delay-dl2-s1-d2", "delay", dict(dl2=_sym(2, 0, 1 + w), s1=_sym(0, 0, 3 + w), d2=_sym(0, 1, 3 + w)), s2=4))
    out.append(_shard("selfclash-dl-d1-s2", "selfclash", dict(dl=_sym(1, 0, 2 + w), d1=_sym(1, 0, 2 + w), s2=_sym(2, 0, 3 + w))))
    out.append(_shard("window-dl-dl2-s2", "window", dict(dl=_sym(1, 0, 2 + w), dl2=_sym(1, 0, 2 + w), s2=_sym(1, 0, 4 + w)),
                      flags={"A.c.lopen": Q, "A.c.ropen": Q}, d1=16, s1=1, d2=4))
    out.append(_shard("timed-te-s1-d1", "timed", dict(te=_sym(1, 0, 3 + w), s1=_sym(1, 0, 3 + w), d1=_sym(0, 1, 3 + w)), flags={"A.c.lopen": Q}))
    out.append(_shard("timed-goal-tg1-tg2-s1", "timed", dict(tg1=_sym(1, 0, 4 + w), tg2=_sym(1, 0, 4 + w), s1=_sym(1, 0, 2 + w)),
                      flags={"G.lopen": Q, "G.ropen": Q}, te=0))
    out.append(_shard("timedclash-te-s1-d1", "timedclash", dict(te=_sym(1, 0, 4 + w), s1=_sym(1, 0, 2 + w), d1=_sym(0, 1, 2 + w))))
    if not quick:
        # deeper: every flag free, and a fourth numerator (the second duration) in the start-time shards
        for sh in out:
            kw = sh["kwargs"]
            kw["flags"] = {k: Q for k in kw["flags"]}
            if "-starts-" in sh["name"]:
                other = "d2" if isinstance(kw["nums"].get("d1"), list) else "d1"
                kw["nums"][other] = _sym(2, 0, 3)
            sh["name"] += "-deep"
            sh["budget"] = 1500
    return out


MANIFEST = dict(
    engine="symex",
    technique="symbolic execution (CrossHair/z3) of the real TimeTriggeredPlanValidator on temporal skeleton problems whose start times, durations, duration bounds, delays and timed instants are symbolic rationals; the verdict is compared on every path (= order type of the happenings) with an independent plain-Python reference of the property text executed on the same symbolic values",
    text="Bounded model checking: for every temporal skeleton in the list, every choice of the open/closed flags left free and EVERY value of the (<= 3) symbolic numeric leaves in their windows, "
         "the validator's status equals the verdict of the reference temporal semantics, wherever the property text determines a verdict (otherwise UNSPEC, counted separately).",
    note="Trusted: vf/refsem_t.py (the reading of the property text, see ASSUMPTIONS), CrossHair's int/Fraction models, z3. Known finding: left-open condition intervals with no effect at their lower end are not checked in their first state.",
)
