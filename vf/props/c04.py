"""C04 Time-triggered and sequential validation agree on instantaneous plans.

Symbolic: the numeric leaves of the skeleton problem (<= 2 per shard: initial value, constants, bounds) and the
start time of every plan step, t_i = q_i + r_i/4 with q_i a solver integer (r_i in {0,1,2,3} fixed per shard or
chosen by a choice variable), constrained pairwise distinct.  The plan (length, ground instances) is chosen by
choice variables; the sequential plan is the same ActionInstance objects sorted by start time with ordinary
comparisons on the symbolic Fractions (the order type forks).
Real code: SequentialPlanValidator.validate and TimeTriggeredPlanValidator.validate on the same problem object.
Assertion: the two statuses are equal.  The property's precondition "the initial state satisfies its invariants"
is assumed: when the sequential validator raises UPProblemDefinitionError the path is pruned, after a solver
query against R (vf/refsem.py) that the initial state really violates invariants/bounds.
"""
from vf import gen
from vf.timeutil import install_inf_shim, qfrac

PROPERTY = "C04"
LEVEL = "model_checking"
FUNCTIONS = [
    "unified_planning.engines.plan_validator:TimeTriggeredPlanValidator._validate",
    "unified_planning.engines.plan_validator:TimeTriggeredPlanValidator._apply_effects",
    "unified_planning.engines.plan_validator:TimeTriggeredPlanValidator._apply_effect",
    "unified_planning.engines.plan_validator:TimeTriggeredPlanValidator._states_in_interval",
    "unified_planning.engines.plan_validator:TimeTriggeredPlanValidator._check_condition",
    "unified_planning.engines.plan_validator:SequentialPlanValidator._validate",
    "unified_planning.engines.sequential_simulator:UPSequentialSimulator.apply_unsafe",
    "unified_planning.engines.sequential_simulator:UPSequentialSimulator.get_unsatisfied_conditions",
    "unified_planning.engines.sequential_simulator:UPSequentialSimulator._get_initial_state",
]
BOUNDS = ("skeleton family G (vf/gen.py; only instantaneous actions, no timed effects/goals): 2 objects, fluents b, p(T), w(T):T, n:int "
          "(bounded/unbounded), u:int undefined; one or two actions, <= 3 effects each; <= 2 symbolic numeric leaves per shard in small "
          "windows; plans of 0..2 (quick) / 0..3 (thorough) ground action instances; start times q + r/4 with q a solver integer in "
          "[0,6] and the residue r in {0,1,2,3} fixed per step by the shard (quick; thorough: every residue by choice variables for plans "
          "<= 2), pairwise distinct, every order type")
OUTSIDE = ("longer plans, larger problems, simulated effects, quality metrics, denominators other than 1, 2, 4, "
           "non-distinct start times (excluded by the property)")
ASSUMPTIONS = ["problems whose initial state violates invariants/bounds are assumed away, as the property states (checked against R per path)",
               "hash-consing tables keyed syntactically for symbolic constants (S2'); counterexamples are replayed with the real tables",
               "start times are built as already normalised Fractions (numerator and denominator coprime by construction: "
               "q, (2q+1)/2, (4q+1)/4, (4q+3)/4) so that Fraction's gcd normalisation does not fork; every multiple of 1/4 in the window "
               "is still covered by the four residue classes",
               "exact engine shim S7 (vf/timeutil.py): a symbolic int compared with +-inf answers the constant (TypeChecker.walk_plus on "
               "the Plus node the time-triggered validator builds for an increase effect)",
               "validators run with skip_checks=True (the supported-kind test is not the subject)"]


_X_CONDS = {2, 3, 6, 10, 11, 12}
_X_EFFS = {7, 10, 14, 15}


def _uses_x(sk):
    """per action of the skeleton: does any of its templates mention the action parameter?"""
    specs = [(sk.get("pre", []), sk["effs"], sk.get("effcond", 2))]
    if sk.get("second_action"):
        specs.append((sk.get("pre2", []), sk["second_action"], sk.get("effcond2", 0)))
    return [bool(set(pre) & _X_CONDS) or bool(set(effs) & _X_EFFS) or (bool(set(effs) & {1, 5, 9, 14, 16}) and ec in _X_CONDS)
            for pre, effs, ec in specs]


def _n_instances(sk):
    return sum(2 if u else 1 for u in _uses_x(sk))


def _instances(g, sk):
    """ground instances; when no template of an action mentions its parameter only (action, o1) is kept"""
    out = []
    for a, uses_x in zip(g.actions, _uses_x(sk)):
        for o in (g.objs[:2] if uses_x else g.objs[:1]):
            out.append((a, o))
    return out


def _diagnose(ctx, prob, tt, seq_valid):
    """a short stable cause for the signature of a disagreement (only evaluated on failing paths)"""
    from unified_planning.exceptions import UPStateMissingFluentError
    from unified_planning.model.walkers.state_evaluator import StateEvaluator

    if seq_valid:
        msg = tt.log_messages[0].message if tt.log_messages else ""
        if "Conflicting" in msg:
            return "tt-conflicting-effects"
        if "undefined" in msg:
            return "tt-undefined-fluent"
        return "tt-" + (tt.reason.name.lower() if tt.reason is not None else "none")
    # sequential INVALID, time-triggered VALID: look for the first state of the time-triggered trace that breaks a bound/invariant
    se = StateEvaluator(prob)
    em = prob.environment.expression_manager
    times = sorted(tt.trace)
    for i, t in enumerate(times):
        st = tt.trace[t]
        where = "final" if i == len(times) - 1 else ("initial" if i == 0 else "inner")
        for f in prob.fluents:
            ty = f.type
            if (ty.is_int_type() or ty.is_real_type()) and not f.signature and (ty.lower_bound is not None or ty.upper_bound is not None):
                try:
                    v = st.get_value(em.FluentExp(f)).constant_value()
                except UPStateMissingFluentError:
                    return f"undefined-bounded-fluent@{where}"
                if (ty.lower_bound is not None and v < ty.lower_bound) or (ty.upper_bound is not None and v > ty.upper_bound):
                    return f"bounded-type-not-enforced@{where}"
        for inv in prob.state_invariants:
            try:
                ok = se.evaluate(inv, st).bool_constant_value()
            except UPStateMissingFluentError:
                ok = False
            if not ok:
                return f"state-invariant-not-enforced@{where}"
    return "other"


def h_agree(ctx, sk, min_len, max_len, res, qmax=6, first=None):
    from unified_planning.engines.plan_validator import SequentialPlanValidator, TimeTriggeredPlanValidator
    from unified_planning.engines.results import ValidationResultStatus
    from unified_planning.exceptions import UPProblemDefinitionError
    from unified_planning.plans import ActionInstance, SequentialPlan, TimeTriggeredPlan
    from vf.refsem import Ref

    install_inf_shim(ctx)
    g = gen.build(ctx, sk)
    prob, em, env = g.problem, g.em, g.env
    instances = _instances(g, sk)
    n = min_len + ctx.choice("len", max_len - min_len + 1)
    steps = [instances[first if (i == 0 and first is not None) else ctx.choice(f"s{i}", len(instances))] for i in range(n)]
    ais = [ActionInstance(a, (em.ObjectExp(o),)) for a, o in steps]
    ts = []
    for i in range(n):
        r = res[i] if res is not None else ctx.choice(f"r{i}", 4)
        ts.append(qfrac(ctx.int(f"q{i}", 0, qmax), r))
    for i in range(n):
        for j in range(i):
            ctx.assume(ts[i] != ts[j])
    order = sorted(range(n), key=lambda i: ts[i])  # symbolic comparisons: forks on the order type
    seq_plan = SequentialPlan([ais[i] for i in order], env)
    tt_plan = TimeTriggeredPlan([(ts[i], ais[i], None) for i in range(n)], env)

    sv = SequentialPlanValidator(environment=env)
    sv.skip_checks = True
    try:
        seq = sv.validate(prob, seq_plan)
    except UPProblemDefinitionError:
        ctx.forall(lambda: (Ref(prob).initial_ok(), {}), None, "rejected-well-defined-problem",
                   "SequentialPlanValidator raised UPProblemDefinitionError although the initial state satisfies invariants and bounds")
        ctx.assume(False)  # the property assumes a well-defined initial state
        return
    tv = TimeTriggeredPlanValidator(environment=env)
    tv.skip_checks = True
    tt = tv.validate(prob, tt_plan)
    ok_status = (ValidationResultStatus.VALID, ValidationResultStatus.INVALID)
    ctx.check(seq.status in ok_status and tt.status in ok_status, "status", f"statuses {seq.status} / {tt.status}")
    seq_valid = seq.status == ValidationResultStatus.VALID
    tt_valid = tt.status == ValidationResultStatus.VALID
    if seq_valid != tt_valid:
        cause = _diagnose(ctx, prob, tt, seq_valid)
        detail = ""
        if ctx.mode == "replay":  # concrete values: safe to print
            detail = (f" instances {[(a.name, o.name) for a, o in steps]} at start times {[str(t) for t in ts]} "
                      f"(sequential order {[int(i) for i in order]})")
        ctx.fail(f"seq-{seq.status.name}-tt-{tt.status.name}:{cause}",
                 f"sequential validation says {seq.status.name}, time-triggered validation says {tt.status.name} for the same action "
                 f"instances at pairwise distinct start times; cause: {cause}{detail}")
    ctx.witness(f"{'valid' if seq_valid else 'invalid'}-len{n}")
    ctx.note("skeleton", gen.describe(sk))
    ctx.note("order", [int(i) for i in order])


# (skeleton, [sym lists]) -- all actions instantaneous, no timed effects / goals
SKS = [
    (dict(pre=[4], effs=[2, 1], effcond=4, n_bounds="both", goal=[0]), [["x0", "d"], ["d", "ub"]]),          # 0 increase across the upper bound
    (dict(pre=[], effs=[4, 5], effcond=0, goal=[5]), [["c1", "c2"]]),                                          # 1 two assignments, equal or different values
    (dict(pre=[2], effs=[0, 1], effcond=2, inv=[1], goal=[0]), [[]]),                                          # 2 add-after-delete + Boolean invariant
    (dict(pre=[13], effs=[8], inv=[0], n_bounds="both", goal=[5]), [["x0", "d"], ["d", "c3"]]),               # 3 numeric invariant + bounds
    (dict(pre=[9], effs=[12], goal=[0]), [["x0"]]),                                                            # 4 undefined read in a precondition
    (dict(pre=[], effs=[11, 12], goal=[9]), [["x0", "c1"]]),                                                   # 5 u becomes defined, goal reads it
    (dict(pre=[12], effs=[17, 12], goal=[0]), [["x0"]]),                                                       # 6 effect value reads an undefined fluent
    (dict(pre=[4], effs=[2], second_action=[3, 12], pre2=[5], n_bounds="both", goal=[0]), [["x0", "d"], ["c", "lb"], ["d"]]),  # 7 two actions: order matters
    (dict(pre=[3], effs=[7, 12], goal=[10], w_init="any"), [[]]),                                              # 8 object fluent
    (dict(pre=[1], effs=[2, 9, 3], effcond=0, n_bounds="upper", goal=[4]), [["x0", "d"]]),                    # 9 inc/dec accumulate, half-bounded type
    (dict(pre=[11], effs=[14, 15], effcond=10, goal=[11], w_init="any"), [[]]),                                # 10 nested fluent, conditional object assignment
    (dict(pre=[], effs=[5, 16, 0], effcond=4, n_bounds="both", goal=[1]), [["x0", "c2"], ["d2", "lb"]]),       # 11 conditional assign + decrease
    (dict(pre=[], effs=[7, 14], effcond=0, goal=[10], w_init="id"), [[]]),                                     # 12 two object assignments, possibly the same value
    (dict(pre=[], effs=[3, 12], n_bounds="upper", goal=[0], values={"x0": -1}), [["d", "ub"]]),                # 13 a single upper bound around 0
    (dict(pre=[], effs=[2, 12], n_bounds="lower", goal=[0], values={"x0": 1}), [["d", "lb"]]),                 # 14 a single lower bound around 0
    (dict(pre=[], effs=[12, 0], goal=[0]), [[]]),                                                              # 15 add listed BEFORE delete on one Boolean fluent
    (dict(pre=[], effs=[10, 15], goal=[2]), [[]]),                                                             # 16 the same on a parameterised fluent
]

_WIDE = {2: 1, 6: 1, 7: 2, 8: 1, 12: 1}  # skeleton index -> number of first-step splits of the length-2 shard
_RES = [[1, 2, 0], [0, 0, 0], [3, 1, 1], [2, 2, 3]]


def shards(tier, seed):
    out = []
    if tier == "quick":
        # (skeleton, index of its sym list, which plan lengths: "all" | "short" (0..1) | "long" (2))
        plan = [(0, 0, "all"), (0, 1, "all"), (1, 0, "all"), (2, 0, "all"), (3, 0, "all"), (3, 1, "all"), (4, 0, "all"), (5, 0, "all"),
                (6, 0, "all"), (7, 0, "short"), (7, 2, "long"), (7, 1, "all"), (8, 0, "all"), (9, 0, "all"), (11, 0, "all"), (12, 0, "all"),
                (13, 0, "all"), (14, 0, "all"), (15, 0, "all"), (16, 0, "all")]
        for j, (i, s, mode) in enumerate(plan):
            sk, syms = SKS[i]
            skd = dict(sk, sym=syms[s])
            res = _RES[j % len(_RES)]
            name = f"sk{i:02d}-{'-'.join(syms[s]) or 'nosym'}"
            mk = lambda suffix, **kw: dict(name=f"{name}-{suffix}", fn="h_agree", kwargs=dict(sk=skd, res=res, **kw), budget=110, per_path=40)  # noqa: E731
            if i not in _WIDE:
                out.append(mk("len0to2", min_len=0, max_len=2))
                continue
            # wide skeletons (many Boolean initial values / instances / numeric forks) are cut by plan length, the widest also by the first step
            if mode in ("all", "short"):
                out.append(mk("len0to1", min_len=0, max_len=1))
            if mode in ("all", "long"):
                if _WIDE[i] == 1:
                    out.append(mk("len2", min_len=2, max_len=2))
                else:
                    for f in range(_WIDE[i]):
                        out.append(mk(f"len2-first{f}", min_len=2, max_len=2, first=f))
    else:
        for i, (sk, syms) in enumerate(SKS):
            for sym in syms:
                skd = dict(sk, sym=sym)
                tag = f"sk{i:02d}-{'-'.join(sym) or 'nosym'}"
                # every residue class of every start time (choice variables) for plans of length <= 2 ...
                out.append(dict(name=f"{tag}-len0to2-anyres", fn="h_agree", kwargs=dict(sk=skd, min_len=0, max_len=2, res=None),
                                budget=1500, per_path=60))
                # ... and length 3 (6 order types) cut by the first step, one fixed residue pattern per shard
                for f in range(_n_instances(skd)):
                    out.append(dict(name=f"{tag}-len3-first{f}", fn="h_agree",
                                    kwargs=dict(sk=skd, min_len=3, max_len=3, res=_RES[(i + f) % len(_RES)], first=f), budget=1500, per_path=60))
    return out


MANIFEST = dict(
    engine="symex",
    technique="symbolic execution (CrossHair/z3) of the real SequentialPlanValidator and TimeTriggeredPlanValidator on the same skeleton problem and the same action instances; start times are symbolic rationals q + r/4, the sequential order is obtained by sorting them with symbolic comparisons; differential assertion on the two statuses",
    text="Bounded model checking: for every skeleton, every plan up to the length bound over the ground instances, every value of the symbolic numeric leaves and every assignment of pairwise distinct start times (every order type), "
         "the time-triggered verdict equals the sequential verdict of the instances in start-time order. Initial states that violate invariants or bounds are assumed away (checked against R).",
    note="Trusted: CrossHair's int/Fraction models, z3; R only for the initial-state precondition. Known findings (bounded types and final-state invariants not enforced by the time-triggered validator, equal-valued double assignment rejected) are listed in known_findings.txt.",
)
