"""C22 Problem cloning yields an equal, independent copy that accepts the same edits.

Symbolic / explored: the class of the start problem (Problem, ContingentProblem, HierarchicalProblem,
MultiAgentProblem), which optional constructs it holds before it is cloned (timed increase, timed
assignment, timed goal, trajectory constraint, action-cost metric with default, epsilon), a history of
model-building operations chosen by ctx.choice (operation kind and operands), which side is edited
(both / only the original / only the clone).  In the symex shards the delay of every timing used by an
operation is (2k+1)/8 with k a solver variable and assigned values are solver integers, so "same time point
as the existing timed increase" and "same value as the existing assignment" are decided by the solver
at the real dict lookups / conflict checks.
Real code: clone of the four classes (+ Action/DurativeAction/SensingAction/Agent/TaskNetwork clone),
__eq__/__hash__/kind, the public add_*/set_* API, check_conflicting_effects.
Oracle: the property itself -- raised-on-original <=> raised-on-clone with the same exception type,
original == clone (both directions), hash equal, kinds equal after every operation; in the one-sided
mode the untouched side must keep (a) an independent structural fingerprint taken through the public
accessors before the edits and (b) == with a fresh clone of itself taken before the edits.
"""
from fractions import Fraction

PROPERTY = "C22"
LEVEL = "model_checking"
FUNCTIONS = [
    "unified_planning.model.problem:Problem.clone",
    "unified_planning.model.problem:Problem.__eq__",
    "unified_planning.model.problem:Problem.__hash__",
    "unified_planning.model.problem:Problem.add_timed_effect",
    "unified_planning.model.problem:Problem.add_increase_effect",
    "unified_planning.model.problem:Problem.add_decrease_effect",
    "unified_planning.model.problem:Problem._add_effect_instance",
    "unified_planning.model.problem:Problem.add_timed_goal",
    "unified_planning.model.problem:Problem.add_goal",
    "unified_planning.model.problem:Problem.add_trajectory_constraint",
    "unified_planning.model.contingent.contingent_problem:ContingentProblem.clone",
    "unified_planning.model.contingent.contingent_problem:ContingentProblem.__eq__",
    "unified_planning.model.contingent.sensing_action:SensingAction.clone",
    "unified_planning.model.htn.hierarchical_problem:HierarchicalProblem.clone",
    "unified_planning.model.htn.hierarchical_problem:HierarchicalProblem.__eq__",
    "unified_planning.model.htn.task_network:TaskNetwork.clone",
    "unified_planning.model.multi_agent.ma_problem:MultiAgentProblem.clone",
    "unified_planning.model.multi_agent.ma_problem:MultiAgentProblem.__eq__",
    "unified_planning.model.multi_agent.agent:Agent.clone",
    "unified_planning.model.action:InstantaneousAction.clone",
    "unified_planning.model.action:DurativeAction.clone",
    "unified_planning.model.mixins.timed_conds_effs:TimedCondsEffs._clone_to",
    "unified_planning.model.mixins.timed_conds_effs:TimedCondsEffs._add_effect_instance",
    "unified_planning.model.mixins.fluents_set:FluentsSetMixin.add_fluent",
    "unified_planning.model.mixins.objects_set:ObjectsSetMixin.add_object",
    "unified_planning.model.mixins.actions_set:ActionsSetMixin.add_action",
    "unified_planning.model.mixins.initial_state:InitialStateMixin.set_initial_value",
    "unified_planning.model.mixins.metrics:MetricsMixin._clone_to",
    "unified_planning.model.effect:check_conflicting_effects",
]
BOUNDS = ("start problems: 2 objects of one user type, fluents b:bool, p(T):bool, n:int[0,10], m:real, an instantaneous action "
          "(assignment + increase), a durative action (timed assignment + increase at end), one goal; optional constructs present before "
          "cloning in every subset used by the shard list (timed increase / timed assignment at t=5, timed goal, trajectory constraint, "
          "action costs with default, epsilon); contingent: sensing action + unknown constraint; hierarchical: task, method, initial subtask; "
          "multi-agent: 2 agents, environment fluent, public/private fluents and goals. Histories: quick -- every single operation out of ~80 "
          "concrete operations (11-12 kinds; accepted and rejected ones), every ordered pair over the lite operand sets (~50 operations), "
          "one-sided edits of either side, one-sided edit followed by a probe operation on the untouched side and on an independently built "
          "twin; thorough -- pairs over the full operand sets, triples over the lite sets; symex shards: 1-2 timed-effect / action-effect "
          "operations with delay (2k+1)/8, 0<=k<=20 and values in [0,10] as solver variables")
OUTSIDE = ("longer histories; processes/events; simulated effects; scheduling problems; removal operations (clear_*); "
           "fidelity of attributes that == ignores (epsilon, discrete_time, fluent defaults) except through independence")
ASSUMPTIONS = ["operations are applied through the public API only; the edited action is looked up by name in the problem being edited",
               "new mutable objects (actions, methods, metrics) are built separately for each side",
               "equality of the two sides is the library's own ==; the structural fingerprint (own code, public accessors) is used to "
               "label == failures and as the immutable snapshot of the independence check"]

CLASSES = ("problem", "contingent", "hierarchical", "ma")
FEATS = ("tinc", "tassign", "tgoal", "traj", "metric", "eps")


# ------------------------------------------------------------------------------------------------------
# start problems
# ------------------------------------------------------------------------------------------------------
class H:
    pass


def _five(sym):
    """the time point of the timed effects / goal present before cloning.  Direct engine: 5.  Symbolic engine: every delay lives on
    the grid (2k+1)/8 -- never integral, so Timing keeps it a Fraction (uniform_numeric_constant turns integral delays into int, whose
    hash would realise a symbolic k) and the S4 constant Fraction hash makes every dict lookup on a Timing an == comparison decided
    by the solver."""
    return Fraction(5, 8) if sym else 5


def _one(sym):
    return Fraction(1, 8) if sym else 1


def _start(ctx, env, cls, feats, sym, lite=False, pin=None):
    import unified_planning as up
    from unified_planning.model import (DurativeAction, Fluent, InstantaneousAction, Object, Problem, StartTiming, EndTiming,
                                        GlobalStartTiming, MinimizeActionCosts)

    em, tm = env.expression_manager, env.type_manager
    h = H()
    h.env, h.em, h.tm, h.cls, h.sym, h.lite, h.pin = env, em, tm, cls, sym, lite, (pin or {})
    T = tm.UserType("T")
    h.T = T
    h.o1, h.o2 = Object("o1", T, env), Object("o2", T, env)
    h.b = Fluent("b", tm.BoolType(), environment=env)
    h.p = Fluent("p", tm.BoolType(), environment=env, x=T)
    h.n = Fluent("n", tm.IntType(0, 10), environment=env)
    h.m = Fluent("m", tm.RealType(), environment=env)
    if cls == "ma":
        return _start_ma(ctx, h, feats)
    defaults = {tm.BoolType(): em.FALSE()}
    if cls == "problem":
        P = Problem("prob", env, initial_defaults=defaults)
    elif cls == "contingent":
        from unified_planning.model.contingent import ContingentProblem

        P = ContingentProblem("prob", env, initial_defaults=defaults)
    else:
        from unified_planning.model.htn import HierarchicalProblem

        P = HierarchicalProblem("prob", env, initial_defaults=defaults)
    P.add_fluent(h.b)
    P.add_fluent(h.p)
    P.add_fluent(h.n, default_initial_value=em.Int(0))
    P.add_fluent(h.m, default_initial_value=em.Real(Fraction(0)))
    P.add_objects([h.o1, h.o2])
    a = InstantaneousAction("a", _env=env, x=T)
    x = em.ParameterExp(a.parameter("x"))
    a.add_precondition(em.FluentExp(h.p, [x]))
    a.add_effect(em.FluentExp(h.b), em.TRUE())
    a.add_increase_effect(em.FluentExp(h.n), em.Int(1))
    P.add_action(a)
    d = DurativeAction("d", _env=env, x=T)
    d.set_fixed_duration(em.Int(3))
    d.add_condition(StartTiming(), em.FluentExp(h.b))
    d.add_effect(StartTiming(_one(sym)), em.FluentExp(h.m), em.Real(Fraction(2)))
    d.add_increase_effect(EndTiming(), em.FluentExp(h.n), em.Int(1))
    P.add_action(d)
    P.add_goal(em.FluentExp(h.b))
    P.set_initial_value(em.FluentExp(h.n), em.Int(1))
    if cls == "contingent":
        from unified_planning.model.contingent import SensingAction

        s = SensingAction("s", _env=env, x=T)
        s.add_precondition(em.FluentExp(h.b))
        s.add_observed_fluent(em.FluentExp(h.p, [em.ParameterExp(s.parameter("x"))]))
        P.add_action(s)
        P.add_unknown_initial_constraint(em.FluentExp(h.p, [em.ObjectExp(h.o1)]))
    if cls == "hierarchical":
        from unified_planning.model.htn import Method, Subtask, Task

        tk = Task("tk", _env=env, x=T)
        P.add_task(tk)
        mt = Method("mt", _env=env, x=T)
        mt.set_task(tk, mt.parameter("x"))
        mt.add_precondition(em.FluentExp(h.p, [em.ParameterExp(mt.parameter("x"))]))
        mt.add_subtask(Subtask(a, em.ParameterExp(mt.parameter("x")), ident="ms1", _env=env))
        P.add_method(mt)
        P.task_network.add_subtask(Subtask(tk, em.ObjectExp(h.o1), ident="s1", _env=env))
        # a primitive action directly in the initial task network: its subtask must follow the CLONE's action object
        P.task_network.add_subtask(Subtask(a, em.ObjectExp(h.o1), ident="s0", _env=env))
    five = _five(sym)
    if "tinc" in feats:
        P.add_increase_effect(GlobalStartTiming(five), em.FluentExp(h.n), em.Int(1))
    if "tassign" in feats:
        P.add_timed_effect(GlobalStartTiming(five), em.FluentExp(h.m), em.Real(Fraction(2)))
    if "tgoal" in feats:
        P.add_timed_goal(GlobalStartTiming(five), em.FluentExp(h.b))
    if "traj" in feats:
        P.add_trajectory_constraint(em.Sometime(em.FluentExp(h.b)))
    if "metric" in feats:
        P.add_quality_metric(MinimizeActionCosts({a: em.Int(1)}, default=em.Int(2), environment=env))
    if "eps" in feats:
        P.epsilon = Fraction(1, 8)
    h.P = P
    return h


def _start_ma(ctx, h, feats):
    from unified_planning.model import Fluent, InstantaneousAction
    from unified_planning.model.multi_agent import Agent, MultiAgentProblem

    env, em, tm = h.env, h.em, h.tm
    P = MultiAgentProblem("prob", env, initial_defaults={tm.BoolType(): em.FALSE()})
    h.eb = Fluent("eb", tm.BoolType(), environment=env)
    P.ma_environment.add_fluent(h.eb, default_initial_value=em.FALSE())
    P.add_objects([h.o1, h.o2])
    h.pub = Fluent("pub", tm.BoolType(), environment=env)
    h.cnt = Fluent("cnt", tm.IntType(0, 10), environment=env)
    for name in ("A1", "A2"):
        ag = Agent(name, P)
        ag.add_public_fluent(h.pub, default_initial_value=em.FALSE())
        ag.add_private_fluent(h.cnt, default_initial_value=em.Int(0))
        ag.add_private_fluent(h.p)
        a = InstantaneousAction("a", _env=env, x=h.T)
        a.add_precondition(em.FluentExp(h.p, [em.ParameterExp(a.parameter("x"))]))
        a.add_effect(em.FluentExp(h.pub), em.TRUE())
        a.add_increase_effect(em.FluentExp(h.cnt), em.Int(1))
        ag.add_action(a)
        if name == "A1":
            ag.add_public_goal(em.FluentExp(h.pub))
            ag.add_private_goal(em.GE(em.FluentExp(h.cnt), em.Int(1)))
        P.add_agent(ag)
    P.add_goal(em.Dot(P.agent("A2"), em.FluentExp(h.pub)))
    P.add_goal(em.FluentExp(h.eb))
    P.set_initial_value(em.Dot(P.agent("A1"), em.FluentExp(h.cnt)), em.Int(1))
    P.set_initial_value(em.FluentExp(h.eb), em.TRUE())
    h.P = P
    return h


# ------------------------------------------------------------------------------------------------------
# independent structural fingerprint (public accessors only; immutable; numeric payloads kept as numbers)
# ------------------------------------------------------------------------------------------------------
def _fs(xs):
    return frozenset(xs)


def _fp_timing(t):
    tp = t.timepoint
    return (tp.kind.name, tp.container, t.delay)


def _fp_interval(i):
    return (_fp_timing(i.lower), _fp_timing(i.upper), i.is_left_open(), i.is_right_open())


def _fp_effect(e):
    return (e.fluent, e.value, e.condition, e.kind.name, tuple(v.name for v in e.forall))


def _fp_action(a):
    from unified_planning.model import DurativeAction, InstantaneousAction

    base = (type(a).__name__, a.name, tuple((p.name, str(p.type)) for p in a.parameters))
    if isinstance(a, InstantaneousAction):
        extra = (_fs(a.preconditions), tuple(_fp_effect(e) for e in a.effects), a.simulated_effect is not None)
        obs = getattr(a, "observed_fluents", None)
        if obs is not None:
            extra += (_fs(obs),)
        return base + extra
    if isinstance(a, DurativeAction):
        du = a.duration
        return base + ((du.lower, du.upper, du.is_left_open(), du.is_right_open()),
                       _fs((_fp_interval(i), _fs(cl)) for i, cl in a.conditions.items()),
                       _fs((_fp_timing(t), tuple(_fp_effect(e) for e in el)) for t, el in a.effects.items()),
                       _fs((_fp_interval(i), tuple(_fp_effect(e) for e in el)) for i, el in a.continuous_effects.items()))
    return base


def _fp_metric(mt):
    name = type(mt).__name__
    if mt.is_minimize_action_costs():
        return (name, _fs((a.name, c) for a, c in mt.costs.items()), mt.default)
    if hasattr(mt, "expression"):
        return (name, mt.expression)
    if hasattr(mt, "goals"):
        return (name, _fs((k if not hasattr(k, "__iter__") else tuple(k), v) for k, v in mt.goals.items()))
    return (name,)


def _fp_subtask(st):
    from unified_planning.model import Action

    t = st.task
    return (st.identifier, _fp_action(t) if isinstance(t, Action) else ("task", t.name, tuple((p.name, str(p.type)) for p in t.parameters)),
            tuple(st.parameters))


def _fp_types(P):
    return tuple((t.name, t.father.name if t.father is not None else None) for t in P.user_types)


def fingerprint(P, cls):
    """component name -> hashable value"""
    fp = {}
    fp["name"] = P.name
    fp["user_types"] = _fp_types(P)
    fp["objects"] = tuple((o.name, str(o.type)) for o in P.all_objects)
    if cls == "ma":
        me = P.ma_environment
        fp["env_fluents"] = tuple((f.name, str(f.type), tuple((q.name, str(q.type)) for q in f.signature)) for f in me.fluents)
        fp["env_fluents_defaults"] = _fs((f.name, v) for f, v in me.fluents_defaults.items())
        fp["goals"] = tuple(P.goals)
        fp["explicit_initial_values"] = _fs(P.explicit_initial_values.items())
        for ag in P.agents:
            k = f"agent[{ag.name}]"
            fp[k + ".fluents"] = tuple((f.name, str(f.type)) for f in ag.fluents)
            fp[k + ".public_fluents"] = tuple(f.name for f in ag.public_fluents)
            fp[k + ".fluents_defaults"] = _fs((f.name, v) for f, v in ag.fluents_defaults.items())
            fp[k + ".actions"] = tuple(_fp_action(a) for a in ag.actions)
            fp[k + ".public_goals"] = tuple(ag.public_goals)
            fp[k + ".private_goals"] = tuple(ag.private_goals)
        fp["agents"] = tuple(ag.name for ag in P.agents)
        return fp
    fp["fluents"] = tuple((f.name, str(f.type), tuple((q.name, str(q.type)) for q in f.signature)) for f in P.fluents)
    fp["fluents_defaults"] = _fs((f.name, v) for f, v in P.fluents_defaults.items())
    fp["initial_defaults"] = _fs((str(t), v) for t, v in P.initial_defaults.items())
    fp["explicit_initial_values"] = _fs(P.explicit_initial_values.items())
    fp["actions"] = tuple(_fp_action(a) for a in P.actions)
    fp["timed_effects"] = _fs((_fp_timing(t), tuple(_fp_effect(e) for e in el)) for t, el in P.timed_effects.items())
    fp["timed_goals"] = _fs((_fp_interval(i), tuple(gl)) for i, gl in P.timed_goals.items())
    fp["goals"] = tuple(P.goals)
    fp["trajectory_constraints"] = tuple(P.trajectory_constraints)
    fp["quality_metrics"] = tuple(_fp_metric(mt) for mt in P.quality_metrics)
    fp["time_model"] = (P.epsilon, P.discrete_time, P.self_overlapping)
    fp["processes_events"] = (tuple(x.name for x in P.processes), tuple(x.name for x in P.events))
    if cls == "contingent":
        fp["hidden_fluents"] = _fs(P.hidden_fluents)
        fp["or_constraints"] = tuple(tuple(c) for c in P.or_constraints)
        fp["oneof_constraints"] = tuple(tuple(c) for c in P.oneof_constraints)
    if cls == "hierarchical":
        fp["tasks"] = tuple((t.name, tuple((p.name, str(p.type)) for p in t.parameters)) for t in P.tasks)
        fp["methods"] = tuple((mt.name, tuple((p.name, str(p.type)) for p in mt.parameters), mt.achieved_task.task.name,
                               tuple(p.name for p in mt.achieved_task.parameters), tuple(mt.preconditions), tuple(mt.constraints),
                               tuple(_fp_subtask(st) for st in mt.subtasks)) for mt in P.methods)
        tn = P.task_network
        fp["task_network"] = (tuple((v.name, str(v.type)) for v in tn.variables), tuple(_fp_subtask(st) for st in tn.subtasks),
                              tuple(tn.constraints))
    return fp


def fp_diff(fa, fb):
    keys = sorted(set(fa) | set(fb))
    out = []
    for k in keys:
        if k not in fa or k not in fb:
            out.append(k)
        elif not (fa[k] == fb[k]):
            out.append(k)
    return out


# ------------------------------------------------------------------------------------------------------
# operations.  make_xxx(ctx, h, k) draws the operands once and returns (label, apply) with apply(P) performing the
# operation on problem P through the public API (fresh mutable objects per call)
# ------------------------------------------------------------------------------------------------------
def _delay(ctx, h, name):
    if h.sym:
        k = ctx.int(name, 0, 20)
        return Fraction._from_coprime_ints(2 * k + 1, 8)  # odd/8 is in lowest terms: no gcd on a symbolic numerator
    return ctx.pick(name, [5, Fraction(5, 4)] if h.lite else [5, Fraction(5, 4), 0])


def _val(ctx, h, name, lite_one=False):
    if h.sym:
        return ctx.int(name, 0, 10)
    return ctx.pick(name, [3] if (h.lite and lite_one) else [3, 2])


def _nv(h, full, lite):
    """number of variants of an operation: the lite operand set (histories >= 2 in the quick tier) is a prefix of the full one"""
    return lite if h.lite else full


def mk_add_fluent(ctx, h, k):
    from unified_planning.model import Fluent

    env, tm, em = h.env, h.tm, h.em
    v = ctx.choice(f"fluent{k}", _nv(h, 4, 3))

    def apply(P):
        if v == 0:
            P.add_fluent(Fluent("nf", tm.BoolType(), environment=env), default_initial_value=em.TRUE())
        elif v == 1:
            P.add_fluent(Fluent("nf", tm.IntType(), environment=env, u=tm.UserType("U")))
        elif v == 2:
            P.add_fluent(Fluent("b", tm.BoolType(), environment=env))  # name clash
        else:
            P.add_fluent("nf3", tm.BoolType(), y=h.T)  # type default applies

    return f"add_fluent{v}", apply


def mk_add_object(ctx, h, k):
    from unified_planning.model import Object

    v = ctx.choice(f"object{k}", 3)

    def apply(P):
        if v == 0:
            P.add_object(Object("o3", h.T, h.env))
        elif v == 1:
            P.add_object("u1", h.tm.UserType("U2", h.T))
        else:
            P.add_object(Object("o1", h.T, h.env))  # name clash

    return f"add_object{v}", apply


def _new_inst(h, name):
    from unified_planning.model import InstantaneousAction

    em = h.em
    a = InstantaneousAction(name, _env=h.env, x=h.T)
    x = em.ParameterExp(a.parameter("x"))
    a.add_precondition(em.FluentExp(h.b))
    a.add_effect(em.FluentExp(h.p, [x]), em.FALSE())
    return a


def _new_dur(h, name):
    from unified_planning.model import DurativeAction, EndTiming, StartTiming

    em = h.em
    d = DurativeAction(name, _env=h.env)
    d.set_closed_duration_interval(em.Int(1), em.Int(2))
    d.add_condition(StartTiming(), em.FluentExp(h.b))
    d.add_decrease_effect(EndTiming(), em.FluentExp(h.n), em.Int(1))
    return d


def mk_add_action(ctx, h, k):
    v = ctx.choice(f"action{k}", 3)

    def apply(P):
        tgt = P.agent("A1") if h.cls == "ma" else P
        if v == 0:
            tgt.add_action(_new_inst(h, "a2"))
        elif v == 1:
            tgt.add_action(_new_dur(h, "d2"))
        else:
            tgt.add_action(_new_inst(h, "a"))  # name clash

    return f"add_action{v}", apply


def mk_add_goal(ctx, h, k):
    em = h.em
    v = ctx.choice(f"goal{k}", _nv(h, 3, 2))

    def apply(P):
        if v == 0:
            P.add_goal(em.FluentExp(h.p, [em.ObjectExp(h.o1)]))
        elif v == 1:
            P.add_goal(em.GE(em.FluentExp(h.n), em.Int(1)))
        else:
            P.add_goal(True)

    return f"add_goal{v}", apply


def mk_timed_assign(ctx, h, k):
    from unified_planning.model import GlobalStartTiming

    em = h.em
    f = h.pin["fl"] if "fl" in h.pin else ctx.choice(f"tafl{k}", 2 if h.sym else 3)  # Boolean assignments never conflict: not in the symbolic shards
    delay = _delay(ctx, h, f"tadelay{k}")
    val = _val(ctx, h, f"taval{k}", lite_one=(f == 0)) if f < 2 else None
    bv = not ctx.choice(f"tabool{k}", _nv(h, 2, 1)) if f == 2 else None

    def apply(P):
        t = GlobalStartTiming(delay)
        if f == 0:
            P.add_timed_effect(t, em.FluentExp(h.n), em.Int(val))
        elif f == 1:
            P.add_timed_effect(t, em.FluentExp(h.m), em.Real(Fraction(val)))
        else:
            P.add_timed_effect(t, em.FluentExp(h.b), em.Bool(bv))

    return "timed_assign", apply


def mk_timed_incdec(ctx, h, k):
    from unified_planning.model import GlobalStartTiming

    em = h.em
    f = h.pin["fl"] if "fl" in h.pin else ctx.choice(f"tifl{k}", 2)
    dec = ctx.choice(f"tidec{k}", 2 if (f == 0 or not h.lite) else 1)
    delay = _delay(ctx, h, f"tidelay{k}")

    def apply(P):
        t = GlobalStartTiming(delay)
        fe = em.FluentExp(h.n if f == 0 else h.m)
        (P.add_decrease_effect if dec else P.add_increase_effect)(t, fe, em.Int(1))

    return "timed_incdec", apply


def mk_timed_goal(ctx, h, k):
    from unified_planning.model import ClosedTimeInterval, GlobalEndTiming, GlobalStartTiming

    em = h.em
    v = ctx.choice(f"tgoal{k}", 3)
    delay = (_delay(ctx, h, f"tgdelay{k}") if (v == 0 or not h.lite) else _five(h.sym)) if v < 2 else None

    def apply(P):
        if v == 0:
            # not the goal already present at t=5: the list of that time point grows
            P.add_timed_goal(GlobalStartTiming(delay), em.FluentExp(h.p, [em.ObjectExp(h.o2)]))
        elif v == 1:
            P.add_timed_goal(ClosedTimeInterval(GlobalStartTiming(Fraction(1, 16) if h.sym else 0), GlobalStartTiming(delay)), em.FluentExp(h.p, [em.ObjectExp(h.o1)]))
        else:
            P.add_timed_goal(GlobalEndTiming() - 1, em.FluentExp(h.b))  # rejected

    return f"timed_goal{v}", apply


def mk_traj(ctx, h, k):
    em = h.em
    v = ctx.choice(f"traj{k}", _nv(h, 4, 3))

    def apply(P):
        if v == 0:
            P.add_trajectory_constraint(em.Sometime(em.FluentExp(h.b)))
        elif v == 1:
            P.add_state_invariant(em.GE(em.FluentExp(h.n), em.Int(0)))
        elif v == 2:
            P.add_trajectory_constraint(em.FluentExp(h.b))  # malformed: rejected
        else:
            P.add_trajectory_constraint(em.AtMostOnce(em.FluentExp(h.p, [em.ObjectExp(h.o1)])))

    return f"traj{v}", apply


def mk_metric(ctx, h, k):
    from unified_planning.model import (MaximizeExpressionOnFinalState, MinimizeActionCosts, MinimizeMakespan,
                                        MinimizeSequentialPlanLength, Oversubscription)

    em, env = h.em, h.env
    v = ctx.choice(f"metric{k}", _nv(h, 5, 3))

    def apply(P):
        if v == 0:
            P.add_quality_metric(MinimizeActionCosts({P.action("a"): em.Int(1)}, default=em.Int(2), environment=env))
        elif v == 1:
            P.add_quality_metric(MinimizeSequentialPlanLength(environment=env))
        elif v == 2:
            P.add_quality_metric(MaximizeExpressionOnFinalState(em.FluentExp(h.n), environment=env))
        elif v == 3:
            P.add_quality_metric(MinimizeMakespan(environment=env))
        else:
            P.add_quality_metric(Oversubscription({em.FluentExp(h.b): 3}, environment=env))

    return f"metric{v}", apply


def mk_set_init(ctx, h, k):
    em = h.em
    v = ctx.choice(f"init{k}", 4)
    val = _val(ctx, h, f"initval{k}", lite_one=True) if v == 0 else None

    def apply(P):
        if v == 0:
            P.set_initial_value(em.FluentExp(h.n), em.Int(val))
        elif v == 1:
            P.set_initial_value(em.FluentExp(h.b), em.TRUE())
        elif v == 2:
            P.set_initial_value(em.FluentExp(h.p, [em.ObjectExp(h.o2)]), em.TRUE())
        else:
            P.set_initial_value(em.FluentExp(h.n), em.TRUE())  # type error

    return f"set_init{v}", apply


def mk_act_effect(ctx, h, k):
    from unified_planning.model import EndTiming, StartTiming

    em = h.em
    v = ctx.choice(f"acteff{k}", 8)
    val = _val(ctx, h, f"aeval{k}", lite_one=(v != 4)) if v in (1, 4, 7) else None
    delay = _delay(ctx, h, f"aedelay{k}") if v == 7 else None

    def apply(P):
        if v < 4:
            a = P.action("a")
            x = em.ParameterExp(a.parameter("x"))
            if v == 0:
                a.add_effect(em.FluentExp(h.p, [x]), em.FALSE())
            elif v == 1:
                a.add_effect(em.FluentExp(h.n), em.Int(val))  # conflicts with the increase already in the action
            elif v == 2:
                a.add_increase_effect(em.FluentExp(h.n), em.Int(2))
            else:
                a.add_effect(em.FluentExp(h.m), em.Real(Fraction(1)), em.FluentExp(h.b))
        else:
            d = P.action("d")
            if v == 4:
                d.add_effect(StartTiming(_one(h.sym)), em.FluentExp(h.m), em.Real(Fraction(val)))  # conflict iff val != 2
            elif v == 5:
                d.add_increase_effect(EndTiming(), em.FluentExp(h.n), em.Int(1))
            elif v == 6:
                d.add_effect(EndTiming(), em.FluentExp(h.n), em.Int(3))  # conflict with the increase at end
            else:
                d.add_effect(StartTiming(delay), em.FluentExp(h.m), em.Real(Fraction(val)))

    return f"act_effect{v}", apply


def mk_hidden(ctx, h, k):
    em = h.em
    v = ctx.choice(f"hidden{k}", 3)

    def apply(P):
        p1, p2 = em.FluentExp(h.p, [em.ObjectExp(h.o1)]), em.FluentExp(h.p, [em.ObjectExp(h.o2)])
        if v == 0:
            P.add_unknown_initial_constraint(p2)
        elif v == 1:
            P.add_oneof_initial_constraint([p1, p2])
        else:
            P.add_or_initial_constraint([p1, p2])

    return f"hidden{v}", apply


def mk_htn(ctx, h, k):
    from unified_planning.model.htn import Method, Subtask, Task

    em, env = h.em, h.env
    v = ctx.choice(f"htn{k}", _nv(h, 5, 4))

    def apply(P):
        if v == 0:
            P.add_task(Task("tk2", _env=env, x=h.T))
        elif v == 1:
            P.task_network.add_subtask(Subtask(P.action("a"), em.ObjectExp(h.o2), ident="s2", _env=env))
        elif v == 2:
            mt = Method("mt2", _env=env, x=h.T)
            mt.set_task(P.get_task("tk"), mt.parameter("x"))
            mt.add_subtask(Subtask(P.action("d"), em.ParameterExp(mt.parameter("x")), ident="ms2", _env=env))
            P.add_method(mt)
        elif v == 3:
            P.add_task(Task("tk", _env=env))  # name clash
        else:
            P.task_network.add_constraint(em.FluentExp(h.b))

    return f"htn{v}", apply


# multi-agent operations -------------------------------------------------------------------------------
def mk_ma_fluent(ctx, h, k):
    from unified_planning.model import Fluent

    env, tm, em = h.env, h.tm, h.em
    v = ctx.choice(f"mafluent{k}", 5)

    def apply(P):
        if v == 0:
            P.ma_environment.add_fluent(Fluent("ef2", tm.BoolType(), environment=env))
        elif v == 1:
            P.agent("A1").add_public_fluent(Fluent("pf2", tm.BoolType(), environment=env, u=tm.UserType("U")), default_initial_value=em.TRUE())
        elif v == 2:
            P.agent("A2").add_private_fluent(Fluent("qf2", tm.BoolType(), environment=env))  # type default applies
        elif v == 3:
            P.agent("A1").add_fluent(Fluent("pub", tm.BoolType(), environment=env))  # clash inside the agent
        else:
            P.ma_environment.add_fluent(Fluent("eb", tm.BoolType(), environment=env))  # clash in the environment

    return f"ma_fluent{v}", apply


def mk_ma_goal(ctx, h, k):
    em = h.em
    v = ctx.choice(f"magoal{k}", 4)

    def apply(P):
        if v == 0:
            P.add_goal(em.Dot(P.agent("A1"), em.FluentExp(h.pub)))
        elif v == 1:
            P.agent("A2").add_public_goal(em.FluentExp(h.pub))
        elif v == 2:
            P.agent("A2").add_private_goal(em.GE(em.FluentExp(h.cnt), em.Int(2)))
        else:
            P.add_goal(em.Not(em.FluentExp(h.eb)))

    return f"ma_goal{v}", apply


def mk_ma_init(ctx, h, k):
    em = h.em
    v = ctx.choice(f"mainit{k}", 4)
    val = _val(ctx, h, f"mainitval{k}") if v == 0 else None

    def apply(P):
        if v == 0:
            P.set_initial_value(em.Dot(P.agent("A2"), em.FluentExp(h.cnt)), em.Int(val))
        elif v == 1:
            P.set_initial_value(em.FluentExp(h.eb), em.FALSE())
        elif v == 2:
            P.set_initial_value(em.Dot(P.agent("A1"), em.FluentExp(h.p, [em.ObjectExp(h.o1)])), em.TRUE())
        else:
            P.set_initial_value(em.Dot(P.agent("A1"), em.FluentExp(h.cnt)), em.TRUE())  # type error

    return f"ma_init{v}", apply


def mk_ma_act_effect(ctx, h, k):
    em = h.em
    v = ctx.choice(f"maeff{k}", 4)
    val = _val(ctx, h, f"maeffval{k}") if v == 1 else None

    def apply(P):
        a = P.agent("A1" if v < 3 else "A2").action("a")
        x = em.ParameterExp(a.parameter("x"))
        if v == 0:
            a.add_effect(em.FluentExp(h.p, [x]), em.FALSE())
        elif v == 1:
            a.add_effect(em.FluentExp(h.cnt), em.Int(val))  # conflict with the increase
        elif v == 2:
            a.add_decrease_effect(em.FluentExp(h.cnt), em.Int(1))
        else:
            a.add_effect(em.FluentExp(h.pub), em.FALSE(), em.FluentExp(h.p, [x]))

    return f"ma_act_effect{v}", apply


def mk_ma_agent(ctx, h, k):
    from unified_planning.model.multi_agent import Agent

    em = h.em
    v = ctx.choice(f"maagent{k}", 2)

    def apply(P):
        if v == 0:
            ag = Agent("A3", P)
            ag.add_public_fluent(h.pub, default_initial_value=em.TRUE())
            P.add_agent(ag)
        else:
            P.add_agent(Agent("A1", P))  # name clash

    return f"ma_agent{v}", apply


OPS = {
    "add_fluent": mk_add_fluent, "add_object": mk_add_object, "add_action": mk_add_action, "add_goal": mk_add_goal,
    "timed_assign": mk_timed_assign, "timed_incdec": mk_timed_incdec, "timed_goal": mk_timed_goal, "traj": mk_traj,
    "metric": mk_metric, "set_init": mk_set_init, "act_effect": mk_act_effect, "hidden": mk_hidden, "htn": mk_htn,
    "ma_fluent": mk_ma_fluent, "ma_goal": mk_ma_goal, "ma_init": mk_ma_init, "ma_act_effect": mk_ma_act_effect, "ma_agent": mk_ma_agent,
}
COMMON = ["add_fluent", "add_object", "add_action", "add_goal", "timed_assign", "timed_incdec", "timed_goal", "traj", "metric",
          "set_init", "act_effect"]
OPS_OF = {
    "problem": COMMON,
    "contingent": COMMON + ["hidden"],
    "hierarchical": COMMON + ["htn"],
    "ma": ["ma_fluent", "add_object", "add_action", "ma_goal", "ma_init", "ma_act_effect", "ma_agent"],
}


# ------------------------------------------------------------------------------------------------------
# harness
# ------------------------------------------------------------------------------------------------------
def _run(apply, P):
    """exception type name (None: accepted).  Every exception counts as 'the operation did not succeed'."""
    try:
        apply(P)
    except Exception as e:  # noqa: BLE001  -- the type is what is compared
        return type(e).__name__
    return None


def _compare(ctx, A, B, cls, stage, symmetric=True, what=None):
    what = what or stage
    try:
        eq1 = (A == B)
        eq2 = (B == A) if symmetric else eq1
    except Exception as e:  # noqa: BLE001
        # == itself raises (MultiAgentProblem.__eq__ needs every initial value).  If each side cannot even be compared with itself,
        # == is unusable on this (incomplete) problem -- not clone's fault -- and the structural comparison stands in for it.
        def self_raises(X):
            try:
                X == X
            except Exception:  # noqa: BLE001
                return True
            return False

        comps = fp_diff(fingerprint(A, cls), fingerprint(B, cls))
        if comps or not (self_raises(A) and self_raises(B)):
            ctx.fail(f"{stage}:eq-raises[{','.join(comps)}]",
                     f"after {what}: original == clone raises {type(e).__name__}: {e}; differing components: {comps}")
        ctx.witness("eq-unusable-fingerprints-equal")
        return
    if not (eq1 and eq2):
        ka, kb = A.kind, B.kind
        if not (ka == kb):
            fa, fb = set(ka.features), set(kb.features)
            ctx.fail(f"{stage}:kind", f"kinds differ after {what}: only original {sorted(fa - fb)}, only clone {sorted(fb - fa)}")
        comps = fp_diff(fingerprint(A, cls), fingerprint(B, cls))
        ctx.fail(f"{stage}:neq[{','.join(comps) or 'fingerprints-equal'}]",
                 f"after {what}: original == clone is {eq1}, clone == original is {eq2}; differing components: {comps}")
    # == compares the kinds first (Problem.__eq__, MultiAgentProblem.__eq__): equal kinds are implied here
    try:
        ha, hb = hash(A), hash(B)
    except Exception as e:  # noqa: BLE001
        ctx.fail(f"{stage}:hash-raises", f"hash() of an equal pair raises {type(e).__name__}: {e}")
    ctx.check(ha == hb, f"{stage}:hash", f"after {what}: equal problems with different hashes")


def _history(ctx, h, n_ops, ops, first, first_from=None):
    """draw the operations (names fixed by `first` where given; the first one drawn from `first_from` where given)"""
    out = []
    names = OPS_OF[h.cls] if ops is None else ops
    for k in range(n_ops):
        if first is not None and k < len(first):
            name = first[k]
        elif k == 0 and first_from is not None:
            name = first_from[ctx.choice("op0", len(first_from))]
        else:
            name = names[ctx.choice(f"op{k}", len(names))]
        out.append(OPS[name](ctx, h, k))
    return out


def h_both(ctx, cls, feats, n_ops, ops=None, first=None, sym=False, lite=False, first_from=None, pin=None):
    """every operation is applied to the original and to the clone"""
    env = ctx.fresh_env(hashcons="syntactic")
    with ctx.untraced():
        h = _start(ctx, env, cls, feats, sym, lite, pin)
    A = h.P
    B = A.clone()
    ctx.check(B is not A, "clone:same-object", "clone returned the receiver")
    ctx.check(type(B) is type(A), "clone:class", f"clone of a {type(A).__name__} is a {type(B).__name__}")
    if not sym:
        _compare(ctx, A, B, cls, "clone")
    ctx.witness("cloned")
    hist = _history(ctx, h, n_ops, ops, first, first_from)
    for k, (label, apply) in enumerate(hist):
        kind = label.rstrip("0123456789")  # signatures name the operation kind; the variant is in the message and in the replay file
        ra, rb = _run(apply, A), _run(apply, B)
        if ra != rb:
            ctx.fail(f"{kind}:raise-diff[orig={ra},clone={rb}]",
                     f"operation {k} ({label}) on the original: {ra or 'accepted'}; on the clone: {rb or 'accepted'}")
        last = k == len(hist) - 1
        if sym and not last:
            # symbolic engine: the library's == (kind computation under the tracer) only at the end of the history; in between the
            # harness' own structural comparison
            comps = fp_diff(fingerprint(A, cls), fingerprint(B, cls))
            if comps:
                ctx.fail(f"{kind}:neq[{','.join(comps)}]", f"after {label}: original and clone differ in {comps}")
        else:
            _compare(ctx, A, B, cls, kind, symmetric=last and not sym, what=label)
        ctx.witness("both-accepted" if ra is None else "both-rejected")


def h_one(ctx, cls, feats, n_ops, ops=None, first=None, sym=False, lite=False, first_from=None, side=None, pin=None, probe=None):
    """the operations are applied to one side only; the other side must not change.  With `probe` (a list of operation kinds) one
    more operation is then applied to the untouched side and to an independently built twin of the start problem: same acceptance,
    same result -- this observes the non-public bookkeeping (_fluents_assigned / _fluents_inc_dec) that the edits must not reach."""
    env = ctx.fresh_env(hashcons="syntactic")
    with ctx.untraced():
        h = _start(ctx, env, cls, feats, sym, lite, pin)
        twin = _start(ctx, env, cls, feats, sym, lite, pin).P if probe else None
    A = h.P
    B = A.clone()
    edited, other = (A, B) if (ctx.choice("edit_clone", 2) if side is None else side) == 0 else (B, A)
    who = "clone" if other is B else "original"
    fp0 = fingerprint(other, cls)
    snap = other.clone()
    # symbolic engine: fingerprint only (the library's == recomputes both kinds under the tracer on every call)
    snap_ok = (not sym) and (snap == other)  # clone defects are the both-mode's subject; the ==-snapshot is used only where it starts equal
    for k, (label, apply) in enumerate(_history(ctx, h, n_ops, ops, first, first_from)):
        kind = label.rstrip("0123456789")
        r = _run(apply, edited)
        comps = fp_diff(fp0, fingerprint(other, cls))
        if comps:
            ctx.fail(f"{kind}:indep-{who}[{','.join(comps)}]",
                     f"operation {k} ({label}, {'rejected: ' + r if r else 'accepted'}) on the other side changed the {who}: {comps}")
        if snap_ok:
            ctx.check(other == snap and snap == other, f"{kind}:indep-{who}-eq",
                      f"operation {k} ({label}) on the other side: the {who} is no longer == to the clone of it taken before")
        ctx.witness("untouched-after-accepted" if r is None else "untouched-after-rejected")
    if probe:
        label, apply = OPS[probe[ctx.choice("probe_op", len(probe))]](ctx, h, 9)
        kind = label.rstrip("0123456789")
        ro, rt = _run(apply, other), _run(apply, twin)
        if ro != rt:
            ctx.fail(f"{kind}:probe-{who}[{who}={ro},twin={rt}]",
                     f"after edits of the other side only, {label} on the untouched {who}: {ro or 'accepted'}; on an independently built "
                     f"twin of the start problem: {rt or 'accepted'}")
        comps = fp_diff(fingerprint(other, cls), fingerprint(twin, cls))
        if comps:
            ctx.fail(f"{kind}:probe-{who}-neq[{','.join(comps)}]", f"after {label} the untouched {who} and the twin differ in {comps}")
        ctx.witness("probe-accepted" if ro is None else "probe-rejected")


# ------------------------------------------------------------------------------------------------------
def _name(cls, feats, mode, n, first=None, sym=False, lite=False, tag=None):
    f = "+".join(feats) if feats else "plain"
    s = f"{cls}-{f}-{mode}{n}"
    if lite:
        s += "lite"
    if tag:
        s += "-" + tag
    elif first:
        s += "-" + ".".join(first)
    if sym:
        s += "-sym"
    return s


FULL = ["tinc", "tassign", "tgoal", "traj", "metric", "eps"]
TIMED = ["timed_assign", "timed_incdec", "act_effect"]


def shards(tier, seed):
    out = []

    def add(cls, feats, mode, n, first=None, sym=False, ops=None, lite=False, tag=None, budget=100):
        out.append(dict(name=_name(cls, feats, mode, n, first, sym, lite, tag), fn="h_both" if mode == "both" else "h_one",
                        kwargs=dict(cls=cls, feats=list(feats), n_ops=n, ops=ops, first=first, sym=sym, lite=lite),
                        budget=budget, per_path=30, engine="symex" if sym else "direct"))

    def halves(cls):
        names = OPS_OF[cls]
        k = (len(names) + 1) // 2
        return [("h1", names[:k]), ("h2", names[k:])]

    quick = tier == "quick"
    bud = 240 if quick else 900  # wall-clock cap of the direct engine (the machine is shared); CPU per quick shard stays <= ~60 s
    # (1) single operations, full operand sets, every optional construct present before cloning one at a time for the classes whose
    #     clone() loses some of them (their defects stay confined to their own shards)
    add("problem", FULL, "both", 1, budget=bud)
    if not quick:  # quick: the one-sided single operations are covered by the pair and probe shards below
        add("problem", FULL, "one", 1, budget=bud)
    for cls in ("contingent", "hierarchical"):
        add(cls, ["tinc", "tassign"], "both", 1, budget=bud)
        add(cls, ["traj"], "both", 1, budget=bud)
        add(cls, ["metric"], "both", 1, budget=bud)
        add(cls, ["tgoal", "eps"], "both", 1, budget=bud)
        if not quick:
            add(cls, ["tgoal", "eps"], "one", 1, budget=bud)
    # (2) histories
    if quick:
        # all ordered pairs over the lite operand set, split by the kind of the first operation
        for tag, first_ops in halves("problem"):
            add("problem", FULL, "both", 2, lite=True, tag=tag, ops=None, first=None, budget=bud)
            out[-1]["kwargs"]["first_from"] = first_ops
        for cls, feats in (("problem", FULL), ("contingent", []), ("hierarchical", [])):
            if cls != "problem":
                add(cls, feats, "both", 2, lite=True, budget=bud)
            for side in (0, 1):
                add(cls, feats, "one", 2, lite=True, tag=("edit-clone" if side else "edit-orig"), budget=bud)
                out[-1]["kwargs"]["side"] = side
        add("ma", [], "both", 2, budget=bud)
        add("ma", [], "one", 2, budget=bud)
    else:
        for cls, feats in (("problem", FULL), ("problem", []), ("contingent", []), ("hierarchical", [])):
            add(cls, feats, "both", 2, budget=bud)
            add(cls, feats, "one", 2, budget=bud)
            for op in OPS_OF[cls]:
                add(cls, feats, "both", 3, lite=True, first=[op], budget=bud)
            for tag, first_ops in halves(cls):
                add(cls, feats, "one", 3, lite=True, tag=tag, budget=bud)
                out[-1]["kwargs"]["first_from"] = first_ops
        add("ma", [], "both", 3, budget=bud)
        add("ma", [], "one", 3, budget=bud)
    # (2b) one timed operation on one side, then a probe operation on the untouched side and on an independently built twin
    #      (with only ONE timed effect present before cloning, the bookkeeping of its time point exists and new fluents can enter it)
    for cls, feats in (("problem", FULL), ("contingent", ["tgoal"]), ("hierarchical", ["tgoal"]), ("problem", ["tassign"]), ("problem", ["tinc"]),
                       ("contingent", ["tassign"]), ("hierarchical", ["tinc"])):
        add(cls, feats, "one", 1, ops=TIMED, lite=quick, tag="probe", budget=bud)
        out[-1]["kwargs"]["probe"] = TIMED
    # (3) symbolic timings / values (delay (2k+1)/8 and assigned values are solver variables)
    add("problem", ["tinc", "tassign"], "both", 1, sym=True, ops=TIMED, budget=bud)
    add("problem", [], "both", 2, sym=True, ops=["timed_assign", "timed_incdec"], tag="m", budget=bud)
    out[-1]["kwargs"]["pin"] = {"fl": 1}  # both operations on the real fluent m
    add("problem", ["tinc", "tassign"], "one", 1, sym=True, ops=TIMED, budget=bud)
    if not quick:
        for cls in ("contingent", "hierarchical"):
            add(cls, [], "both", 2, sym=True, ops=["timed_assign", "timed_incdec"], budget=bud)
        add("problem", ["tinc", "tassign"], "both", 2, sym=True, ops=TIMED, budget=bud)
        add("ma", [], "both", 2, sym=True, ops=["ma_init", "ma_act_effect"], budget=bud)
    return out


MANIFEST = dict(
    engine="direct+symex",
    technique="bounded-exhaustive histories of model-building operations applied to a problem and its clone (re-execution DFS over choice "
              "variables); symbolic execution (CrossHair/z3) for the shards whose timing delays and assigned values are solver variables",
    text="Bounded model checking of clone(): for each of the four problem classes and each listed set of constructs present before cloning, "
         "every history of <= 2 (quick) / 3 (thorough) operations out of ~80 concrete model-building operations (pairs and triples over reduced operand sets) is applied to original and clone: "
         "same acceptance (exception type), ==, hash, kind after every step; and to one side only: the other side keeps its structural "
         "fingerprint and stays == to an earlier clone of itself. In the symex shards timing delays ((2k+1)/8) and assigned values are solver "
         "variables, so coincidence with the timings/values already in the problem is decided by z3.",
    note="Trusted: the harness' structural fingerprint (labels and independence snapshot), CrossHair int/Fraction model, z3. "
         "Solver role low-to-medium: most shards are structural (direct engine).",
)
