"""C33 ProblemKind ordering is a lattice consistent with equality and hashing.

Symbolic (E1s): every feature bit of two or three kinds (one solver Boolean per feature of
all_features, ~130 per kind), restricted only by the constructor's invariant (a feature
added in version w is absent from a kind of version < w).  The laws are single solver
queries over those bits; the real __le__/__eq__/union/intersection/equalize_versions/
upgrade_1_2 run on SymFeatureSet objects.  __hash__ and version=None iterate the set, so
those shards free only a sub-universe (3 deprecated, 3 version-sensitive, 2 ordinary features).
Not claimed: >=, <, > (functools.total_ordering derives them assuming a total order; the property speaks of <= and ==).
"""
PROPERTY = "C33"
LEVEL = "model_checking"
FUNCTIONS = [
    "unified_planning.model.problem_kind:ProblemKind.__le__",
    "unified_planning.model.problem_kind:ProblemKind.__eq__",
    "unified_planning.model.problem_kind:ProblemKind.__hash__",
    "unified_planning.model.problem_kind:ProblemKind.union",
    "unified_planning.model.problem_kind:ProblemKind.intersection",
    "unified_planning.model.problem_kind:ProblemKind.version",
    "unified_planning.model.problem_kind:get_valid_features",
    "unified_planning.model.problem_kind_versioning:equalize_versions",
    "unified_planning.model.problem_kind_versioning:upgrade_1_2",
    "unified_planning.model.problem_kind_versioning:upgrade_2_3",
]
BOUNDS = ("all 2^|features| feature sets per kind for the order laws (versions 1, 2, 3) and for cross-version comparison; upgrade monotonicity: "
          "quick frees the upgrade-trigger features two at a time (all other features free), thorough frees all; "
          "hash law and version=None: free bits restricted to the sub-universe SUB (deprecated, version-sensitive and two ordinary features)")
OUTSIDE = "hash law / implicit version outside the sub-universe (iteration over a symbolic set forks per free bit)"
ASSUMPTIONS = ["full-universe shards: ProblemKind.__init__'s per-feature assertion loops are replaced by the equivalent single solver check "
               "(iteration over 130 undecided bits is infeasible); sub-universe shards run the real constructor",
               "kinds are built by injecting the feature set (k._features); bits are constrained by the constructor's version assertion",
               "ProblemKind's module-level name `set` keeps a SymFeatureSet symbolic (ProblemKind.__init__ does set(features))"]

VERSIONS = (1, 2, 3)


def _sub_universe():
    return ["CONTINUOUS_NUMBERS", "DISCRETE_NUMBERS", "NUMERIC_FLUENTS", "INT_FLUENTS", "REAL_TYPE_DURATIONS", "PROCESSES",
            "ACTION_BASED", "ACTIONS_COST"]


def _too_new(version):
    from unified_planning.model.problem_kind_versioning import FEATURES_VERSIONS

    return [f for f, (added, _dep) in FEATURES_VERSIONS.items() if added > version]


def _kind(ctx, name, version, sub=False):
    from unified_planning.model.problem_kind import ProblemKind

    free = None
    if sub:
        free = _sub_universe()
        if isinstance(sub, (list, tuple)):
            free = list(sub)
    s = ctx.feature_set(name, free=free, absent=_too_new(version) if version is not None else ())
    return _inject(s, version)


def _inject(s, version):
    from unified_planning.model.problem_kind import ProblemKind

    k = ProblemKind(version=version)
    k._features = s
    return k


def _clone(ctx, k):
    """An independent kind with the same features (the real comparison operators mutate _features in place)."""
    return _inject(k._features.copy(), k._version)


def h_order(ctx, version):
    from vf.logic import And, Iff, Implies, Not

    a, b, c = (_kind(ctx, n, version) for n in "abc")
    fresh = lambda k: _clone(ctx, k)  # noqa: E731
    ctx.require(fresh(a) <= fresh(a), "reflexive", "a <= a is false")
    ab, bc, ac = fresh(a) <= fresh(b), fresh(b) <= fresh(c), fresh(a) <= fresh(c)
    ctx.require(Implies(And(ab, bc), ac), "transitive", "a<=b and b<=c but not a<=c")
    ba = fresh(b) <= fresh(a)
    eq = fresh(a) == fresh(b)
    ctx.require(Iff(And(ab, ba), eq), "antisymmetric", "(a<=b and b<=a) differs from a==b")
    ctx.require(Iff(eq, fresh(b) == fresh(a)), "eq-symmetric", "a==b differs from b==a")
    ctx.require(Iff(Not(eq), fresh(a) != fresh(b)), "ne", "a!=b is not the negation of a==b")
    ctx.witness("order")


def h_lattice(ctx, version):
    from vf.logic import And, Iff, Implies, Not

    a, b, c = (_kind(ctx, n, version) for n in "abc")
    fresh = lambda k: _clone(ctx, k)  # noqa: E731
    u = fresh(a).union(fresh(b))
    ctx.check(u.version == version, "union-version", f"union of two version-{version} kinds has version {u.version}")
    ctx.require(fresh(a) <= fresh(u), "union-upper-a", "a <= a.union(b) is false")
    ctx.require(fresh(b) <= fresh(u), "union-upper-b", "b <= a.union(b) is false")
    ctx.require(Implies(And(fresh(a) <= fresh(c), fresh(b) <= fresh(c)), fresh(u) <= fresh(c)), "union-least",
                "c is an upper bound of a and b but a.union(b) <= c is false")
    i = fresh(a).intersection(fresh(b))
    ctx.check(i.version == version, "inter-version", f"intersection of two version-{version} kinds has version {i.version}")
    ctx.require(fresh(i) <= fresh(a), "inter-lower-a", "a.intersection(b) <= a is false")
    ctx.require(fresh(i) <= fresh(b), "inter-lower-b", "a.intersection(b) <= b is false")
    ctx.require(Implies(And(fresh(c) <= fresh(a), fresh(c) <= fresh(b)), fresh(c) <= fresh(i)), "inter-greatest",
                "c is a lower bound of a and b but c <= a.intersection(b) is false")
    ctx.require(fresh(a).union(fresh(b)) == fresh(b).union(fresh(a)), "union-commutes", "a.union(b) != b.union(a)")
    ctx.require(fresh(a).intersection(fresh(b)) == fresh(b).intersection(fresh(a)), "inter-commutes", "a.intersection(b) != b.intersection(a)")
    ctx.witness("lattice")


def h_no_side_effect(ctx, version):
    """Comparing must not change what a later comparison answers (the operators work on the live sets)."""
    from vf.logic import Iff

    a, b = (_kind(ctx, n, version) for n in "ab")
    first = _clone(ctx, a) <= _clone(ctx, b)
    a2, b2 = _clone(ctx, a), _clone(ctx, b)
    _ = a2 <= b2
    _ = a2 == b2
    _ = a2.union(b2)
    _ = a2.intersection(b2)
    _ = b2.intersection(a2)
    again = a2 <= b2
    # the operands are the kinds they were: each still equals (and is ordered like) an untouched copy
    ctx.require(a2 == _clone(ctx, a), "operand-changed", "a comparison / union / intersection changed its receiver (it no longer equals an identically built kind)")
    ctx.require(b2 == _clone(ctx, b), "operand-changed", "a comparison / union / intersection changed its argument (it no longer equals an identically built kind)")
    ctx.require(_clone(ctx, a) <= a2, "operand-shrank", "after a comparison / union / intersection the receiver lost features")
    ctx.require(_clone(ctx, b) <= b2, "operand-shrank", "after a comparison / union / intersection the argument lost features")
    ctx.require(Iff(first, again), "le-stable", "a<=b changes its answer after earlier comparisons on the same objects")
    ctx.require(Iff(_clone(ctx, a) == _clone(ctx, b), a2 == b2), "eq-stable", "a==b changes its answer after earlier comparisons")
    ctx.witness("stable")


TRIGGERS = ["CONTINUOUS_NUMBERS", "DISCRETE_NUMBERS", "NUMERIC_FLUENTS", "ACTIONS_COST", "OVERSUBSCRIPTION", "CONTINUOUS_TIME",
            "DISCRETE_TIME"]  # the features upgrade_1_2 branches on


def _kind_t(ctx, name, version, triggers_free):
    """All features free except that only `triggers_free` of the upgrade-trigger features may be present."""
    absent = list(_too_new(version))
    if triggers_free is not None:
        absent += [t for t in TRIGGERS if t not in triggers_free]
    s = ctx.feature_set(name, absent=absent)
    return _inject(s, version)


def h_cross_le(ctx, va, vb, triggers_free=None):
    """Kinds of different versions: the comparison upgrades the older one."""
    from vf.logic import Iff

    lo, hi = min(va, vb), max(va, vb)
    a, c = _kind_t(ctx, "a", lo, triggers_free), _kind(ctx, "c", hi)
    fresh = lambda k: _clone(ctx, k)  # noqa: E731
    ua = fresh(a).union(_inject(ctx_const(ctx), hi))  # upgrade through the public API: union with the newer empty kind
    ctx.check(ua.version == hi, "upgrade-version", "union with a newer empty kind does not take the newer version")
    ctx.require(Iff(fresh(a) <= fresh(c), fresh(ua) <= fresh(c)), "cross-le-upgrades-left", "a(v_old) <= c(v_new) differs from upgrade(a) <= c")
    ctx.require(Iff(fresh(c) <= fresh(a), fresh(c) <= fresh(ua)), "cross-le-upgrades-right", "c(v_new) <= a(v_old) differs from c <= upgrade(a)")
    ctx.require(Iff(fresh(a) == fresh(c), False), "cross-eq", "kinds of different versions compare equal")
    # a cross-version comparison / union / intersection must not change its operands: the same objects, used again,
    # still equal an untouched copy (same version), hash alike, and order alike
    a2, c2 = fresh(a), fresh(c)
    first = a2 <= c2
    _ = c2 <= a2
    _ = a2.union(c2)
    _ = a2.intersection(c2)
    ctx.require(a2 == fresh(a), "cross-operand-changed", "a cross-version <= / union / intersection changed its older operand (it no longer equals an identically built kind)")
    ctx.require(c2 == fresh(c), "cross-operand-changed-newer", "a cross-version <= / union / intersection changed its newer operand")
    ctx.require(Iff(first, a2 <= c2), "cross-le-stable", "a(v_old) <= c(v_new) changes its answer when asked again on the same objects")
    ctx.check(a2.version == lo and c2.version == hi, "cross-version-changed", "a cross-version operation changed the version of an operand")
    ctx.witness("cross")


def h_upgrade_monotone(ctx, va, vb, triggers_free=None):
    """a <= b (older version)  =>  upgrade(a) <= upgrade(b); and transitivity across versions."""
    from vf.logic import And, Implies

    lo, hi = min(va, vb), max(va, vb)
    a, b = _kind_t(ctx, "a", lo, triggers_free), _kind_t(ctx, "b", lo, triggers_free)
    c = _kind(ctx, "c", hi)
    fresh = lambda k: _clone(ctx, k)  # noqa: E731
    ab = fresh(a) <= fresh(b)
    ua = fresh(a).union(_inject(ctx_const(ctx), hi))
    ub = fresh(b).union(_inject(ctx_const(ctx), hi))
    ctx.require(Implies(ab, fresh(ua) <= fresh(ub)), "upgrade-monotone", "a<=b but upgrade(a)<=upgrade(b) is false")
    ctx.require(Implies(And(ab, fresh(b) <= fresh(c)), fresh(a) <= fresh(c)), "cross-transitive",
                "a<=b (old version), b<=c (new version) but not a<=c")
    ctx.witness("upgrade")


def ctx_const(ctx):
    if ctx.mode == "replay":
        return set()
    from vf.sfs import SymFeatureSet

    return SymFeatureSet.const([])


def h_hash(ctx, version):
    """a == b  =>  hash(a) == hash(b); free bits restricted to the sub-universe (hash iterates the set)."""
    a, b = _kind(ctx, "a", version, sub=True), _kind(ctx, "b", version, sub=True)
    eq = _clone(ctx, a) == _clone(ctx, b)
    if eq:  # forks: only the equal side is interesting
        ha, hb = hash(_clone(ctx, a)), hash(_clone(ctx, b))
        ctx.check(ha == hb, "hash", f"a == b (version {version}) but hash(a) != hash(b)")
        ctx.witness("equal-kinds")
    else:
        ctx.witness("different-kinds")


def h_implicit_version(ctx, sub):
    """version=None kinds: version is the newest feature's; laws against explicit kinds of that version."""
    from vf.logic import Iff

    a = _kind(ctx, "a", None, sub=sub)
    v = _clone(ctx, a).version
    b = _kind(ctx, "b", None, sub=sub)
    vb = _clone(ctx, b).version
    ctx.check(v in VERSIONS and vb in VERSIONS, "implicit-version-range", f"implicit versions {v}, {vb}")
    ea, eb = _inject(a._features.copy(), v), _inject(b._features.copy(), vb)
    ctx.require(Iff(_clone(ctx, a) <= _clone(ctx, b), ea <= eb), "implicit-le", "a<=b with implicit versions differs from the explicit-version comparison")
    ctx.require(_clone(ctx, a) <= _clone(ctx, a), "implicit-reflexive", "a <= a false for an implicit-version kind")
    # a kind with a derived version and the kind that declares that version are equal, so they hash alike
    ctx.require(_clone(ctx, a) == ea, "implicit-eq-explicit", "a kind with an implicit version differs from the same features with that version declared")
    ctx.check(hash(_clone(ctx, a)) == hash(ea), "hash-implicit", f"implicit-version kind == explicit version-{v} kind but the hashes differ")
    ctx.check(hash(_clone(ctx, a)) == hash(_clone(ctx, a)), "hash-implicit-self", "two equal implicit-version kinds hash differently")
    ctx.witness(f"implicit-v{v}-v{vb}")


def shards(tier, seed):
    out = []
    for v in VERSIONS:
        out.append(dict(name=f"order-v{v}", fn="h_order", kwargs=dict(version=v), budget=120, per_path=60))
        out.append(dict(name=f"lattice-v{v}", fn="h_lattice", kwargs=dict(version=v), budget=120, per_path=60))
        out.append(dict(name=f"stable-v{v}", fn="h_no_side_effect", kwargs=dict(version=v), budget=120, per_path=60))
        out.append(dict(name=f"hash-v{v}", fn="h_hash", kwargs=dict(version=v), budget=200 if tier == "quick" else 1500, per_path=30))
    for va, vb in ((1, 2), (2, 3), (1, 3)):
        if tier == "quick":
            groups = [["CONTINUOUS_NUMBERS", "NUMERIC_FLUENTS"], ["DISCRETE_NUMBERS", "NUMERIC_FLUENTS"], ["ACTIONS_COST", "OVERSUBSCRIPTION"],
                      ["CONTINUOUS_TIME", "DISCRETE_TIME"], ["CONTINUOUS_NUMBERS", "DISCRETE_NUMBERS", "NUMERIC_FLUENTS"]] if va == 1 else [[]]
        else:
            groups = [None]
        for gi, g in enumerate(groups):
            out.append(dict(name=f"cross-le-v{va}-v{vb}-g{gi}", fn="h_cross_le", kwargs=dict(va=va, vb=vb, triggers_free=g),
                            budget=200 if tier == "quick" else 1500, per_path=60))
            out.append(dict(name=f"upgrade-monotone-v{va}-v{vb}-g{gi}", fn="h_upgrade_monotone", kwargs=dict(va=va, vb=vb, triggers_free=g),
                            budget=200 if tier == "quick" else 3000, per_path=60))
    small = ["PROCESSES", "INT_FLUENTS", "ACTION_BASED"]
    out.append(dict(name="implicit-version-small", fn="h_implicit_version", kwargs=dict(sub=small), budget=120, per_path=30))
    if tier == "thorough":
        out.append(dict(name="implicit-version-sub", fn="h_implicit_version",
                        kwargs=dict(sub=["PROCESSES", "EVENTS", "INT_FLUENTS", "REAL_FLUENTS", "UNDEFINED_INITIAL_NUMERIC", "ACTION_BASED", "NUMERIC_FLUENTS"]),
                        budget=1500, per_path=30))
    return out


MANIFEST = dict(
    engine="symex",
    technique="symbolic execution (CrossHair/z3) of ProblemKind operators on symbolic feature sets (one solver Boolean per feature); each lattice law is one solver query over all 2^390 triples",
    text="Bounded (finite-universe) model checking that is complete for the order laws: all feature subsets of the real feature universe, versions 1-3 and all version pairs, "
         "are covered by solver queries over the real __le__/__eq__/union/intersection/equalize_versions code. The hash law and implicit versions are exhaustive over a stated sub-universe.",
    note="Trusted: SymFeatureSet's model of the set API (vf/sfs.py), z3. Counterexample kinds are replayed with real Python sets.",
)
