"""C32 Factory engine selection honours every requested requirement.

Symbolic (E1s): the problem kind K -- one solver Boolean per feature, injected into a real ProblemKind.
 * `h_satisfies`: ALL feature bits free (2^88 kinds at once).  The real Factory._engine_satisfies_conditions runs for every
   registered engine, every operation mode and every requirement the public API can pass; its (symbolic) verdict must be
   equivalent, for every kind, to  is_<mode>() and <requirement predicate> and Engine.supports(K)  -- one solver query each.
 * `h_select`: the real public entry points (Factory.Compiler / PlanValidator / OneshotPlanner / AnytimePlanner / PlanRepairer /
   PortfolioSelector -> _get_engine -> _get_engine_class; _get_engine_class directly for the modes that need a problem object)
   with mode, requirement and preference-list variant drawn by choice variables.  _get_engine_class iterates
   problem_kind.features (one fork per undecided bit), so K's free bits are a sub-universe computed at run time from the
   registry: one representative per distinct "support column" of the candidate engines (features with the same column are
   interchangeable for which candidates accept a kind), the rest fixed absent / (second background) fixed present.
   Assertions: the returned engine is an engine of the preference list, implements the mode, satisfies every requirement and
   supports K; UPNoSuitableEngineAvailableException is raised iff no engine of the preference list qualifies (oracle: own loop
   over the registry); nothing else is raised.
 * `h_pipeline` (shared with C09 part B): a requested compilation pipeline accepts each intermediate kind.
Registries: the offline built-in one (15 compilers, 2 validators, the simulator) and an extended one where stub planners,
anytime planners, repairers, portfolios, a validator, action selectors and a second grounder are added through the real
Factory.add_engine (which builds the real Replanner / OversubscriptionPlanner / InterpretedFunctionsPlanner meta engines).
"""
PROPERTY = "C32"
LEVEL = "model_checking"
FUNCTIONS = [
    "unified_planning.engines.factory:Factory._engine_satisfies_conditions",
    "unified_planning.engines.factory:Factory._get_engine_class",
    "unified_planning.engines.factory:Factory._get_engine",
    "unified_planning.engines.factory:Factory.Compiler",
    "unified_planning.engines.factory:Factory.PlanValidator",
    "unified_planning.engines.factory:Factory.OneshotPlanner",
    "unified_planning.engines.factory:Factory.AnytimePlanner",
    "unified_planning.engines.factory:Factory.PlanRepairer",
    "unified_planning.engines.factory:Factory.PortfolioSelector",
    "unified_planning.engines.factory:Factory.add_engine",
    "unified_planning.engines.factory:format_table",
    "unified_planning.engines.meta_engine:MetaEngineMeta.__getitem__",
    "unified_planning.engines.replanner:Replanner._supports",
    "unified_planning.engines.oversubscription_planner:OversubscriptionPlanner._supports",
    "unified_planning.engines.interpreted_functions_planner:InterpretedFunctionsPlanner._supports",
    "unified_planning.engines.plan_validator:SequentialPlanValidator.supports",
    "unified_planning.engines.plan_validator:TimeTriggeredPlanValidator.supports",
    "unified_planning.engines.sequential_simulator:UPSequentialSimulator.supports",
    "unified_planning.engines.compilers.grounder:Grounder.supports",
    "unified_planning.model.problem_kind:ProblemKind.__le__",
]
BOUNDS = ("h_satisfies: every kind over the full feature universe (all bits free; versions 3 and 2, thorough also 1), every registered engine x every "
          "operation mode x every requirement value (optimality / anytime guarantee, plan kind, compilation kind, and plan kind x optimality for repairers); "
          "h_select: per (mode, requirement) the free bits are one representative feature per distinct support column of the candidate engines, at most "
          "5 (quick) / 9 (thorough) bits, mixed columns first, then a feature no candidate supports and one every candidate supports; two backgrounds "
          "(other features absent / five commonly supported ones and the deprecated ones present); preference list: default, reversed, candidates rotated, "
          "first candidate removed; version 3 (thorough: 2 and 1 too); registries: built-in offline (18 engines) and extended with 14 stub engines (41 engines)")
OUTSIDE = ("h_select on kinds that differ from the explored ones inside a support column's equivalence class or beyond the bit cap "
           "(Factory._get_engine_class iterates the feature set: forks per free bit); third-party planners (not installed offline; stub engines stand in for "
           "the planner/anytime/repairer/portfolio/selector roles); engine construction for SEQUENTIAL_SIMULATOR / REPLANNER / ACTION_SELECTOR (needs a problem "
           "object; _get_engine_class is called directly for those modes); names=[...] parallel engines; configuration files")
ASSUMPTIONS = ["the kind is built by injecting the feature set (k._features); ProblemKind's module-level name `set` keeps a symbolic set symbolic",
               "S6: supported_kind() of every registered engine and get_valid_features(version) run natively, outside the tracer (vf/kindsym.py); "
               "FastSFS is SymFeatureSet with decided bits kept as literals",
               "Engine.supports(K) of the real engine class is the definition of 'supports the problem kind' (the factory must agree with it)",
               "stub engines (vf/c32_engines.py) are registered through the real Factory.add_engine; their supports is `kind <= supported_kind()` like the built-in ones"]

MODES = ["oneshot_planner", "anytime_planner", "plan_validator", "portfolio_selector", "compiler", "sequential_simulator", "replanner",
         "plan_repairer", "action_selector"]
REPAIR_PLAN_KINDS = [None, "SEQUENTIAL_PLAN", "TIME_TRIGGERED_PLAN", "PARTIAL_ORDER_PLAN"]


def _reqs(mode):
    from vf import kindlib

    return kindlib.requirements(mode, plan_kinds=REPAIR_PLAN_KINDS if mode == "plan_repairer" else None)


def h_satisfies(ctx, registry, modes, version):
    """_engine_satisfies_conditions == is_mode and requirement and supports(K), for every kind K at once."""
    from unified_planning.engines.engine import OperationMode
    from vf import kindlib
    from vf.logic import And, Iff

    env = ctx.fresh_env()
    f = kindlib.setup_factory(ctx, env, registry)
    mode = ctx.pick("mode", modes)
    req = ctx.pick("req", _reqs(mode))
    rq = kindlib.req_enums(req)
    K = kindlib.make_kind(ctx, "K", version)  # all bits free
    om = OperationMode(mode)
    for name in list(f.engines):
        E = f.engine(name)
        real = f._engine_satisfies_conditions(E, om, kindlib.clone(K), rq["og"], rq["ck"], rq["pk"], rq["ag"])
        static = kindlib.static_ok(E, mode, rq)
        if not static:
            ctx.check(real is False, "satisfies:accepts-unqualified-engine",
                      f"_engine_satisfies_conditions({name}, {mode}, {req}) is not False although the engine does not implement the mode or a requirement")
            ctx.witness("rejected-statically")
            continue
        sup = E.supports(kindlib.clone(K))
        kindlib.require(ctx, lambda: Iff(real, And(sup)), "satisfies:differs-from-supports",
                    f"_engine_satisfies_conditions({name}, {mode}, {req}) differs from {name}.supports(K) for some kind K")
        ctx.witness("kind-dependent")


def _call(f, mode, K, rq):
    """The public entry point of the mode; returns the engine class selected."""
    from unified_planning.engines.engine import OperationMode

    if mode == "compiler":
        return type(f.Compiler(problem_kind=K, compilation_kind=rq["ck"])), True
    if mode == "plan_validator":
        return type(f.PlanValidator(problem_kind=K, plan_kind=rq["pk"])), True
    if mode == "oneshot_planner":
        return type(f.OneshotPlanner(problem_kind=K, optimality_guarantee=rq["og"])), True
    if mode == "anytime_planner":
        return type(f.AnytimePlanner(problem_kind=K, anytime_guarantee=rq["ag"])), True
    if mode == "plan_repairer":
        return type(f.PlanRepairer(problem_kind=K, plan_kind=rq["pk"], optimality_guarantee=rq["og"])), True
    if mode == "portfolio_selector":
        return type(f.PortfolioSelector(problem_kind=K, optimality_guarantee=rq["og"])), True
    # SEQUENTIAL_SIMULATOR / REPLANNER / ACTION_SELECTOR construct the engine on a problem object: stop at the class
    return f._get_engine_class(OperationMode(mode), problem_kind=K, optimality_guarantee=rq["og"]), False


MAX_BG = 5


def _sub_universe(f, pref, mode, rq, version, cap):
    from vf import kindlib

    cands = [f.engine(n) for n in pref if kindlib.static_ok(f.engine(n), mode, rq)]
    reps, _classes = kindlib.column_representatives(cands, version)
    free = reps[:cap]
    common = set(kindlib.valid_features(version))
    for E in cands:
        common &= set(E.supported_kind().features)
    present = sorted(common - set(free))[:MAX_BG] + kindlib.deprecated(version)
    return free, [p for p in present if p not in free]


def _pref_variant(ctx, f, mode, rq):
    from vf import kindlib

    pref = list(f.preference_list)
    cand = [n for n in pref if kindlib.static_ok(f.engine(n), mode, rq)]
    v = ctx.choice("pref", 4 if len(cand) >= 2 else 2)
    if v == 1:
        pref = list(reversed(pref))
    elif v == 2:  # rotate the candidates among their own positions
        rot = cand[1:] + cand[:1]
        it = iter(rot)
        pref = [next(it) if n in cand else n for n in pref]
    elif v == 3:  # a preference list that omits the first candidate: it must never be selected
        pref = [n for n in pref if n != cand[0]]
    return pref


ERROR_TABLE_ASSERT = "issubclass(EngineClass, OneshotPlannerMixin)"


def h_select(ctx, registry, modes, version, cap, req_part=None):
    import traceback

    import unified_planning as up
    from vf import kindlib
    from vf.logic import And, Not, Or

    env = ctx.fresh_env()
    f = kindlib.setup_factory(ctx, env, registry)
    mode = ctx.pick("mode", modes)
    reqs = _reqs(mode)
    if req_part is not None:
        reqs = reqs[req_part[0]::req_part[1]]
    req = ctx.pick("req", reqs)
    rq = kindlib.req_enums(req)
    pref = _pref_variant(ctx, f, mode, rq)
    f.preference_list = pref  # the real setter
    bg = ctx.choice("background", 2)
    with ctx.untraced():
        free, present = _sub_universe(f, pref, mode, rq, version, cap)
    ctx.note("free", free)
    K = kindlib.make_kind(ctx, "K", version, free=free, present=present if bg else ())
    K0 = kindlib.clone(K)
    try:
        E, _instantiated = _call(f, mode, K, rq)
    except up.exceptions.UPNoSuitableEngineAvailableException:
        E = None
    except AssertionError as e:
        last = traceback.extract_tb(e.__traceback__)[-1]
        if last.name == "_get_engine_class" and ERROR_TABLE_ASSERT in (last.line or ""):
            # the factory was composing its "no suitable engine" report and tripped over its own assertion
            ctx.fail(f"select:assertion-in-error-report:{mode}",
                     f"{mode} {req}: AssertionError (`{last.line}`) instead of UPNoSuitableEngineAvailableException while reporting that no engine qualifies")
        raise
    # oracle: own loop over the registry (restricted to the preference list: engines outside it are never picked automatically)
    qual = [(n, f.engine(n).supports(kindlib.clone(K0))) for n in pref if kindlib.static_ok(f.engine(n), mode, rq)]
    if E is None:
        kindlib.require(ctx, lambda: Not(Or(*[q for _n, q in qual])) if qual else True, "select:refuses-although-an-engine-qualifies",
                    f"{mode} {req}: UPNoSuitableEngineAvailableException although an engine of the preference list qualifies")
        ctx.witness("no-suitable")
        return
    names = [n for n in pref if f.engine(n) is E]
    ctx.check(bool(names), "select:engine-outside-preference-list", f"{mode} {req}: returned {E.__name__}, which is not an engine of the preference list")
    ctx.check(kindlib.static_ok(E, mode, rq), "select:requirement-not-honoured",
              f"{mode} {req}: returned {names} which does not implement the mode or a requested requirement")
    sup = E.supports(kindlib.clone(K0))
    kindlib.require(ctx, lambda: And(sup), "select:unsupported-kind", f"{mode} {req}: returned {names} does not support the problem kind")
    ctx.witness("selected")


def h_pipeline(ctx, **kwargs):
    from vf.props import c09

    return c09.h_pipeline(ctx, **kwargs)


def shards(tier, seed):
    out = []
    q = tier == "quick"
    # --- universal over kinds: _engine_satisfies_conditions
    others = [m for m in MODES if m != "compiler"]
    sat = [("builtin", "compiler", ["compiler"]), ("builtin", "other-modes", others), ("ext", "compiler", ["compiler"]),
           ("ext", "planners", ["oneshot_planner", "anytime_planner", "portfolio_selector", "replanner"]),
           ("ext", "others", ["plan_validator", "plan_repairer", "sequential_simulator", "action_selector"])]
    for reg, gname, modes in sat:
        for v in ((3, 2) if q else (3, 2, 1)):
            if q and v == 2 and gname != "compiler":
                continue
            out.append(dict(name=f"satisfies-{reg}-{gname}-v{v}", fn="h_satisfies", kwargs=dict(registry=reg, modes=modes, version=v),
                            budget=150 if q else 900, per_path=60))
    # --- selection through the public API, sub-universe
    cap = 5 if q else 9
    sel = [("builtin", "compiler", ["compiler"]), ("builtin", "validator-simulator", ["plan_validator", "sequential_simulator"]),
           ("builtin", "modes-without-engine", ["oneshot_planner", "anytime_planner", "portfolio_selector", "replanner", "plan_repairer", "action_selector"]),
           ("ext", "compiler", ["compiler"]), ("ext", "oneshot", ["oneshot_planner"]), ("ext", "anytime-portfolio", ["anytime_planner", "portfolio_selector"]),
           ("ext", "replanner", ["replanner"]), ("ext", "repairer", ["plan_repairer"]),
           ("ext", "validator-simulator-selector", ["plan_validator", "sequential_simulator", "action_selector"])]
    for reg, nm, modes in sel:
        for v in ((3,) if q else (3, 2, 1)):
            parts = [None] if nm != "compiler" else [[0, 2], [1, 2]]
            for part in parts:
                out.append(dict(name=f"select-{reg}-{nm}-v{v}" + ("" if part is None else f"-part{part[0]}"), fn="h_select",
                                kwargs=dict(registry=reg, modes=modes, version=v, cap=cap, req_part=part), budget=200 if q else 900, per_path=60))
    # --- pipelines (same harness as C09 part B)
    firsts = ["CONDITIONAL_EFFECTS_REMOVING", "USERTYPE_FLUENTS_REMOVING"] if q else ["CONDITIONAL_EFFECTS_REMOVING", "USERTYPE_FLUENTS_REMOVING", "GROUNDING",
                                                                                  "NEGATIVE_CONDITIONS_REMOVING", "CONFORMANT_TO_CLASSICAL"]
    for first in firsts:
        out.append(dict(name=f"pipeline-builtin-{first}", fn="h_pipeline",
                        kwargs=dict(registry="builtin", version=3, max_len=2 if q else 3, cap=3 if q else 4, first=first), budget=150 if q else 900, per_path=60))
    out.append(dict(name="pipeline-ext-GROUNDING", fn="h_pipeline", kwargs=dict(registry="ext", version=3, max_len=2, cap=3 if q else 4, first="GROUNDING"),
                    budget=150 if q else 900, per_path=60))
    return out


MANIFEST = dict(
    engine="symex",
    technique="symbolic execution (CrossHair/z3) of the real Factory selection code on a symbolic ProblemKind feature set (one solver Boolean per feature); "
              "operation mode, requirement and preference list by choice variables; oracle = own loop over the registry with the engines' real supports()",
    text="_engine_satisfies_conditions is decided for every kind over the full feature universe (2^88 kinds per query) against every registered engine, mode and "
         "requirement. Engine selection through the public API is decided exhaustively per (mode, requirement, preference-list variant) over a run-time computed "
         "sub-universe of feature bits (one representative per support column of the candidate engines, <= 6/9 bits) because the factory iterates the feature set. "
         "Returned engines must qualify; a refusal must be justified; no other exception may escape.",
    note="Planner/anytime/repairer/portfolio/selector roles are played by stub engines registered through Factory.add_engine (no third-party planner offline). "
         "Trusted: SymFeatureSet/FastSFS model of the set API, z3. Counterexample kinds are replayed with real Python sets in a clean interpreter.",
)
