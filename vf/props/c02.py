"""C02 Simulator applicability queries agree with apply.

Same skeleton family and symbolic leaves as C01 (vf/gen.py), no reference semantics: the real
query methods are compared with each other on every path:
  is_applicable(s,a)            ==  (apply(s,a) is not None)
  set(get_applicable_actions(s)) == {a : apply(s,a) is not None}
  is_goal(s)                    ==  (get_unsatisfied_goals(s) == [])   (a raising get_unsatisfied_goals is not an empty list)
and every query is repeated after the others, in an order chosen by a choice variable, and must give the
same answer; the state passed in keeps its observable content.
States: the initial state (arbitrary, since all initial values are free) and, in a second
round, the successor of an applicable action.
"""
from vf import gen

PROPERTY = "C02"
LEVEL = "model_checking"
FUNCTIONS = [
    "unified_planning.engines.sequential_simulator:UPSequentialSimulator._is_applicable",
    "unified_planning.engines.sequential_simulator:UPSequentialSimulator._apply",
    "unified_planning.engines.sequential_simulator:UPSequentialSimulator.apply_unsafe",
    "unified_planning.engines.sequential_simulator:UPSequentialSimulator.get_unsatisfied_conditions",
    "unified_planning.engines.sequential_simulator:UPSequentialSimulator._get_applicable_actions",
    "unified_planning.engines.sequential_simulator:UPSequentialSimulator.get_unsatisfied_goals",
    "unified_planning.engines.sequential_simulator:UPSequentialSimulator._is_goal",
    "unified_planning.engines.compilers.grounder:GrounderHelper.get_grounded_actions",
]
BOUNDS = ("skeleton family G (vf/gen.py, QUICK list + skeletons aimed at the full_check path: Boolean add-after-delete under an invariant, "
          "conditional effects on invariant fluents, conflicting conditional assignments); <= 2 symbolic numeric leaves per shard in small windows; "
          "states: the initial state (arbitrary: all initial values free), thorough also one successor; 2 query orders plus the reverse re-query")
OUTSIDE = "larger problems, deeper states, simulated effects, real-valued fluents"
ASSUMPTIONS = ["hash-consing tables keyed syntactically for symbolic constants (S2'); counterexamples are replayed with the real tables"]

EXTRA = [
    # the full_check path evaluates effects on fluents read by invariants separately from apply_unsafe
    dict(pre=[], effs=[0, 1], effcond=2, inv=[1], goal=[0], sym=[]),                 # b := false; when p(x): b := true; always b or p(o1)
    dict(pre=[], effs=[1, 10], effcond=12, inv=[1], goal=[0], sym=[]),               # only a conditional effect on the invariant fluent b
    dict(pre=[], effs=[5, 12], effcond=0, inv=[0], n_bounds="both", goal=[0], sym=["x0", "c2"]),   # conditional numeric assignment on a bounded, invariant-read fluent
    dict(pre=[], effs=[9, 3], effcond=2, inv=[0], n_bounds="upper", goal=[0], sym=["x0", "d"]),    # conditional increase + decrease under invariant and bound
    dict(pre=[], effs=[13, 10], effcond=0, inv=[1], goal=[12], sym=[]),              # forall conditional delete + add on p, invariant reads p(o1)
    dict(pre=[], effs=[4, 5], effcond=4, n_bounds="both", goal=[0], sym=["c1", "c2"]),  # assignment conflict only when the condition fires
    dict(pre=[], effs=[12, 10], goal=[0, 2], sym=[]),                                # two goals: is_goal must look at all of them
    dict(pre=[], effs=[10], goal=[2, 0, 12], sym=[]),
    # the invariant reads p through a NESTED fluent (not p(w(o1))): which ground p it denotes depends on the state
    dict(pre=[], effs=[10], inv=[5], goal=[0], w_init="any", sym=[]),
    dict(pre=[], effs=[7, 12], inv=[5], goal=[0], w_init="any", sym=[]),             # ... and an action that moves w
]


def _snapshot(prob, em, s):
    out = []
    import itertools
    for f in prob.fluents:
        doms = [list(prob.objects(p.type)) for p in f.signature]
        for combo in itertools.product(*doms):
            fe = em.FluentExp(f, [em.ObjectExp(o) for o in combo])
            try:
                out.append(s.get_value(fe))
            except Exception as e:
                if type(e).__name__ != "UPStateMissingFluentError":
                    raise
                out.append(None)
    return out


def _same(a, b):
    if len(a) != len(b):
        return False
    for x, y in zip(a, b):
        if (x is None) != (y is None):
            return False
        if x is not None and x is not y and x.constant_value() != y.constant_value():
            return False
    return True


def h_queries(ctx, sk, depth=1):
    from unified_planning.engines.sequential_simulator import UPSequentialSimulator
    from unified_planning.exceptions import UPProblemDefinitionError, UPStateMissingFluentError

    g = gen.build(ctx, sk)
    prob, em = g.problem, g.em
    sim = UPSequentialSimulator(prob, error_on_failed_checks=False)
    try:
        s = sim.get_initial_state()
    except UPProblemDefinitionError:
        ctx.witness("initial-state-rejected")
        return
    instances = [(a, o) for a in g.actions for o in g.objs]
    for d in range(depth):
        snap = _snapshot(prob, em, s)

        def q_app():
            return tuple(sim.is_applicable(s, a, (em.ObjectExp(o),)) for a, o in instances)

        def q_apply():
            return tuple(sim.apply(s, a, (em.ObjectExp(o),)) is not None for a, o in instances)

        def q_list():
            got = set((a.name, tuple(str(p) for p in params)) for a, params in sim.get_applicable_actions(s))
            return tuple((a.name, (o.name,)) in got for a, o in instances)

        def q_goal():
            ig = sim.is_goal(s)
            try:
                ug = sim.get_unsatisfied_goals(s) == []
            except UPStateMissingFluentError:
                ug = False
            return (ig, ug)

        queries = [("is_applicable", q_app), ("apply", q_apply), ("get_applicable_actions", q_list), ("goal", q_goal)]
        order = ([0, 1, 2], [2, 1, 0])[ctx.choice(f"order{d}", 2)] + [3]
        first = {}
        for i in order:
            name, q = queries[i]
            first[name] = q()
            ctx.check(_same(snap, _snapshot(prob, em, s)), f"state-changed-by:{name}", f"the state passed to {name} changed its observable content")
        for idx, (a, o) in enumerate(instances):
            ia, ap, li = first["is_applicable"][idx], first["apply"][idx], first["get_applicable_actions"][idx]
            ctx.check(ia == ap, "is_applicable-vs-apply", f"{a.name}({o.name}): is_applicable={ia} but apply {'succeeds' if ap else 'returns None'}")
            ctx.check(li == ap, "get_applicable_actions-vs-apply", f"{a.name}({o.name}): listed={li} but apply {'succeeds' if ap else 'returns None'}")
            ctx.witness("applicable" if ap else "inapplicable")
        ig, ug = first["goal"]
        ctx.check(ig == ug, "is_goal-vs-unsatisfied-goals", f"is_goal={ig} but get_unsatisfied_goals()==[] is {ug}")
        # ask everything again, in the reverse order: earlier queries must not change later answers
        for i in reversed(order):
            name, q = queries[i]
            again = q()
            ctx.check(again == first[name], f"answer-changed:{name}", f"{name} answered {first[name]} first and {again} after other queries")
        # move on to a successor (first applicable instance chosen by a choice variable)
        if d + 1 < depth:
            appl = [inst for inst, ok in zip(instances, first["apply"]) if ok]
            if not appl:
                break
            a, o = appl[ctx.choice(f"next{d}", len(appl))]
            s = sim.apply(s, a, (em.ObjectExp(o),))
    ctx.note("skeleton", gen.describe(sk))


INTERLEAVE = [
    # a(x): precondition reads an undefined fluent after a defined one (the evaluation fails half way);
    # a2(x): changes n and tests it
    dict(pre=[9], effs=[12], second_action=[2, 10], pre2=[4], goal=[0, 4], n_bounds="both", sym=["x0"]),
    dict(pre=[12], effs=[17, 12], second_action=[2, 15], pre2=[4], goal=[0], n_bounds="both", sym=["c"]),
    dict(pre=[2], effs=[0, 1], effcond=9, second_action=[3, 10], pre2=[5], goal=[5], n_bounds="both", sym=[]),
    # the same with the undefined fluent as LEFT operand (operands are evaluated right to left: n's value is in the walker's
    # table when u fails)
    dict(pre=[18], effs=[12], second_action=[2, 10], pre2=[4], goal=[0, 4], n_bounds="both", sym=["x0"]),
    dict(pre=[18], effs=[12], second_action=[3], pre2=[5], goal=[18], n_bounds="both", sym=["c"]),
]


def h_interleave(ctx, sk):
    """Queries on TWO states of one simulator, interleaved in every order: a query that fails internally (undefined fluent)
    on one state must not change the answer of the next query on the other state.  Reference answers come from fresh simulators."""
    from unified_planning.engines.sequential_simulator import UPSequentialSimulator
    from unified_planning.exceptions import UPProblemDefinitionError

    g = gen.build(ctx, sk)
    prob, em = g.problem, g.em
    sim = UPSequentialSimulator(prob, error_on_failed_checks=False)
    try:
        s = sim.get_initial_state()
    except UPProblemDefinitionError:
        ctx.witness("initial-state-rejected")
        return
    instances = [(a, o) for a in g.actions for o in g.objs]
    par = lambda o: (em.ObjectExp(o),)  # noqa: E731

    def truth(state):
        # one fresh simulator per STATE: whatever a failing query leaves behind belongs to the same state
        r = UPSequentialSimulator(prob, error_on_failed_checks=False)
        out = [r.apply(state, a, par(o)) is not None for a, o in instances]
        return out, r.is_goal(state)

    t_s, g_s = truth(s)
    appl = [i for i, ok in enumerate(t_s) if ok]
    if not appl:
        ctx.witness("no-successor")
        return
    j = appl[ctx.choice("succ", len(appl))]
    s2 = sim.apply(s, instances[j][0], par(instances[j][1]))
    t_s2, g_s2 = truth(s2)
    states = [(s, t_s, g_s, "s"), (s2, t_s2, g_s2, "s'")]
    for (sa, ta, ga, na) in states:
        for ia, (a, o) in enumerate(instances):
            if a is not g.a:
                continue  # the first query is on the action whose evaluation can fail half way
            for (sb, tb, gb, nb) in states:
                if sa is sb:
                    continue
                r1 = sim.is_applicable(sa, a, par(o))
                ctx.check(r1 == ta[ia], "interleave:first", f"is_applicable({na}, {a.name}({o.name}))={r1}, a fresh simulator says {ta[ia]}")
                for ib, (b, o2) in enumerate(instances):
                    r2 = sim.is_applicable(sb, b, par(o2))
                    ctx.check(r2 == tb[ib], "interleave:is_applicable-after-other-state",
                              f"after is_applicable({na}, {a.name}({o.name})), is_applicable({nb}, {b.name}({o2.name}))={r2} but a fresh simulator says {tb[ib]}")
                    _ = sim.is_applicable(sa, a, par(o))
                    r4 = sim.apply(sb, b, par(o2)) is not None
                    ctx.check(r4 == tb[ib], "interleave:apply-after-other-state",
                              f"after a query on {na}, apply({nb}, {b.name}({o2.name})) {'succeeds' if r4 else 'fails'} but a fresh simulator says {tb[ib]}")
                    ctx.witness("interleaved")
                _ = sim.is_applicable(sa, a, par(o))
                ctx.check(sim.is_goal(sb) == gb, "interleave:is_goal-after-other-state", f"is_goal({nb}) differs from a fresh simulator after a query on {na}")
    ctx.note("skeleton", gen.describe(sk))


def shards(tier, seed):
    out = []
    sks = EXTRA + gen.QUICK
    for i, sk in enumerate(INTERLEAVE):
        out.append(dict(name=f"interleave{i}", fn="h_interleave", kwargs=dict(sk=sk), budget=240 if tier == "quick" else 1200, per_path=60))
    if tier == "quick":
        sks = EXTRA + [dict(sk, sym=syms[0]) for sk, syms in gen._BASE]
        for i, sk in enumerate(sks):
            out.append(dict(name=f"q{i:02d}", fn="h_queries", kwargs=dict(sk=sk, depth=1), budget=110, per_path=30))
    else:
        for i, sk in enumerate(sks):
            out.append(dict(name=f"q{i:02d}-d2", fn="h_queries", kwargs=dict(sk=sk, depth=2), budget=1500, per_path=60))
        for i, sk in enumerate(gen.thorough_skeletons()):
            out.append(dict(name=f"t{i:03d}", fn="h_queries", kwargs=dict(sk=dict(sk, inv=[0, 1]), depth=1), budget=600, per_path=60))
    return out


MANIFEST = dict(
    engine="symex",
    technique="symbolic execution (CrossHair/z3) of the real simulator's query methods on skeleton problems with symbolic numeric leaves; differential comparison of the real methods on every path",
    text="Bounded model checking (differential): for each skeleton and every value of its symbolic leaves in the stated windows, is_applicable, apply, get_applicable_actions, "
         "is_goal and get_unsatisfied_goals agree with one another, in every query order, and leave the state unchanged.",
    note="Trusted: CrossHair's int model, z3. No reference semantics involved (C01 ties apply to the semantics). Outside: structures beyond the skeleton list.",
)
