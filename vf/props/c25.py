"""C25 DeltaSTN decides temporal consistency exactly.

Symbolic: the bound of every inserted constraint (unbounded ints; k/4 rationals in the
thorough tier).  Structure (endpoints of each insertion, copy point) by choice variables.
Real code: DeltaSimpleTemporalNetwork.add/_is_subsumed/_inc_check/copy_stn/check_stn/
get_stn_model/get_constraints/insert_interval.
Oracle (closed form over the symbolic bounds, one solver query per check):
  consistent  <=>  every simple cycle of the inserted multigraph has weight >= 0
  model       ==   least non-negative solution (no other non-negative solution is
                   smaller at some event; model satisfies every inserted constraint)
"""
from fractions import Fraction

PROPERTY = "C25"
LEVEL = "model_checking"
FUNCTIONS = [
    "unified_planning.model.delta_stn:DeltaSimpleTemporalNetwork.add",
    "unified_planning.model.delta_stn:DeltaSimpleTemporalNetwork._is_subsumed",
    "unified_planning.model.delta_stn:DeltaSimpleTemporalNetwork._inc_check",
    "unified_planning.model.delta_stn:DeltaSimpleTemporalNetwork.copy_stn",
    "unified_planning.model.delta_stn:DeltaSimpleTemporalNetwork.get_stn_model",
    "unified_planning.model.delta_stn:DeltaSimpleTemporalNetwork.get_constraints",
    "unified_planning.model.delta_stn:DeltaSimpleTemporalNetwork.insert_interval",
]
BOUNDS = ("events <= 3 (quick) / 4 (thorough); insertions <= 4 (quick) / 5 (thorough); every bound an unbounded "
          "symbolic integer (thorough: also k/4 rationals, k unbounded); one copy point; epsilon = 0")
OUTSIDE = "longer histories, more events, epsilon != 0, float bounds, rational denominators other than 4"
ASSUMPTIONS = ["events are small ints (dict keys stay concrete); bounds are the solver variables",
               "first insertion fixed to (0,1) in the quick tier (event renaming symmetry)"]


def simple_cycles(edges):
    """edges: list of (x, y) meaning x - y <= b, i.e. arc x->y in the distance graph. Returns lists of edge indices."""
    res = []
    nodes = sorted({v for e in edges for v in e})

    def dfs(start, cur, used, path):
        for i, (x, y) in enumerate(edges):
            if x != cur:
                continue
            if y == start:
                res.append(path + [i])
            elif y not in used and y > start:
                dfs(start, y, used | {y}, path + [i])

    for s in nodes:
        dfs(s, s, {s}, [])
    return res


def _consistent_concrete(edges, bounds):
    return all(sum(bounds[i] for i in c) >= 0 for c in simple_cycles(edges))


def _least_solution_concrete(nodes, edges, bounds):
    # t_y >= t_x - b for every x - y <= b ; least non-negative solution by Bellman-Ford on longest paths
    t = {v: Fraction(0) for v in nodes}
    for _ in range(len(nodes) + 1):
        for (x, y), b in zip(edges, bounds):
            if t[x] - b > t[y]:
                t[y] = t[x] - b
    return t


def _check_network(ctx, stn, edges, bounds, tag):
    """Compare the real network with the oracle for the constraints inserted so far."""
    real_sat = stn.check_stn()
    ctx.check(isinstance(real_sat, bool), f"{tag}:check_stn-not-bool", "check_stn returned a non-bool")
    nodes = sorted({v for e in edges for v in e})
    if ctx.mode == "replay":
        ref = _consistent_concrete(edges, bounds)
        ctx.check(real_sat == ref, f"{tag}:consistency", f"check_stn()={real_sat} but constraints "
                  f"{list(zip(edges, map(str, bounds)))} are {'satisfiable' if ref else 'unsatisfiable'}")
        if real_sat:
            t = _least_solution_concrete(nodes, edges, bounds)
            for v in nodes:
                m = stn.get_stn_model(v)
                ctx.check(m == t[v], f"{tag}:model", f"get_stn_model({v})={m}, least non-negative solution has {t[v]}; "
                          f"constraints {list(zip(edges, map(str, bounds)))}")
        return real_sat
    import z3
    from vf.symctx import zvar

    cycles = simple_cycles(edges)

    def build_cons():
        zb = [zvar(b) for b in bounds]
        ref = z3.And([z3.Sum([zb[i] for i in c]) >= 0 for c in cycles]) if cycles else z3.BoolVal(True)
        return (ref != z3.BoolVal(real_sat)), {}

    ctx.forall(build_cons, None, f"{tag}:consistency", "check_stn() disagrees with 'no negative cycle'")
    if real_sat:
        models = {v: stn.get_stn_model(v) for v in nodes}

        def build_model():
            zb = [zvar(b) for b in bounds]
            zm = {v: zvar(models[v]) for v in nodes}
            s = {v: z3.Real(f"s_{v}") for v in nodes}
            bad_model = z3.Or([zm[v] < 0 for v in nodes] + [zm[x] - zm[y] > b for (x, y), b in zip(edges, zb)])
            other = z3.And([s[v] >= 0 for v in nodes] + [s[x] - s[y] <= b for (x, y), b in zip(edges, zb)]
                           + [z3.Or([s[v] < zm[v] for v in nodes])])
            return z3.Or(bad_model, other), {f"s_{v}": s[v] for v in nodes}

        ctx.forall(build_model, None, f"{tag}:model", "get_stn_model is not the least non-negative solution")
    return real_sat


def _check_constraints_view(ctx, stn, edges, bounds, tag):
    """get_constraints reports, per (x, dst), the tightest inserted bound (while consistent)."""
    view = stn.get_constraints()
    seen = {}
    for x, lst in view.items():
        for b, dst in lst:
            ctx.check((x, dst) not in seen, f"{tag}:view-dup", "get_constraints lists a pair twice")
            seen[(x, dst)] = b
    pairs = sorted(set(edges))
    ctx.check(sorted(seen) == pairs, f"{tag}:view-pairs", f"get_constraints pairs {sorted(seen)} != inserted {pairs}")
    for p in pairs:
        bs = [b for e, b in zip(edges, bounds) if e == p]
        if ctx.mode == "replay":
            ctx.check(seen[p] == min(bs), f"{tag}:view-bound", f"get_constraints bound for {p} is {seen[p]}, tightest inserted {min(bs)}")
        else:
            import z3
            from vf.symctx import zvar

            def build(p=p, bs=bs):
                r = zvar(seen[p])
                return z3.Or(z3.And([r != zvar(b) for b in bs]), z3.Or([r > zvar(b) for b in bs])), {}

            ctx.forall(build, None, f"{tag}:view-bound", "get_constraints bound is not the tightest inserted bound")


def h_history(ctx, n_events, n_ins, den=1, first_fixed=True, with_copy=False, use_interval=False, prefix=(), copy_at=None):
    from unified_planning.model.delta_stn import DeltaSimpleTemporalNetwork

    pairs = [(x, y) for x in range(n_events) for y in range(n_events) if x != y]
    stn = DeltaSimpleTemporalNetwork()
    edges, bounds = [], []
    copy_at = (ctx.choice("copy_at", n_ins) if copy_at is None else copy_at) if with_copy else None
    cp = None
    cp_edges = cp_bounds = None
    alive = True
    for i in range(n_ins):
        if with_copy and i == copy_at:
            cp = stn.copy_stn()
            cp_edges, cp_bounds = list(edges), list(bounds)
        if i < len(prefix):
            x, y = prefix[i]
        elif i == 0 and first_fixed:
            x, y = 0, 1
        else:
            x, y = pairs[ctx.choice(f"e{i}", len(pairs))]
        k = ctx.int(f"b{i}")
        b = k if den == 1 else Fraction(k, den)
        if use_interval and i % 2 == 1:
            # x - y <= b  via insert_interval(left=y... ) : add(left, right, -left_bound)
            neg = -b
            stn.insert_interval(x, y, left_bound=neg)
        else:
            stn.add(x, y, b)
        if alive:
            edges.append((x, y))
            bounds.append(b)
        sat = _check_network(ctx, stn, edges, bounds, f"step{i}")
        if sat:
            ctx.witness("consistent")
        else:
            ctx.witness("inconsistent")
            alive = False  # further insertions are ignored by design; the verdict must stay False
    if alive:
        _check_constraints_view(ctx, stn, edges, bounds, "end")
    if cp is not None:
        # the copy must still be exactly the network it was copied from, then evolve on its own
        if cp_edges:
            _check_network(ctx, cp, cp_edges, cp_bounds, "copy-before")
        x, y = pairs[ctx.choice("ce", len(pairs))]
        k = ctx.int("cb")
        b = k if den == 1 else Fraction(k, den)
        was_sat = cp.check_stn()
        cp.add(x, y, b)
        if was_sat:
            cp_edges.append((x, y))
            cp_bounds.append(b)
        if cp_edges:
            _check_network(ctx, cp, cp_edges, cp_bounds, "copy-after")
        # and the original is not disturbed by the copy's insertion
        _check_network(ctx, stn, edges, bounds, "orig-after-copy")
        ctx.witness("copy")


def shards(tier, seed):
    out = []
    if tier == "quick":
        # 3 events, 4 insertions: first fixed, second insertion is the shard key (6), 2 free inside
        pairs = [(x, y) for x in range(3) for y in range(3) if x != y]
        for p in pairs:
            out.append(dict(name=f"n3m4-{p[0]}{p[1]}", fn="h_history",
                            kwargs=dict(n_events=3, n_ins=4, prefix=[[0, 1], list(p)]), budget=150, per_path=20))
        for p in pairs:
            for c in (1, 2):
                out.append(dict(name=f"n3m3-copy{c}-{p[0]}{p[1]}", fn="h_history",
                                kwargs=dict(n_events=3, n_ins=3, with_copy=True, copy_at=c, prefix=[[0, 1], list(p)]),
                                budget=150, per_path=20))
            out.append(dict(name=f"n3m2-frac4-interval-{p[0]}{p[1]}", fn="h_history",
                            kwargs=dict(n_events=3, n_ins=2, den=4, use_interval=True, prefix=[[0, 1], list(p)]),
                            budget=150, per_path=20))
        out.append(dict(name="n4m3", fn="h_history", kwargs=dict(n_events=4, n_ins=3, prefix=[[0, 1]]), budget=150, per_path=20))
        # 4 events, 5 insertions over the smallest network in which an event is reached along two paths of different hop
        # count (0-1-2 and 0-2): a propagation that relaxes every event only once per insertion is wrong exactly there.
        # Three insertion orders of the two-path part (the neighbour lists are ordered by insertion), then 2 free insertions.
        pairs4 = [(x, y) for x in range(4) for y in range(4) if x != y]
        for oi, two_path in enumerate(([[0, 1], [0, 2], [1, 2]], [[0, 2], [0, 1], [1, 2]], [[1, 2], [0, 1], [0, 2]])):
            for p in [q for q in pairs4 if 3 in q]:  # the 4th insertion brings in the fourth event
                out.append(dict(name=f"n4m5-twopath{oi}-{p[0]}{p[1]}", fn="h_history",
                                kwargs=dict(n_events=4, n_ins=5, prefix=two_path + [list(p)]), budget=150, per_path=20))
    else:
        pairs4 = [(x, y) for x in range(4) for y in range(4) if x != y]
        pairs3 = [(x, y) for x in range(3) for y in range(3) if x != y]
        for p in pairs3:
            for q in pairs3:
                out.append(dict(name=f"n3m5-{p[0]}{p[1]}-{q[0]}{q[1]}", fn="h_history",
                                kwargs=dict(n_events=3, n_ins=5, prefix=[[0, 1], list(p), list(q)]), budget=900, per_path=30))
        for p in pairs4:
            out.append(dict(name=f"n4m4-{p[0]}{p[1]}", fn="h_history",
                            kwargs=dict(n_events=4, n_ins=4, prefix=[[0, 1], list(p)]), budget=900, per_path=30))
        for p in pairs3:
            out.append(dict(name=f"n3m4-copy-{p[0]}{p[1]}", fn="h_history",
                            kwargs=dict(n_events=3, n_ins=4, with_copy=True, prefix=[[0, 1], list(p)]), budget=900, per_path=30))
            out.append(dict(name=f"n3m4-frac4-{p[0]}{p[1]}", fn="h_history",
                            kwargs=dict(n_events=3, n_ins=4, den=4, use_interval=True, prefix=[[0, 1], list(p)]), budget=900, per_path=30))
    return out

MANIFEST = dict(
    engine="symex",
    technique="symbolic execution (CrossHair/z3) of DeltaSimpleTemporalNetwork with symbolic bounds; closed-form negative-cycle and least-solution oracles as solver queries per path",
    text="Bounded model checking: for every insertion history within the stated bounds and EVERY integer (or k/4 rational) value of every bound, "
         "check_stn equals satisfiability of the inserted constraints and get_stn_model is the least non-negative solution; copies evolve independently. "
         "All path trees are exhausted in the quick tier, so inside the bounds this is a for-all-values claim, not sampling.",
    note="Trusted: CrossHair's int/Fraction models and z3; the closed-form oracle (simple cycles of the concrete multigraph). Outside: >4 events, >5 insertions, epsilon != 0, floats.",
)
