"""C01 Sequential simulator = documented successor semantics.

Symbolic: the initial value of the numeric fluent, every numeric constant (thresholds,
increments, assigned values, invariant bound), the bounds of the numeric type; Boolean and
object-valued initial values and the ground action instance fork.  Because all initial
values are free, the initial state is an arbitrary state of the skeleton (one step from
an arbitrary state).
Real code: UPSequentialSimulator.__init__/get_initial_state/apply/is_goal, GrounderHelper,
StateEvaluator, UPState.
Oracle: R (vf/refsem.py), one solver query per path: PC and (applicable_real != R.applicable
or some ground fluent differs or goal verdict differs).
"""
from vf import gen

PROPERTY = "C01"
LEVEL = "model_checking"
FUNCTIONS = [
    "unified_planning.engines.sequential_simulator:UPSequentialSimulator.__init__",
    "unified_planning.engines.sequential_simulator:UPSequentialSimulator._get_initial_state",
    "unified_planning.engines.sequential_simulator:UPSequentialSimulator._apply",
    "unified_planning.engines.sequential_simulator:UPSequentialSimulator.apply_unsafe",
    "unified_planning.engines.sequential_simulator:UPSequentialSimulator._evaluate_effect",
    "unified_planning.engines.sequential_simulator:UPSequentialSimulator.get_unsatisfied_conditions",
    "unified_planning.engines.sequential_simulator:UPSequentialSimulator._is_goal",
    "unified_planning.engines.compilers.grounder:GrounderHelper.ground_action",
    "unified_planning.model.walkers.state_evaluator:StateEvaluator.evaluate",
    "unified_planning.model.walkers.quantifier_simplifier:QuantifierSimplifier.walk_exists",
    "unified_planning.model.walkers.quantifier_simplifier:QuantifierSimplifier.walk_forall",
    "unified_planning.model.effect:Effect.expand_effect",
    "unified_planning.model.state:UPState.make_child",
]
BOUNDS = ("skeleton family G (vf/gen.py): 2 objects of types T, S<T; fluents b, p(T), w(T):T, n:int (bounded/unbounded, symbolic bounds), "
          "u:int undefined; one or two actions with <= 3 effects from 18 effect templates and 15 condition templates; "
          "numeric leaves symbolic in small integer windows (constants in [-2,5], x0 in [-2,6], bounds in [-2,2]/[-1,5]); 1 step (quick) / 2 steps (thorough) from an arbitrary initial state")
OUTSIDE = "larger problems; real-valued fluents; simulated effects; >2 steps in one run (histories: C36 + C14); constants outside the windows"
ASSUMPTIONS = ["hash-consing tables keyed syntactically for symbolic constants (S2'): constants that merely may be equal are distinct nodes; "
               "counterexamples are replayed with the real tables",
               "R (vf/refsem.py) is the documented semantics; it is validated against the example problems and their plans (tools/validate_refsem.py)",
               "numeric leaves range over small integer windows so that path trees close within the budget"]


def h_step(ctx, sk, steps=1):
    import z3
    from unified_planning.engines.sequential_simulator import UPSequentialSimulator
    from unified_planning.exceptions import UPProblemDefinitionError
    from vf.refsem import Ref

    g = gen.build(ctx, sk)
    prob, em = g.problem, g.em
    sim = UPSequentialSimulator(prob, error_on_failed_checks=False)
    try:
        s = sim.get_initial_state()
        init_real = True
    except UPProblemDefinitionError:
        init_real = False
    box = {}

    def R():
        if "R" not in box:
            box["R"] = Ref(prob)
            box["rs"] = box["R"].init_state()
        return box["R"]

    ctx.forall(lambda: (R().initial_ok() != z3.BoolVal(init_real), {}), None, "initial-invariants",
               f"get_initial_state {'accepted' if init_real else 'rejected'} the initial state but the invariants/bounds say otherwise")
    if not init_real:
        ctx.witness("initial-state-rejected")
        return
    for st in range(steps):
        act = g.actions[ctx.choice(f"act{st}", len(g.actions))]
        obj = g.objs[ctx.choice(f"obj{st}", len(g.objs))]
        s1 = sim.apply(s, act, (em.ObjectExp(obj),))
        real_app = s1 is not None
        fexps = {}
        if real_app:
            # read every ground fluent of the successor through the public API
            for key, f, objs in _ground(prob):
                fe = em.FluentExp(f, [em.ObjectExp(o) for o in objs])
                try:
                    fexps[key] = s1.get_value(fe)
                except Exception as e:  # UPStateMissingFluentError
                    if type(e).__name__ != "UPStateMissingFluentError":
                        raise
                    fexps[key] = None
            goal_real = sim.is_goal(s1)

        def build(act=act, obj=obj, real_app=real_app, fexps=fexps, s1=s1):
            r = R()
            ok, rs1 = r.step(box["rs"], act, r.bind(act, [obj]))
            box["next"] = rs1
            if not real_app:
                return ok, {}
            diffs = []
            for key, val in fexps.items():
                v = rs1.vals[key]
                if val is None:
                    diffs.append(v.d)
                else:
                    t = r.const_value(val)
                    a, b2 = (z3.ToReal(t), v.t) if (t.sort() != v.t.sort() and v.t.sort() == z3.RealSort()) else (t, v.t)
                    diffs.append(z3.Or(z3.Not(v.d), a != b2))
            diffs.append(r.goal(rs1) != z3.BoolVal(goal_real))
            return z3.Or(z3.Not(ok), z3.Or(diffs)), {}

        ctx.forall(build, None, f"step{st}:{'successor' if real_app else 'rejected-applicable'}",
                   ("apply returned a successor that differs from the documented semantics (or the action is inapplicable, or is_goal differs)"
                    if real_app else "apply returned None but the documented semantics makes the action applicable"))
        ctx.witness("applied" if real_app else "inapplicable")
        if not real_app:
            break
        s = s1
        box["rs"] = box.get("next") or R().step(box["rs"], act, R().bind(act, [obj]))[1]
    ctx.note("skeleton", gen.describe(sk))


def _ground(prob):
    import itertools
    for f in prob.fluents:
        doms = [list(prob.objects(p.type)) for p in f.signature]
        for combo in itertools.product(*doms):
            yield (f.name, tuple(o.name for o in combo)), f, combo


def shards(tier, seed):
    out = []
    if tier == "quick":
        for i, sk in enumerate(gen.QUICK):
            out.append(dict(name=f"sk{i:02d}", fn="h_step", kwargs=dict(sk=sk, steps=1), budget=110, per_path=30))
    else:
        for i, sk in enumerate(gen.QUICK):
            out.append(dict(name=f"sk{i:02d}-2step", fn="h_step", kwargs=dict(sk=sk, steps=2), budget=1500, per_path=60))
        for i, sk in enumerate(gen.thorough_skeletons()):
            out.append(dict(name=f"tsk{i:03d}", fn="h_step", kwargs=dict(sk=sk, steps=1), budget=600, per_path=60))
    return out


MANIFEST = dict(
    engine="symex",
    technique="symbolic execution (CrossHair/z3) of the real sequential simulator on skeleton problems with symbolic numeric leaves; successor compared with a z3 encoding of the documented semantics by one solver query per path",
    text="Bounded model checking: for each skeleton and EVERY value of the numeric leaves in the stated windows (initial value, constants, type bounds) and every Boolean/object initial value, "
         "the simulator's applicability verdict, successor state and goal verdict equal the documented semantics. Values are solver variables, structure is bounded-exhaustive over the skeleton list.",
    note="Trusted: R (reference semantics, validated against the bundled examples), CrossHair's int model, z3. Outside: structure beyond the skeleton list, real-valued fluents, simulated effects.",
)
