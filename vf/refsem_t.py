"""refsem_t: reference temporal semantics for time-triggered plans (oracle of C05).

Plain Python over Fractions whose numerators may be CrossHair symbolic ints: every comparison of two times forks,
so one execution of `validate` corresponds to one order type of the happenings.  It works on the harness's own
declarative spec (vf/props/c05.py), not on unified-planning objects, and never calls the real validator.

Semantics = the text of property C05, nothing more:
  VALID iff  (1) every durative action's duration lies in its (possibly open) duration interval,
             (2) every condition holds in each state inside its (possibly open) time interval,
             (3) all effects scheduled at the same instant are applied together (evaluated in the state before
                 the instant; increases/decreases accumulate) without conflicting assignments,
             (4) timed effects are applied at their time, timed goals hold over their intervals,
             (5) the final state satisfies the goals;
  conditions at an instant are evaluated in the state BEFORE the effects of that instant.

"State inside an interval": let T_1 < ... < T_m be the distinct instants at which effects happen, S_0 the initial
state and S_k the state produced by the effects of T_k.  The state read at instant t is S_j with j = #{k : T_k < t}
(the state before the effects of t).  A condition over an interval I must hold in S_j for every j in
{ #{T_k < t} : t in I }:
      [a,b] and [a,b)  with a < b :  j = #{T < a} .. #{T < b}
      (a,b] and (a,b)  with a < b :  j = #{T <= a} .. #{T < b}     (an instant just after a reads the effects of a)
      [a,a]                        :  j = #{T < a}
Where the text is silent the verdict is UNSPEC (the harness then compares nothing):
  * degenerate intervals (a > b; a == b with an open end; duration interval with lower > upper),
  * an effect instant outside [start, end] of its action, negative durations,
  * two assignments of equal value to one fluent at one instant; opposite Boolean assignments by the same action
    instance (delete-before-add is a convention the text does not state); an assignment together with an
    increase/decrease of the same fluent at one instant.
Two assignments of different values to one fluent at one instant are "conflicting assignments" (INVALID), except
the Boolean same-instance case above.
"""

VALID, INVALID, UNSPEC = "VALID", "INVALID", "UNSPEC"


class _Stop(Exception):
    def __init__(self, verdict, reason):
        self.verdict, self.reason = verdict, reason


def holds(e, s):
    k = e[0]
    if k == "b":
        return s[e[1]] == e[2]
    if k == "n<=":
        return s["n"] <= e[1]
    if k == "n>=":
        return s["n"] >= e[1]
    if k == "and":
        return holds(e[1], s) and holds(e[2], s)
    if k == "or":
        return holds(e[1], s) or holds(e[2], s)
    if k == "true":
        return True
    raise ValueError(e)


def tp_time(tp, V, start, dur):
    """absolute time of a time point ["start"|"end"|"global", delay-name-or-0]; from the end the delay is subtracted"""
    kind, dl = tp
    delay = V[dl] if dl != 0 else 0
    if kind == "start":
        return start + delay
    if kind == "end":
        return start + dur - delay
    if kind == "global":
        return delay
    raise ValueError(tp)


def distinct_sorted(ts):
    out = []
    for t in ts:
        placed = False
        for i, u in enumerate(out):
            if t == u:
                placed = True
                break
            if t < u:
                out.insert(i, t)
                placed = True
                break
        if not placed:
            out.append(t)
    return out


def _apply(state, effs):
    """effs: [(owner, eff)] all at one instant; evaluated in `state`"""
    assigns, deltas = {}, {}
    for owner, ef in effs:
        while ef[0] == "when":
            if not holds(ef[1], state):
                ef = None
                break
            ef = ef[2]
        if ef is None:
            continue
        if ef[0] == "set":
            assigns.setdefault(ef[1], []).append((owner, ef[2]))
        elif ef[0] == "asg":
            assigns.setdefault("n", []).append((owner, ef[1]))
        elif ef[0] == "inc":
            deltas["n"] = deltas.get("n", 0) + ef[1]
            deltas.setdefault("#n", []).append(owner)
        elif ef[0] == "dec":
            deltas["n"] = deltas.get("n", 0) - ef[1]
            deltas.setdefault("#n", []).append(owner)
        else:
            raise ValueError(ef)
    new = dict(state)
    for f, lst in assigns.items():
        if f in deltas:
            raise _Stop(UNSPEC, "assignment-and-increase-at-one-instant")
        if len(lst) > 1:
            vals = [v for _, v in lst]
            if all(v == vals[0] for v in vals):
                raise _Stop(UNSPEC, "equal-valued-double-assignment")
            if isinstance(vals[0], bool) and all(o == lst[0][0] for o, _ in lst):
                raise _Stop(UNSPEC, "opposite-boolean-assignments-by-one-instance")
            raise _Stop(INVALID, f"conflicting-assignments:{f}")
        new[f] = lst[0][1]
    if "n" in deltas and "n" not in assigns:
        new["n"] = state["n"] + deltas["n"]
    return new


def _interval_states(times, a, b, lopen, ropen):
    """indices j of the states S_j inside the interval (see module docstring)"""
    if a > b:
        raise _Stop(UNSPEC, "interval-lower-after-upper")
    if a == b:
        if lopen or ropen:
            raise _Stop(UNSPEC, "empty-interval")
        j = sum(1 for t in times if t < a)
        return [j], None
    lo = sum(1 for t in times if (t <= a if lopen else t < a))
    hi = sum(1 for t in times if t < b)
    # does an effect happen exactly at the (open) lower end?  (only used to describe a failure)
    at_a = any(t == a for t in times) if lopen else None
    return list(range(lo, hi + 1)), at_a


def validate(spec, V, flags):
    """spec: see vf/props/c05.py; V: name -> Fraction/int (possibly symbolic); flags: name -> bool (open ends).
    Returns (verdict, reason)."""
    try:
        return _validate(spec, V, flags)
    except _Stop as s:
        return s.verdict, s.reason


def _flag(flags, f):
    return flags[f] if isinstance(f, str) else bool(f)


def _validate(spec, V, flags):
    acts = spec["actions"]
    steps = []
    for i, st in enumerate(spec["plan"]):
        A = acts[st["a"]]
        s, d = V[st["s"]], V[st["d"]]
        if d < 0 or s < 0:
            raise _Stop(UNSPEC, "negative-time")
        steps.append((i, A, s, d))
    # (1) durations
    for i, A, s, d in steps:
        lo, hi = V[A["dur"]["lo"]], V[A["dur"]["hi"]]
        if lo > hi:
            raise _Stop(UNSPEC, "duration-interval-lower-after-upper")
        lopen, ropen = _flag(flags, A["dur"]["lopen"]), _flag(flags, A["dur"]["ropen"])
        ok_lo = (d > lo) if lopen else (d >= lo)
        ok_hi = (d < hi) if ropen else (d <= hi)
        if not (ok_lo and ok_hi):
            return INVALID, f"duration:step{i}"
    # (3)/(4) happenings
    H = []
    for i, A, s, d in steps:
        for ef in A.get("effs", []):
            t = tp_time(ef["at"], V, s, d)
            if t < s or t > s + d:
                raise _Stop(UNSPEC, "effect-outside-its-action")
            H.append((t, i, ef["e"]))
    for te in spec.get("timed_effects", []):
        t = V[te["at"]]
        if t < 0:
            raise _Stop(UNSPEC, "negative-time")
        H.append((t, "T", te["e"]))
    times = distinct_sorted([h[0] for h in H])
    states = [dict(spec["init"])]
    for T in times:
        states.append(_apply(states[-1], [(o, e) for (t, o, e) in H if t == T]))
    # (2)/(4) conditions and timed goals
    checks = []
    for i, A, s, d in steps:
        for k, c in enumerate(A.get("conds", [])):
            a, b = tp_time(c["iv"][0], V, s, d), tp_time(c["iv"][1], V, s, d)
            checks.append((f"cond:step{i}.{k}", a, b, _flag(flags, c["iv"][2]), _flag(flags, c["iv"][3]), c["e"]))
    for k, g in enumerate(spec.get("timed_goals", [])):
        a, b = tp_time(g["iv"][0], V, 0, 0), tp_time(g["iv"][1], V, 0, 0)
        checks.append((f"timed-goal:{k}", a, b, _flag(flags, g["iv"][2]), _flag(flags, g["iv"][3]), g["e"]))
    for name, a, b, lopen, ropen, e in checks:
        idx, at_a = _interval_states(times, a, b, lopen, ropen)
        for n, j in enumerate(idx):
            if not holds(e, states[j]):
                where = "state"
                if lopen and n == 0 and at_a is False:
                    where = "first-state-of-left-open-interval-without-effect-at-its-start"
                return INVALID, f"{name}:{where}"
    # (5) goals
    for k, g in enumerate(spec.get("goals", [])):
        if not holds(g, states[-1]):
            return INVALID, f"goal:{k}"
    return VALID, "ok"
