"""R: the documented sequential semantics of unified-planning as a z3 term builder.

Independent of the repository's evaluators: it reads a problem only through the public
model accessors (fluents, objects, actions, preconditions, effects, goals, invariants,
FNode structure) and produces z3 terms.  Used as the oracle of E1 harnesses (real
simulator vs R on the same symbolic state), for BMC (all plans <= k) and as the
both-sides encoder of translation validation.

Values are pairs (term, defined): reading a fluent that has no value makes the enclosing
condition unsatisfied (C01).  Quantifiers are expanded over the objects of the variable
types in declaration order and short-circuit like a left-to-right evaluation.
Numeric constants may carry CrossHair symbolic payloads; their z3 term (.var) is spliced in.
"""
import itertools
from fractions import Fraction

import z3


def znum(v):
    """z3 term of a python / symbolic number."""
    t = getattr(v, "var", None)
    if t is not None and not isinstance(v, (bool, int, Fraction)):
        return t
    if isinstance(v, bool):
        return z3.BoolVal(v)
    if isinstance(v, int):
        return z3.IntVal(v)
    if isinstance(v, Fraction):
        n, d = v.numerator, v.denominator
        nz = n.var if hasattr(n, "var") else z3.IntVal(int(n))
        if hasattr(d, "var"):
            return z3.ToReal(nz) / z3.ToReal(d.var)
        if int(d) == 1:
            return z3.ToReal(nz)
        return z3.ToReal(nz) / z3.RealVal(int(d))
    if isinstance(v, float):
        return z3.RealVal(Fraction(v))
    raise TypeError(f"znum: {type(v)}")


def _real(t):
    return z3.ToReal(t) if t.sort() == z3.IntSort() else t


def _arith(a, b):
    if a.sort() != b.sort():
        return _real(a), _real(b)
    return a, b


TRUE, FALSE = z3.BoolVal(True), z3.BoolVal(False)


class V:
    """value term + definedness term"""
    __slots__ = ("t", "d")

    def __init__(self, t, d=TRUE):
        self.t, self.d = t, d

    def sat(self):
        return z3.And(self.d, self.t)


class RState:
    def __init__(self, vals):
        self.vals = vals  # key -> V

    def get(self, key):
        return self.vals[key]


class Ref:
    def __init__(self, problem, if_tables=None, uninterpreted_ifs=True, name=""):
        self.p = problem
        self.name = name
        self.objects = list(problem.all_objects)
        self.oidx = {o.name: i for i, o in enumerate(self.objects)}
        self.if_tables = if_tables or {}
        self._uf = {}
        self.ground = []  # (key, fluent, args objects)
        for f in problem.fluents:
            doms = [list(problem.objects(p.type)) if p.type.is_user_type() else None for p in f.signature]
            if any(d is None for d in doms):
                raise NotImplementedError("fluent with non-object parameter")
            for combo in itertools.product(*doms):
                self.ground.append((self.key(f, combo), f, combo))
        self.gkeys = [k for k, _, _ in self.ground]
        self.ginfo = {k: (f, a) for k, f, a in self.ground}

    # ---- keys, sorts
    @staticmethod
    def key(fluent, args):
        return (fluent.name, tuple(getattr(a, "name", a) for a in args))

    def sort_of(self, typ):
        if typ.is_bool_type():
            return z3.BoolSort()
        if typ.is_int_type():
            return z3.IntSort()
        if typ.is_real_type():
            return z3.RealSort()
        if typ.is_user_type():
            return z3.IntSort()
        raise NotImplementedError(str(typ))

    def dom(self, typ):
        return [self.oidx[o.name] for o in self.p.objects(typ)]

    def in_type(self, t, typ, bounds=True):
        """t (z3) is a value of type typ"""
        if typ.is_user_type():
            d = self.dom(typ)
            return z3.Or([t == i for i in d]) if d else FALSE
        cs = []
        if bounds and (typ.is_int_type() or typ.is_real_type()):
            if typ.lower_bound is not None:
                cs.append(_arith(t, znum(typ.lower_bound))[0] >= _arith(t, znum(typ.lower_bound))[1])
            if typ.upper_bound is not None:
                cs.append(_arith(t, znum(typ.upper_bound))[0] <= _arith(t, znum(typ.upper_bound))[1])
        return z3.And(cs) if cs else TRUE

    # ---- states
    def fresh_state(self, tag, all_defined=False, undefinable=None):
        vals = {}
        for k, f, a in self.ground:
            nm = f"{self.name}{tag}.{k[0]}({','.join(k[1])})"
            t = z3.Const(nm, self.sort_of(f.type))
            d = TRUE if (all_defined or (undefinable is not None and k not in undefinable)) else z3.Bool(nm + "?")
            vals[k] = V(t, d)
        return RState(vals)

    def state_wf(self, s, bounds=False):
        """object-typed fluents hold objects of their type (and, optionally, numeric bounds)."""
        cs = []
        for k, f, a in self.ground:
            v = s.vals[k]
            if f.type.is_user_type() or bounds:
                cs.append(z3.Implies(v.d, self.in_type(v.t, f.type, bounds=bounds)))
        return z3.And(cs) if cs else TRUE

    def const_value(self, e):
        """z3 term of a constant / object FNode"""
        if e.is_bool_constant():
            return z3.BoolVal(bool(e.constant_value()))
        if e.is_int_constant() or e.is_real_constant():
            return znum(e._content.payload)
        if e.is_object_exp():
            return z3.IntVal(self.oidx[e.object().name])
        raise NotImplementedError(f"const_value {e}")

    def init_state(self):
        vals = {}
        iv = self.p.initial_values  # explicit + defaults
        byk = {}
        for fe, val in iv.items():
            byk[self.key(fe.fluent(), [a.object() for a in fe.args])] = val
        for k, f, a in self.ground:
            if k in byk:
                t = self.const_value(byk[k])
                if f.type.is_real_type():
                    t = _real(t)
                vals[k] = V(t, TRUE)
            else:
                vals[k] = V(z3.Const(f"{self.name}undef.{k}", self.sort_of(f.type)), FALSE)
        return RState(vals)

    def states_equal(self, s1, s2, keys=None):
        cs = []
        for k in (keys or self.gkeys):
            a, b = s1.vals[k], s2.vals[k]
            x, y = _arith(a.t, b.t) if a.t.sort() != b.t.sort() else (a.t, b.t)
            cs.append(a.d == b.d)
            cs.append(z3.Implies(a.d, x == y))
        return z3.And(cs)

    # ---- expressions
    def read(self, s, fluent, arg_vs):
        """value of fluent(args) with possibly symbolic (object index) args"""
        d_args = z3.And([a.d for a in arg_vs]) if arg_vs else TRUE
        cands = [(k, a) for k, f, a in self.ground if f is fluent or f == fluent]
        conc = []
        all_conc = True
        for a in arg_vs:
            if z3.is_int_value(a.t):
                conc.append(a.t.as_long())
            else:
                all_conc = False
        if all_conc:
            names = tuple(self.objects[i].name for i in conc)
            k = (fluent.name, names)
            if k not in s.vals:
                return V(z3.Const(f"illtyped.{k}", self.sort_of(fluent.type)), FALSE)
            v = s.vals[k]
            return V(v.t, z3.And(d_args, v.d))
        # ITE chain over candidates
        t = None
        d = FALSE
        for k, objs in cands:
            cond = z3.And([a.t == self.oidx[o.name] for a, o in zip(arg_vs, objs)])
            v = s.vals[k]
            t = v.t if t is None else z3.If(cond, v.t, t)
            d = z3.If(cond, v.d, d)
        if t is None:
            t = z3.Const(f"nofluent.{fluent.name}", self.sort_of(fluent.type))
        return V(t, z3.And(d_args, d))

    def expr(self, e, s, b=None):
        """-> V.  s: RState, b: binding {param/variable name -> V or python object}"""
        b = b or {}
        if e.is_bool_constant() or e.is_int_constant() or e.is_real_constant() or e.is_object_exp():
            return V(self.const_value(e))
        if e.is_parameter_exp():
            return self._bound(b, e.parameter().name, e)
        if e.is_variable_exp():
            return self._bound(b, e.variable().name, e)
        if e.is_fluent_exp():
            args = [self.expr(a, s, b) for a in e.args]
            return self.read(s, e.fluent(), args)
        if e.is_exists() or e.is_forall():
            vs = e.variables()
            doms = [list(self.p.objects(v.type)) for v in vs]
            bodies = []
            for combo in itertools.product(*doms):
                b2 = dict(b)
                for v, o in zip(vs, combo):
                    b2[v.name] = V(z3.IntVal(self.oidx[o.name]))
                bodies.append(self.expr(e.arg(0), s, b2))
            # left-to-right short-circuit evaluation
            if e.is_exists():
                t, d = FALSE, TRUE
                for x in reversed(bodies):
                    t, d = z3.If(z3.And(x.d, x.t), TRUE, t), z3.If(z3.And(x.d, x.t), TRUE, z3.And(x.d, d))
                    # if x defined and true: result true & defined; else need x defined and the rest
                return V(t, d)
            t, d = TRUE, TRUE
            for x in reversed(bodies):
                t, d = z3.If(z3.And(x.d, z3.Not(x.t)), FALSE, t), z3.If(z3.And(x.d, z3.Not(x.t)), TRUE, z3.And(x.d, d))
            return V(t, d)
        if e.is_dot():
            raise NotImplementedError("Dot: use RefMA")
        if e.is_interpreted_function_exp():
            args = [self.expr(a, s, b) for a in e.args]
            fn = e.interpreted_function()
            d = z3.And([a.d for a in args]) if args else TRUE
            return V(self._apply_if(fn, [a.t for a in args]), d)
        args = [self.expr(a, s, b) for a in e.args]
        d = z3.And([a.d for a in args]) if args else TRUE
        ts = [a.t for a in args]
        if e.is_and():
            return V(z3.And(ts) if ts else TRUE, d)
        if e.is_or():
            return V(z3.Or(ts) if ts else FALSE, d)
        if e.is_not():
            return V(z3.Not(ts[0]), d)
        if e.is_implies():
            return V(z3.Implies(ts[0], ts[1]), d)
        if e.is_iff():
            return V(ts[0] == ts[1], d)
        if e.is_equals():
            x, y = _arith(ts[0], ts[1]) if ts[0].sort() != ts[1].sort() else (ts[0], ts[1])
            return V(x == y, d)
        if e.is_le():
            x, y = _arith(ts[0], ts[1])
            return V(x <= y, d)
        if e.is_lt():
            x, y = _arith(ts[0], ts[1])
            return V(x < y, d)
        if e.is_plus():
            if any(t.sort() == z3.RealSort() for t in ts):
                ts = [_real(t) for t in ts]
            return V(z3.Sum(ts), d)
        if e.is_minus():
            x, y = _arith(ts[0], ts[1])
            return V(x - y, d)
        if e.is_times():
            if any(t.sort() == z3.RealSort() for t in ts):
                ts = [_real(t) for t in ts]
            r = ts[0]
            for t in ts[1:]:
                r = r * t
            return V(r, d)
        if e.is_div():
            return V(_real(ts[0]) / _real(ts[1]), z3.And(d, _real(ts[1]) != 0))
        raise NotImplementedError(f"expr: {e.node_type}")

    def _bound(self, b, name, e):
        if name not in b:
            raise KeyError(f"unbound {name} in {e}")
        v = b[name]
        if isinstance(v, V):
            return v
        if hasattr(v, "is_object_exp"):  # FNode
            return V(self.const_value(v))
        if hasattr(v, "type") and hasattr(v, "name") and v.name in self.oidx:  # Object
            return V(z3.IntVal(self.oidx[v.name]))
        return V(znum(v))

    def _apply_if(self, fn, arg_terms):
        tab = self.if_tables.get(fn.name)
        if tab is not None:
            return tab(arg_terms)
        uf = self._uf.get(fn.name)
        if uf is None:
            sig = [self.sort_of(p.type) for p in fn.signature] + [self.sort_of(fn.return_type)]
            uf = z3.Function(f"IF_{fn.name}", *sig)
            self._uf[fn.name] = uf
        return uf(*arg_terms)

    def holds(self, e, s, b=None):
        return self.expr(e, s, b).sat()

    # ---- actions
    def bindings(self, action):
        """all ground parameter tuples (object parameters only)"""
        doms = []
        for p in action.parameters:
            if not p.type.is_user_type():
                raise NotImplementedError("non-object action parameter")
            doms.append(list(self.p.objects(p.type)))
        return list(itertools.product(*doms))

    def bind(self, action, objs):
        return {p.name: V(z3.IntVal(self.oidx[o.name])) for p, o in zip(action.parameters, objs)}

    def _expanded_effects(self, action, b):
        out = []
        for eff in action.effects:
            if eff.is_forall():
                doms = [list(self.p.objects(v.type)) for v in eff.forall]
                for combo in itertools.product(*doms):
                    b2 = dict(b)
                    for v, o in zip(eff.forall, combo):
                        b2[v.name] = V(z3.IntVal(self.oidx[o.name]))
                    out.append((eff, b2))
            else:
                out.append((eff, b))
        return out

    def step(self, s, action, b, invariants=True, bounds=True):
        """-> (applicable: z3 Bool, successor RState).  Documented sequential semantics (C01)."""
        ok = [self.holds(c, s, b) for c in action.preconditions]
        # per ground fluent: collect firing effects
        per = {k: dict(assign=[], inc=[], dec=[]) for k in self.gkeys}
        for eff, b2 in self._expanded_effects(action, b):
            fl = eff.fluent
            args = [self.expr(a, s, b2) for a in fl.args]
            ok.append(z3.And([a.d for a in args]) if args else TRUE)
            if eff.is_conditional():
                c = self.expr(eff.condition, s, b2)
                ok.append(c.d)
                fire = c.t
            else:
                fire = TRUE
            val = self.expr(eff.value, s, b2)
            ok.append(z3.Implies(fire, val.d))
            for k, f, objs in self.ground:
                if f.name != fl.fluent().name:
                    continue
                match = z3.And([a.t == self.oidx[o.name] for a, o in zip(args, objs)]) if args else TRUE
                match = z3.simplify(match)
                if z3.is_false(match):
                    continue
                g = z3.And(fire, match)
                kind = "assign" if eff.is_assignment() else ("inc" if eff.is_increase() else "dec")
                per[k][kind].append((g, val.t))
        new = {}
        for k, f, objs in self.ground:
            old = s.vals[k]
            a, inc, dec = per[k]["assign"], per[k]["inc"], per[k]["dec"]
            if not a and not inc and not dec:
                new[k] = old
                continue
            if f.type.is_bool_type():
                t, d = old.t, old.d
                any_true = z3.Or([z3.And(g, v) for g, v in a]) if a else FALSE
                any_false = z3.Or([z3.And(g, z3.Not(v)) for g, v in a]) if a else FALSE
                t = z3.If(any_true, TRUE, z3.If(any_false, FALSE, old.t))
                d = z3.Or(any_true, any_false, old.d)
                new[k] = V(t, d)
                continue
            sort = self.sort_of(f.type)
            cast = (lambda x: _real(x)) if sort == z3.RealSort() else (lambda x: x)
            any_assign = z3.Or([g for g, _ in a]) if a else FALSE
            any_incdec = z3.Or([g for g, _ in inc + dec]) if (inc or dec) else FALSE
            # conflicting assignments: two firing assignments with different values
            for (g1, v1), (g2, v2) in itertools.combinations(a, 2):
                ok.append(z3.Not(z3.And(g1, g2, cast(v1) != cast(v2))))
            ok.append(z3.Not(z3.And(any_assign, any_incdec)))
            ok.append(z3.Implies(any_incdec, old.d))
            t = old.t
            if inc or dec:
                delta = z3.Sum([z3.If(g, cast(v), 0) for g, v in inc] + [z3.If(g, -cast(v), 0) for g, v in dec])
                t = old.t + delta
            for g, v in a:
                t = z3.If(g, cast(v), t)
            d = z3.Or(any_assign, old.d)
            new[k] = V(t, d)
        s2 = RState(new)
        if bounds:
            ok.append(self.bounds_ok(s2))
        if invariants:
            ok.append(self.invariants_ok(s2))
        # object-valued fluents must receive objects of their type? (type system guarantees; not asserted)
        return z3.And(ok), s2

    def bounds_ok(self, s):
        cs = []
        for k, f, a in self.ground:
            t = f.type
            if (t.is_int_type() or t.is_real_type()) and (t.lower_bound is not None or t.upper_bound is not None):
                v = s.vals[k]
                cs.append(z3.And(v.d, self.in_type(v.t, t)))
        return z3.And(cs) if cs else TRUE

    def invariants_ok(self, s):
        cs = [self.holds(inv, s) for inv in self.p.state_invariants]
        return z3.And(cs) if cs else TRUE

    def goal(self, s):
        cs = [self.holds(g, s) for g in self.p.goals]
        return z3.And(cs) if cs else TRUE

    def initial_ok(self):
        s0 = self.init_state()
        return z3.And(self.bounds_ok(s0), self.invariants_ok(s0))

    # ---- BMC
    def ground_actions(self):
        out = []
        for a in self.p.actions:
            for objs in self.bindings(a):
                out.append((a, objs))
        return out

    def unroll(self, k, tag="", s0=None, gas=None):
        """k steps, one Int choice per step over the ground actions (index len(gas) = no-op/stop is NOT included).
        Returns dict(states=[s0..sk], choice=[c1..ck], app=[applicable_i], gas=...)."""
        gas = gas if gas is not None else self.ground_actions()
        s = s0 if s0 is not None else self.init_state()
        states, choice, app = [s], [], []
        for i in range(k):
            c = z3.Int(f"{self.name}{tag}act{i}")
            steps = [self.step(s, a, self.bind(a, objs)) for a, objs in gas]
            ok = FALSE
            vals = {}
            for key in self.gkeys:
                t, d = s.vals[key].t, s.vals[key].d
                for j, (okj, sj) in enumerate(steps):
                    t = z3.If(c == j, sj.vals[key].t, t)
                    d = z3.If(c == j, sj.vals[key].d, d)
                vals[key] = V(t, d)
            ok = z3.Or([z3.And(c == j, okj) for j, (okj, _) in enumerate(steps)]) if steps else FALSE
            s = RState(vals)
            states.append(s)
            choice.append(c)
            app.append(ok)
        return dict(states=states, choice=choice, app=app, gas=gas)

    def plan_valid(self, u, n):
        """the first n steps of unrolling u form a valid plan"""
        return z3.And([u["app"][i] for i in range(n)] + [self.goal(u["states"][n])] + [z3.And(u["choice"][i] >= 0, u["choice"][i] < len(u["gas"])) for i in range(n)])
