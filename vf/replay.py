"""Replay a recorded counterexample against the real code: plain interpreter, no
tracer, no shim, no solver.  Prints one JSON line {"reproduced": bool, ...}."""
import importlib
import json
import sys
import traceback

from vf.ctx import HarnessError, ReplayCtx, Violation


def main(path):
    case = json.load(open(path))
    assert "crosshair" not in sys.modules
    mod = importlib.import_module(f"vf.props.{case['property'].lower()}")
    fn = getattr(mod, case["fn"])
    ctx = ReplayCtx(case["values"], case.get("models"))
    out = dict(reproduced=False, expected_sig=case["sig"])
    try:
        fn(ctx, **case.get("kwargs", {}))
        out["detail"] = "harness completed without violation on the real code; " + "; ".join(ctx.log)
    except Violation as v:
        out.update(reproduced=True, sig=v.sig, detail=str(v.msg)[:1000])
    except HarnessError as e:
        out["detail"] = f"HarnessError: {e}"
    except Exception as e:
        tb = traceback.extract_tb(e.__traceback__)
        import os
        repo = os.environ.get("VERIF_REPO", "/repo").rstrip("/") + "/"
        in_repo = bool(tb) and any(fr.filename.startswith(repo) for fr in tb[-3:])
        sig = f"exc:{type(e).__name__}"
        if case["kind"] == "crash" and case["sig"].startswith(sig + "@") and in_repo:
            out.update(reproduced=True, sig=case["sig"], detail=f"{type(e).__name__}: {e}"[:1000])
        else:
            out["detail"] = "different exception on replay: " + "".join(
                traceback.format_exception(type(e), e, e.__traceback__)[-5:])[-1500:]
    print(json.dumps(out))
    return 1 if out["reproduced"] else 0


if __name__ == "__main__":
    sys.exit(main(sys.argv[1]))
