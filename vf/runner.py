"""Shard pool, replay, known findings, evidence."""
import fnmatch
import hashlib
import importlib
import inspect
import json
import multiprocessing as mp
import os
import subprocess
import sys
import time
import traceback

ROOT = os.path.dirname(os.path.dirname(os.path.abspath(__file__)))
REPLAY_PY = "/venv/bin/python"
EXIT_OK, EXIT_VIOLATION, EXIT_HARNESS = 0, 1, 3


def load_prop(pid):
    return importlib.import_module(f"vf.props.{pid.lower()}")


def _run_shard(args):
    pid, shard = args
    t = time.time()
    try:
        mod = load_prop(pid)
        fn = getattr(mod, shard["fn"])
        engine = shard.get("engine", "symex")
        if engine == "symex":
            from vf import shims, symctx
            shims.apply_all()
            r = symctx.explore(fn, shard.get("kwargs", {}), budget_s=shard.get("budget", 60),
                               per_path_s=shard.get("per_path", 20))
        elif engine == "direct":
            from vf import direct
            r = direct.explore_direct(fn, shard.get("kwargs", {}), budget_s=shard.get("budget", 60),
                                      query_timeout_ms=int(shard.get("query_timeout", 30) * 1000))
        else:
            raise ValueError(engine)
    except BaseException as e:  # noqa
        r = dict(paths=0, ok=0, unknown=0, ignored=0, exhausted=False, violations=[], crashes=[], witnesses={},
                 samples=[], forall_queries=0, decisions=0, cpu_s=0, solver_queries=0, solver_s=0, solver_unknown=0,
                 realizations={}, error="".join(traceback.format_exception(type(e), e, e.__traceback__)[-10:]))
    r["shard"] = shard["name"]
    r["engine"] = shard.get("engine", "symex")
    r["wall_s"] = round(time.time() - t, 2)
    return r


def _child(conn, pid, shard):
    r = _run_shard((pid, shard))
    try:
        conn.send(r)
    except Exception as e:  # unpicklable payload: send a reduced record
        r2 = {k: v for k, v in r.items() if k not in ("samples", "violations", "crashes")}
        r2.update(samples=[], violations=[], crashes=[], error=f"result not serialisable: {e}")
        conn.send(r2)
    conn.close()


def _dead(shard, why):
    return dict(paths=0, ok=0, unknown=0, ignored=0, exhausted=False, violations=[], crashes=[], witnesses={}, samples=[],
                forall_queries=0, decisions=0, cpu_s=0, solver_queries=0, solver_s=0, solver_unknown=0, realizations={},
                error=why, shard=shard["name"], engine=shard.get("engine", "symex"), wall_s=0)


def _run_all(pid, shards, jobs):
    """One forked process per shard, at most `jobs` at a time; a shard that dies or overruns 3x its budget
    (+60 s) is reported as a harness error instead of hanging the run."""
    ctxm = mp.get_context("fork")
    pending = list(shards)
    running = []  # (proc, conn, shard, t0)
    results = []
    while pending or running:
        while pending and len(running) < jobs:
            sh = pending.pop(0)
            parent, child = ctxm.Pipe(duplex=False)
            p = ctxm.Process(target=_child, args=(child, pid, sh), daemon=True)
            p.start()
            child.close()
            running.append((p, parent, sh, time.time()))
        time.sleep(0.05)
        still = []
        for p, conn, sh, t0 in running:
            got = None
            try:
                if conn.poll():
                    got = conn.recv()
            except (EOFError, OSError):
                got = _dead(sh, f"shard process died (exit code {p.exitcode})")
            if got is None and not p.is_alive():
                try:
                    got = conn.recv() if conn.poll(0.2) else _dead(sh, f"shard process died (exit code {p.exitcode})")
                except (EOFError, OSError):
                    got = _dead(sh, f"shard process died (exit code {p.exitcode})")
            if got is None and time.time() - t0 > float(os.environ.get("VERIF_KILL_FACTOR", "8")) * sh.get("budget", 60) + 180:
                p.kill()
                got = _dead(sh, "shard overran 3x its budget and was killed (a path did not return)")
            if got is None:
                still.append((p, conn, sh, t0))
            else:
                results.append(got)
                p.join(timeout=1)
        running = still
    return results


def known_findings():
    path = os.path.join(ROOT, "known_findings.txt")
    out = []
    if os.path.exists(path):
        for line in open(path):
            line = line.strip()
            if line.startswith("known:"):
                out.append(json.loads(line[len("known:"):]))
    return out


def match_known(pid, shard, sig):
    for k in known_findings():
        if k["property"] == pid and fnmatch.fnmatchcase(f"{shard}:{sig}", k["match"]):
            return k
    return None


def write_replay(pid, shard, case, kind):
    d = os.path.join(ROOT, "replays", pid)
    os.makedirs(d, exist_ok=True)
    body = dict(property=pid, shard=shard["name"], fn=shard["fn"], kwargs=shard.get("kwargs", {}), kind=kind,
                sig=case["sig"], msg=case["msg"], values=case["values"], models=case.get("models", []))
    h = hashlib.sha1(json.dumps([shard["name"], case["sig"]], sort_keys=True).encode()).hexdigest()[:12]
    path = os.path.join(d, f"{h}.json")
    with open(path, "w") as f:
        json.dump(body, f, indent=1, default=str)
    return path


def run_replay(path, timeout=300):
    """Re-run the recorded counterexample on the real code in a clean interpreter."""
    repo = os.environ.get("VERIF_REPO", "/repo")  # /repo unless a scratch copy is being tested (mutation self-test)
    env = dict(os.environ, PYTHONPATH=f"{ROOT}:{repo}", PYTHONDONTWRITEBYTECODE="1")
    try:
        p = subprocess.run([REPLAY_PY, "-m", "vf.replay", path], cwd=ROOT, env=env, capture_output=True, text=True,
                           timeout=timeout)
    except subprocess.TimeoutExpired:
        return dict(reproduced=False, detail="replay timeout")
    for line in reversed(p.stdout.strip().splitlines()):
        if line.startswith("{"):
            try:
                return json.loads(line)
            except ValueError:
                pass
    return dict(reproduced=False, detail=f"replay produced no verdict (rc={p.returncode}): {p.stderr[-800:]}")


def source_hashes(functions):
    out = []
    for spec in functions:
        modname, _, qual = spec.partition(":")
        try:
            obj = importlib.import_module(modname)
            for part in qual.split("."):
                if part:
                    obj = getattr(obj, part)
            src = inspect.getsource(obj)
            out.append(dict(function=spec, sha1=hashlib.sha1(src.encode()).hexdigest()[:12], lines=src.count("\n")))
        except Exception as e:  # a renamed function is reported, not fatal
            out.append(dict(function=spec, error=f"{type(e).__name__}: {e}"))
    return out


def main(pid, tier, seed, jobs=None):
    t0 = time.time()
    mod = load_prop(pid)
    shards = mod.shards(tier, seed)
    names = [s["name"] for s in shards]
    assert len(set(names)) == len(names), "duplicate shard names"
    jobs = jobs or int(os.environ.get("VERIF_JOBS", "16"))
    # the whole run is sized by total wall time: when the sum of the shard CPU budgets exceeds what `jobs` cores can do in
    # VERIF_WALL_<TIER> seconds, every budget is scaled down (a shard that does not close is reported as not exhausted)
    wall_cap = float(os.environ.get("VERIF_WALL_" + tier.upper(), "600" if tier == "quick" else "1500"))
    total = sum(s.get("budget", 60) for s in shards)
    scale = min(1.0, wall_cap * jobs / total) if total else 1.0
    skipped = 0
    if scale < 1.0:
        floor = 30.0
        if min(s.get("budget", 60) for s in shards) * scale < floor and len(shards) * floor > wall_cap * jobs:
            # too many shards for the wall cap: run a seed-chosen subset with a useful budget each, say how many were left out
            import random

            keep = max(1, int(wall_cap * jobs / floor))
            rnd = random.Random(seed)
            idx = sorted(rnd.sample(range(len(shards)), keep))
            skipped = len(shards) - keep
            shards = [shards[i] for i in idx]
            names = [s["name"] for s in shards]
            total = sum(s.get("budget", 60) for s in shards)
            scale = min(1.0, wall_cap * jobs / total)
        shards = [dict(s, budget=max(floor, int(s.get("budget", 60) * scale))) for s in shards]
    if skipped:
        print(f"({skipped} of {skipped + len(shards)} shards of the {tier} tier skipped to stay within VERIF_WALL_{tier.upper()}={wall_cap:.0f}s "
              f"on {jobs} cores; the subset is chosen by VERIF_SEED={seed})")
    order = sorted(range(len(shards)), key=lambda i: -shards[i].get("budget", 60))
    results = _run_all(pid, [shards[i] for i in order], jobs)
    by_name = {s["name"]: s for s in shards}
    results.sort(key=lambda r: names.index(r["shard"]))

    violations, known_hits, harness_errors, nonrepro = [], [], [], []
    todo = []
    for r in results:
        sh = by_name[r["shard"]]
        if r.get("error"):
            harness_errors.append(dict(shard=r["shard"], error=r["error"]))
        for kind, cases in (("violation", r["violations"]), ("crash", r["crashes"])):
            for case in cases:
                if case.get("values") is None:
                    harness_errors.append(dict(shard=r["shard"], error="no model for " + case["sig"]))
                    continue
                todo.append((r["shard"], kind, case, write_replay(pid, sh, case, kind)))
    # replay every recorded counterexample on the real code (clean interpreter), in parallel; cases that match a
    # known finding are always replayed; of the others at most MAX_REPLAY are replayed and reported
    MAX_REPLAY = 12
    kn = [t for t in todo if match_known(pid, t[0], t[2]["sig"])]
    other = [t for t in todo if not match_known(pid, t[0], t[2]["sig"])]
    skipped = max(0, len(other) - MAX_REPLAY)
    from concurrent.futures import ThreadPoolExecutor
    sel = kn + other[:MAX_REPLAY]
    with ThreadPoolExecutor(max_workers=8) as ex:
        verdicts = list(ex.map(lambda t: run_replay(t[3]), sel))
    for (shard_name, kind, case, path), verdict in zip(sel, verdicts):
        rec = dict(shard=shard_name, sig=case["sig"], msg=case["msg"], replay=path, verdict=verdict, kind=kind)
        if verdict.get("reproduced"):
            k = match_known(pid, shard_name, case["sig"])
            if k:
                rec["known"] = k["what"]
                known_hits.append(rec)
            else:
                violations.append(rec)
        else:
            if kind == "crash":
                rec["trace"] = case.get("trace")
            nonrepro.append(rec)
    if skipped:
        print(f"({skipped} further counterexamples recorded under replays/{pid}/ were not replayed)")

    tot = lambda k: sum(r.get(k, 0) or 0 for r in results)  # noqa: E731
    wit = {}
    for r in results:
        for k, v in r["witnesses"].items():
            wit[k] = wit.get(k, 0) + v
    samples = []
    for r in results:
        for s in r["samples"][:1]:
            samples.append(dict(shard=r["shard"], **s))
    samples = samples[:12]
    level = getattr(mod, "LEVEL", "model_checking")
    per_shard = [dict(shard=r["shard"], engine=r["engine"], paths=r["paths"], exhausted=r["exhausted"],
                      unknown=r["unknown"], ignored=r["ignored"], witnesses=sum(r["witnesses"].values()),
                      queries=r["solver_queries"], solver_s=r["solver_s"], cpu_s=r["cpu_s"],
                      realizations=r.get("realizations") or {}) for r in results]
    n_wit = sum(wit.values())
    coverage = dict(
        evaluations=tot("paths"),
        distinct_nontrivial=n_wit,
        rule=getattr(mod, "RULE", "one evaluation = one feasible path of the harness (distinct path condition); "
                                  "non-trivial = a path on which the property's antecedent held and its assertion was evaluated (witness path)"),
        samples=samples or [dict(note="no paths")],
        exhaustive=all(r["exhausted"] for r in results) and not tot("unknown"),
        states=max(1, tot("paths")),
        transitions=max(1, tot("decisions")),
        traces_validated_against_impl=len(violations) + len(known_hits) + len(nonrepro),
        programs=max(1, len(shards)) if level != "translation_validation" else max(1, wit.get("program", n_wit)),
        disagreements_checked=tot("forall_queries"),
        shards=per_shard,
        shards_total=len(results),
        shards_skipped_for_wall_cap=skipped,
        shards_exhausted=sum(1 for r in results if r["exhausted"]),
        paths_unknown=tot("unknown"),
        paths_ignored=tot("ignored"),
        witness_paths=wit,
        functions_encoded=source_hashes(getattr(mod, "FUNCTIONS", [])),
        bounds=getattr(mod, "BOUNDS", ""),
        outside_bounds=getattr(mod, "OUTSIDE", ""),
        solver=dict(queries=tot("solver_queries"), seconds=round(tot("solver_s"), 2), unknown=tot("solver_unknown"),
                    second_stage_queries=tot("forall_queries"), z3=_z3_version()),
        cpu_s=round(tot("cpu_s"), 1),
        known_findings_seen=[dict(shard=k["shard"], sig=k["sig"], what=k["known"]) for k in known_hits],
        non_reproducing_counterexamples=[dict(shard=k["shard"], sig=k["sig"], detail=k["verdict"].get("detail"))
                                         for k in nonrepro],
        harness_errors=harness_errors,
        explanation=getattr(mod, "EXPLANATION", "bounded path-exhaustive symbolic execution of the real functions; "
                                               "see functions_encoded, bounds, solver"),
    )
    from vf import shims
    ev = dict(property_id=pid, tier=tier, seed=seed, level=level, coverage=coverage,
              assumptions=list(getattr(mod, "ASSUMPTIONS", [])) + list(_shims_used(results)),
              wall_s=round(time.time() - t0, 2), violations=len(violations))
    evdir = os.environ.get("VERIF_EVIDENCE_DIR") or os.path.join(ROOT, "evidence")
    if os.environ.get("VERIF_REPO"):  # mutation self-test on a scratch copy: do not overwrite the real evidence
        evdir = os.path.join(os.environ["VERIF_REPO"], ".verif-evidence")
    os.makedirs(evdir, exist_ok=True)
    with open(os.path.join(evdir, f"{pid}.json"), "w") as f:
        json.dump(ev, f, indent=1, default=str)

    for k in known_hits:
        print(f"KNOWN-FINDING: property={pid} {k['known']} [shard {k['shard']}, replay {k['replay']}]")
    for v in violations:
        print(f"VIOLATION property={pid} replay={v['replay']}")
        print(f"  shard={v['shard']} sig={v['sig']}\n  {v['msg']}")
    for n in nonrepro:
        print(f"NON-REPRODUCING counterexample (not reported as violation): shard={n['shard']} sig={n['sig']} "
              f"detail={n['verdict'].get('detail')}")
        if n.get("trace"):
            print(n["trace"])
    for h in harness_errors:
        print(f"HARNESS-ERROR shard={h['shard']}\n{h['error']}")
    nonex = [r["shard"] for r in results if not r["exhausted"]]
    print(f"{pid} {tier}: shards={len(results)} exhausted={len(results) - len(nonex)} paths={tot('paths')} "
          f"witness={n_wit} unknown={tot('unknown')} queries={tot('solver_queries')} solver_s={tot('solver_s'):.1f} "
          f"wall={time.time() - t0:.1f}s violations={len(violations)} known={len(known_hits)}")
    if nonex:
        print("  not exhausted within budget (claim restricted to explored paths): " + ", ".join(nonex[:20]))
    if violations:
        return EXIT_VIOLATION
    if harness_errors or nonrepro:
        return EXIT_HARNESS
    if n_wit == 0:
        print("HARNESS-ERROR no witness path: vacuous run")
        return EXIT_HARNESS
    return EXIT_OK


def _z3_version():
    import z3
    return z3.get_version_string()


def _shims_used(results):
    if any(r["engine"] == "symex" for r in results):
        return [
            "engine shims (harness side, representation only): S1 ProblemKind partialmethods rebound; "
            "S2 hash-consing tables as association lists; S3 fresh Environment per path; "
            "S4 constant Fraction.__hash__; S5 deep-realisation barrier on unified_planning classes",
            "counterexamples are replayed in a clean /venv/bin/python without tracer or shims before being reported",
        ]
    return ["counterexamples are replayed in a clean /venv/bin/python before being reported"]
