"""E1: path-exhaustive symbolic execution of a harness on CrossHair's runtime.

The loop mirrors crosshair.core.explore_paths (StateSpace + Patched + COMPOSITE_TRACER)
without contract enforcement.  Every path ends in one of: ok, violation (recorded
with a model), crash (unexpected exception, recorded with a model), ignored
(assumption false), unknown (solver timeout / unsupported).
"""
import inspect
import itertools
import os
import sys
import time
import traceback
from collections import Counter
from fractions import Fraction
from time import process_time

import z3

from crosshair.core import Patched, realize
from crosshair.core_and_libs import standalone_statespace  # noqa: F401  registers lib patches
from crosshair.libimpl.builtinslib import SymbolicBool, SymbolicInt
from crosshair.simplestructs import ShellMutableMap, SimpleDict
from crosshair.statespace import (
    CallAnalysis,
    RootNode,
    StateSpace,
    StateSpaceContext,
    VerificationStatus,
)
from crosshair.tracers import COMPOSITE_TRACER, NoTracing, ResumedTracing, is_tracing
from crosshair.util import IgnoreAttempt, NotDeterministic, UnexploredPath

from vf import shims
from vf.ctx import BaseCtx, HarnessError, Violation

# ---- solver accounting ----------------------------------------------------
SOLVER = {"queries": 0, "seconds": 0.0, "unknown": 0}
_orig_check = z3.Solver.check


def _timed_check(self, *a, **k):
    t = time.perf_counter()
    try:
        r = _orig_check(self, *a, **k)
    finally:
        SOLVER["seconds"] += time.perf_counter() - t
        SOLVER["queries"] += 1
    if r == z3.unknown:
        SOLVER["unknown"] += 1
    return r


z3.Solver.check = _timed_check


def z3_to_py(v):
    if z3.is_true(v):
        return True
    if z3.is_false(v):
        return False
    if z3.is_int_value(v):
        return v.as_long()
    if z3.is_rational_value(v):
        n, d = v.numerator_as_long(), v.denominator_as_long()
        return n if d == 1 else f"{n}/{d}"
    if z3.is_algebraic_value(v):
        return str(v.approx(20))
    return str(v)


def zvar(x):
    """z3 term of a python / symbolic int or bool (call under NoTracing)."""
    if isinstance(x, (SymbolicInt, SymbolicBool)):
        return x.var
    if isinstance(x, bool):
        return z3.BoolVal(x)
    if isinstance(x, int):
        return z3.IntVal(x)
    if isinstance(x, Fraction):
        return z3.ToReal(zvar(x.numerator)) / z3.ToReal(zvar(x.denominator))
    if hasattr(x, "var"):
        return x.var
    raise TypeError(f"zvar: {type(x)}")


class SymCtx(BaseCtx):
    mode = "sym"

    def __init__(self, space):
        self.space = space
        self.vars = {}  # name -> symbolic value (or concrete once realised)
        self.witnesses = Counter()
        self.notes = {}
        self.forall_count = 0
        self.forall_unknown = 0

    # -- variables
    def int(self, name, lo=None, hi=None):
        with NoTracing():
            v = SymbolicInt(name + self.space.uniq())
            if lo is not None:
                self.space.add(v.var >= lo)
            if hi is not None:
                self.space.add(v.var <= hi)
            self.vars[name] = v
        return v

    def bool(self, name):
        with NoTracing():
            v = SymbolicBool(name + self.space.uniq())
            self.vars[name] = v
        return v

    def choice(self, name, n):
        if n <= 1:
            self.vars[name] = 0
            return 0
        with NoTracing():
            v = SymbolicInt("ch_" + name + self.space.uniq())
            self.space.add(v.var >= 0)
            self.space.add(v.var < n)
            c = self.space.find_model_value(v.var)
            self.vars[name] = c
        return c

    def concrete(self, x):
        with NoTracing():
            if isinstance(x, SymbolicBool):
                return self.space.choose_possible(x.var)
            if isinstance(x, SymbolicInt):
                return self.space.find_model_value(x.var)
        return x

    def assume(self, cond):
        if not cond:
            raise IgnoreAttempt("assumption")

    def untraced(self):
        return NoTracing()

    def feature_set(self, name, free=None, absent=()):
        from vf import sfs

        sfs.install()
        with NoTracing():
            fr = None if free is None else set(free)
            if absent:
                fr = (set(sfs.UNIV) if fr is None else fr) - set(absent)
            s = sfs.SymFeatureSet.fresh(name, fr)
            self.vars[name] = sfs.SymFeatureSet(dict(s.bits))  # pristine copy: the real code mutates sets in place
        return s

    def witness(self, tag="w"):
        with NoTracing():
            self.witnesses[tag] += 1

    def note(self, key, value):
        with NoTracing():
            self.notes[key] = value

    def fresh_env(self, hashcons="exact"):
        from unified_planning.environment import Environment

        with NoTracing():
            env = Environment()
            if hashcons == "exact":
                shims.linear_tables(env)
            else:
                shims.syntactic_tables(env)
        return env

    # -- models
    def model_values(self, model=None):
        """Concrete values of all named variables (under NoTracing)."""
        out = {}
        for name, v in self.vars.items():
            if isinstance(v, (SymbolicInt, SymbolicBool)):
                if model is not None:
                    out[name] = z3_to_py(model.eval(v.var, model_completion=True))
                else:
                    out[name] = self.space.find_model_value(v.var)
            elif hasattr(v, "bits"):
                if model is None:
                    if self.space.solver.check() != z3.sat:
                        raise UnexploredPath("no model for feature set")
                    model = self.space.solver.model()
                    for t in [t for vv in self.vars.values() if hasattr(vv, "bits") for t in vv.bits.values()]:
                        self.space.solver.add(t == model.eval(t, model_completion=True))
                out[name] = sorted(f for f, t in v.bits.items() if z3.is_true(model.eval(t, model_completion=True)))
            else:
                out[name] = v
        return out

    def forall(self, build, concrete, sig, msg):
        with NoTracing():
            index = self.forall_count
            self.forall_count += 1
            viol, qvars = build()
            if isinstance(viol, bool):
                if not viol:
                    return
                viol = z3.BoolVal(True)
            solver = self.space.solver
            r = solver.check(viol)
            if r == z3.unsat:
                return
            if r == z3.unknown:
                self.forall_unknown += 1
                raise UnexploredPath("second-stage query unknown")
            model = solver.model()
            values = self.model_values(model)
            m = {k: z3_to_py(model.eval(t, model_completion=True)) for k, t in qvars.items()}
            raise Violation(sig, msg, {"_values": values, "_models": [{"index": index, "model": m}]})


def _classify_exception(exc, tb):
    """('repo'|'harness', location string) from the innermost frames."""
    frames = traceback.extract_tb(tb)
    loc = "?"
    where = "harness"
    for fr in reversed(frames):
        fn = fr.filename
        if "/crosshair/" in fn or "/z3/" in fn:
            continue
        repo = os.environ.get("VERIF_REPO", "/repo").rstrip("/")
        if fn.startswith(repo + "/"):
            where = "repo"
            loc = f"{os.path.relpath(fn, repo)}:{fr.name}"
        else:
            loc = f"{os.path.basename(fn)}:{fr.name}"
        break
    return where, loc


def explore(fn, kwargs=None, budget_s=120.0, per_path_s=30.0, max_violations=4, samples=3):
    kwargs = kwargs or {}
    root = RootNode()
    t0 = process_time()
    q0 = dict(SOLVER)
    res = dict(
        paths=0, ok=0, unknown=0, ignored=0, exhausted=False, violations=[], crashes=[],
        witnesses=Counter(), samples=[], forall_queries=0, error=None, decisions=0,
    )
    seen_sigs = set()
    for i in itertools.count(1):
        now = process_time()
        if now > t0 + budget_s:
            break
        space = StateSpace(execution_deadline=now + per_path_s, model_check_timeout=per_path_s / 2, search_root=root)
        with Patched(), COMPOSITE_TRACER, NoTracing(), StateSpaceContext(space):
            ctx = SymCtx(space)
            status = VerificationStatus.CONFIRMED
            try:
                try:
                    with ResumedTracing():
                        fn(ctx, **kwargs)
                    res["ok"] += 1
                except Violation as v:
                    extra = dict(v.extra)
                    values = extra.pop("_values", None)
                    models = extra.pop("_models", [])
                    if v.sig not in seen_sigs and len(res["violations"]) < max_violations:
                        if values is None:
                            values = ctx.model_values()
                        seen_sigs.add(v.sig)
                        res["violations"].append(dict(sig=v.sig, msg=str(v.msg), values=values, models=models,
                                                      extra={k: repr(x) for k, x in extra.items()}))
                except NotDeterministic:
                    raise
                except HarnessError:
                    raise
                except Exception as e:  # unexpected exception out of the harness
                    where, loc = _classify_exception(e, e.__traceback__)
                    sig = f"exc:{type(e).__name__}@{loc}"
                    tb = "".join(traceback.format_exception(type(e), e, e.__traceback__)[-8:])
                    try:
                        values = ctx.model_values()
                    except BaseException:
                        values = None
                    if sig not in seen_sigs and len(res["crashes"]) < max_violations:
                        seen_sigs.add(sig)
                        res["crashes"].append(dict(sig=sig, where=where, msg=f"{type(e).__name__}: {e}"[:500],
                                                   values=values, models=[], trace=tb[-3000:]))
            except IgnoreAttempt:
                status = None
                res["ignored"] += 1
            except UnexploredPath as e:
                status = VerificationStatus.UNKNOWN
                res["unknown"] += 1
                res.setdefault("unknown_reasons", Counter())[type(e).__name__] += 1
            except (NotDeterministic, HarnessError) as e:
                res["error"] = "".join(traceback.format_exception(type(e), e, e.__traceback__)[-8:])
                break
            res["paths"] += 1
            res["witnesses"].update(ctx.witnesses)
            res["forall_queries"] += ctx.forall_count
            res["decisions"] += len(space.choices_made)
            if len(res["samples"]) < samples and (ctx.witnesses or i <= samples):
                try:
                    vals = {k: (v if isinstance(v, (int, bool, str)) and not isinstance(v, (SymbolicInt, SymbolicBool))
                                else ("sym:" + str(v.var) if isinstance(v, (SymbolicInt, SymbolicBool))
                                      else "symbolic feature set (one solver Boolean per free feature)" if hasattr(v, "bits")
                                      else str(type(v).__name__)))
                            for k, v in ctx.vars.items()}
                    res["samples"].append(dict(path=i, status=str(status), vars=vals, notes=dict(ctx.notes),
                                               witnesses=dict(ctx.witnesses)))
                except BaseException:
                    pass
            _a, exhausted = space.bubble_status(CallAnalysis(status))
            if exhausted:
                res["exhausted"] = True
                break
    res["cpu_s"] = round(process_time() - t0, 3)
    res["solver_queries"] = SOLVER["queries"] - q0["queries"]
    res["solver_s"] = round(SOLVER["seconds"] - q0["seconds"], 3)
    res["solver_unknown"] = SOLVER["unknown"] - q0["unknown"]
    try:
        st = root.stats()
        res["realizations"] = {k: v for k, v in dict(st).items() if "realize" in str(k) and not str(k).startswith("realize_ch_")}
    except BaseException:
        res["realizations"] = {}
    res["witnesses"] = dict(res["witnesses"])
    if "unknown_reasons" in res:
        res["unknown_reasons"] = dict(res["unknown_reasons"])
    return res
