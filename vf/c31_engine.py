"""The declared assumption of C31: an underlying planner that returns only valid plans and is complete on finite problems.

ExactBfsPlanner explores the reachable state space of the given (finite) problem breadth first; successor and
applicability of every ground action are computed by the reference semantics R (vf/refsem.py) on constant states and
evaluated to constants by z3 (an interpreted function still present in the problem is evaluated by calling its Python code).  It returns a shortest plan with SOLVED_SATISFICING, or UNSOLVABLE_PROVEN when the
closed reachable set contains no goal state.  Registered through the real Factory.add_engine, so that the real
meta-engines InterpretedFunctionsPlanner[...] and OversubscriptionPlanner[...] are built over it.
"""
import z3

from unified_planning.engines.engine import Engine
from unified_planning.engines.mixins.oneshot_planner import OneshotPlannerMixin, OptimalityGuarantee
from unified_planning.engines.results import PlanGenerationResult, PlanGenerationResultStatus
from unified_planning.model.problem_kind import ProblemKind, all_features
from unified_planning.model.problem_kind_versioning import LATEST_PROBLEM_KIND_VERSION
from unified_planning.plans import ActionInstance, SequentialPlan

CALLS = []  # (problem name, status, plan length) of every call: evidence / debugging only
MAX_STATES = 5000


def _const(t):
    t = z3.simplify(t)
    if z3.is_true(t):
        return True
    if z3.is_false(t):
        return False
    if z3.is_int_value(t):
        return t.as_long()
    if z3.is_rational_value(t):
        return t.as_fraction()
    s = z3.Solver()
    assert s.check() == z3.sat
    v = s.model().eval(t, model_completion=True)
    if z3.is_true(v) or z3.is_false(v):
        return z3.is_true(v)
    return v.as_long() if z3.is_int_value(v) else v.as_fraction()


def bfs(problem, if_tables=None, max_states=MAX_STATES):
    """-> (plan as list of (action, objects) | None, number of states, closed?)"""
    from vf.refsem import FALSE, TRUE, Ref, RState, V

    class ConcreteRef(Ref):
        """interpreted functions that are still in the problem are evaluated by calling their Python code on the (constant)
        arguments, as the library's own state evaluator does"""

        def _apply_if(self, fn, arg_terms):
            if fn.name in self.if_tables:
                return self.if_tables[fn.name](arg_terms)
            v = fn.function(*[_const(a) for a in arg_terms])
            if fn.return_type.is_bool_type():
                return z3.BoolVal(bool(v))
            if fn.return_type.is_int_type():
                return z3.IntVal(int(v))
            return z3.RealVal(v)

    R = ConcreteRef(problem, if_tables=if_tables)
    gas = R.ground_actions()
    sorts = {k: f.type for k, f, _a in R.ground}

    def to_rstate(tup):
        vals = {}
        for k, v in zip(R.gkeys, tup):
            ty = sorts[k]
            if v is None:
                vals[k] = V(z3.Const(f"undef.{k}", R.sort_of(ty)), FALSE)
            elif ty.is_bool_type():
                vals[k] = V(z3.BoolVal(v), TRUE)
            elif ty.is_real_type():
                vals[k] = V(z3.RealVal(v), TRUE)
            else:
                vals[k] = V(z3.IntVal(v), TRUE)
        return RState(vals)

    def from_rstate(s):
        return tuple((_const(s.vals[k].t) if _const(s.vals[k].d) else None) for k in R.gkeys)

    init = R.init_state()
    if not _const(R.initial_ok()):
        return None, 0, True
    s0 = from_rstate(init)
    parent = {s0: None}
    frontier = [s0]
    if _const(R.goal(to_rstate(s0))):
        return [], 1, True
    while frontier:
        nxt = []
        for st in frontier:
            rs = to_rstate(st)
            for a, objs in gas:
                ok, s2 = R.step(rs, a, R.bind(a, objs))
                if not _const(ok):
                    continue
                t2 = from_rstate(s2)
                if t2 in parent:
                    continue
                parent[t2] = (st, a, objs)
                if _const(R.goal(to_rstate(t2))):
                    plan = []
                    cur = t2
                    while parent[cur] is not None:
                        p, pa, po = parent[cur]
                        plan.append((pa, po))
                        cur = p
                    return list(reversed(plan)), len(parent), False
                nxt.append(t2)
                if len(parent) > max_states:
                    raise RuntimeError("ExactBfsPlanner: state space larger than the stated bound")
        frontier = nxt
    return None, len(parent), True


class ExactBfsPlanner(Engine, OneshotPlannerMixin):
    def __init__(self, **kwargs):
        Engine.__init__(self)
        OneshotPlannerMixin.__init__(self)

    @property
    def name(self):
        return "exact-bfs"

    @staticmethod
    def supported_kind():
        return ProblemKind(all_features, version=LATEST_PROBLEM_KIND_VERSION)

    @staticmethod
    def supports(problem_kind):
        return True

    @staticmethod
    def satisfies(optimality_guarantee):
        return optimality_guarantee == OptimalityGuarantee.SATISFICING

    def _solve(self, problem, heuristic=None, timeout=None, output_stream=None):
        plan, n, closed = bfs(problem)
        if plan is None:
            CALLS.append((problem.name, "UNSOLVABLE_PROVEN", None, n))
            return PlanGenerationResult(PlanGenerationResultStatus.UNSOLVABLE_PROVEN, None, self.name)
        em = problem.environment.expression_manager
        sp = SequentialPlan([ActionInstance(a, tuple(em.ObjectExp(o) for o in objs)) for a, objs in plan], problem.environment)
        CALLS.append((problem.name, "SOLVED_SATISFICING", len(plan), n))
        return PlanGenerationResult(PlanGenerationResultStatus.SOLVED_SATISFICING, sp, self.name)
