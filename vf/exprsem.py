"""Expression-level reference semantics: FNode -> z3 term under an interpretation.

interp = ExprSem(objects=[Object...])   # objects give the domains of user types / quantifiers
t = interp.term(e)                      # z3 term; leaves (ground fluent expressions, parameters, free variables)
                                        # become fresh z3 constants, created on demand and shared by name
interp.domain()                         # z3 constraint: every leaf lies in its declared type (bounds, object domains)
Division: t/0 is unconstrained in z3; interp.defined() collects the side conditions (divisors != 0).
Numeric constants may carry CrossHair symbolic payloads (their .var is spliced in).
Fluent expressions whose arguments are not ground (contain variables/parameters/fluents) are read through an
uninterpreted z3 function per fluent, so f(x) and f(o1) are related correctly when x = o1.
"""
import itertools

import z3

from vf.refsem import _arith, _real, znum


class ExprSem:
    def __init__(self, objects=(), tag="", static_values=None):
        self.objects = list(objects)
        self.oidx = {o.name: i for i, o in enumerate(self.objects)}
        self.tag = tag
        self.leaves = {}   # name -> (term, type)
        self.funcs = {}    # fluent name -> z3 Function
        self.side = []     # definedness side conditions
        self.fluent_apps = []  # (fluent, [arg terms], result term)
        self.static_values = static_values or {}

    # sorts / domains
    def sort_of(self, typ):
        if typ.is_bool_type():
            return z3.BoolSort()
        if typ.is_int_type():
            return z3.IntSort()
        if typ.is_real_type():
            return z3.RealSort()
        if typ.is_user_type():
            return z3.IntSort()
        raise NotImplementedError(str(typ))

    def dom(self, typ):
        return [self.oidx[o.name] for o in self.objects if o.type.is_subtype(typ)]

    def in_type(self, t, typ):
        if typ.is_user_type():
            d = self.dom(typ)
            return z3.Or([t == i for i in d]) if d else z3.BoolVal(False)
        cs = []
        if typ.is_int_type() or typ.is_real_type():
            if typ.lower_bound is not None:
                a, b = _arith(t, znum(typ.lower_bound))
                cs.append(a >= b)
            if typ.upper_bound is not None:
                a, b = _arith(t, znum(typ.upper_bound))
                cs.append(a <= b)
        return z3.And(cs) if cs else z3.BoolVal(True)

    def leaf(self, name, typ):
        if name not in self.leaves:
            self.leaves[name] = (z3.Const(f"{self.tag}{name}", self.sort_of(typ)), typ)
        return self.leaves[name][0]

    def domain(self):
        cs = [self.in_type(t, typ) for t, typ in self.leaves.values()]
        for fl, args, res in self.fluent_apps:
            cs.append(self.in_type(res, fl.type))
        return z3.And(cs) if cs else z3.BoolVal(True)

    def defined(self):
        return z3.And(self.side) if self.side else z3.BoolVal(True)

    def term(self, e, b=None):
        b = b or {}
        if e.is_bool_constant():
            return z3.BoolVal(bool(e.constant_value()))
        if e.is_int_constant() or e.is_real_constant():
            return znum(e._content.payload)
        if e.is_object_exp():
            return z3.IntVal(self.oidx[e.object().name])
        if e.is_parameter_exp():
            p = e.parameter()
            return b[p.name] if p.name in b else self.leaf("param." + p.name, p.type)
        if e.is_variable_exp():
            v = e.variable()
            return b[v.name] if v.name in b else self.leaf("var." + v.name, v.type)
        if e.is_fluent_exp():
            fl = e.fluent()
            args = [self.term(a, b) for a in e.args]
            if not args:
                return self.leaf("fluent." + fl.name, fl.type)
            f = self.funcs.get(fl.name)
            if f is None:
                f = z3.Function(f"{self.tag}fluent.{fl.name}", *[self.sort_of(p.type) for p in fl.signature], self.sort_of(fl.type))
                self.funcs[fl.name] = f
            r = f(*args)
            self.fluent_apps.append((fl, args, r))
            return r
        if e.is_interpreted_function_exp():
            fn = e.interpreted_function()
            args = [self.term(a, b) for a in e.args]
            f = self.funcs.get("IF." + fn.name)
            if f is None:
                f = z3.Function(f"{self.tag}IF.{fn.name}", *[self.sort_of(p.type) for p in fn.signature], self.sort_of(fn.return_type))
                self.funcs["IF." + fn.name] = f
            return f(*args)
        if e.is_exists() or e.is_forall():
            vs = e.variables()
            doms = [self.dom(v.type) for v in vs]
            bodies = []
            for combo in itertools.product(*doms):
                b2 = dict(b)
                for v, i in zip(vs, combo):
                    b2[v.name] = z3.IntVal(i)
                bodies.append(self.term(e.arg(0), b2))
            if e.is_exists():
                return z3.Or(bodies) if bodies else z3.BoolVal(False)
            return z3.And(bodies) if bodies else z3.BoolVal(True)
        ts = [self.term(a, b) for a in e.args]
        if e.is_and():
            return z3.And(ts) if ts else z3.BoolVal(True)
        if e.is_or():
            return z3.Or(ts) if ts else z3.BoolVal(False)
        if e.is_not():
            return z3.Not(ts[0])
        if e.is_implies():
            return z3.Implies(ts[0], ts[1])
        if e.is_iff():
            return ts[0] == ts[1]
        if e.is_equals():
            x, y = _arith(ts[0], ts[1]) if ts[0].sort() != ts[1].sort() else (ts[0], ts[1])
            return x == y
        if e.is_le():
            x, y = _arith(ts[0], ts[1])
            return x <= y
        if e.is_lt():
            x, y = _arith(ts[0], ts[1])
            return x < y
        if e.is_plus():
            if any(t.sort() == z3.RealSort() for t in ts):
                ts = [_real(t) for t in ts]
            return z3.Sum(ts)
        if e.is_minus():
            x, y = _arith(ts[0], ts[1])
            return x - y
        if e.is_times():
            if any(t.sort() == z3.RealSort() for t in ts):
                ts = [_real(t) for t in ts]
            r = ts[0]
            for t in ts[1:]:
                r = r * t
            return r
        if e.is_div():
            self.side.append(_real(ts[1]) != 0)
            return _real(ts[0]) / _real(ts[1])
        raise NotImplementedError(f"ExprSem.term: {e.node_type}")


def equivalent_query(e1, e2, objects=(), extra=None):
    """-> (violation term, vars): exists an interpretation within the declared types (divisors non-zero) where e1 != e2."""
    I = ExprSem(objects)
    t1, t2 = I.term(e1), I.term(e2)
    if t1.sort() != t2.sort():
        t1, t2 = _real(t1), _real(t2)
    v = z3.And(I.domain(), I.defined(), t1 != t2)
    if extra is not None:
        v = z3.And(v, extra(I))
    return v, {n: t for n, (t, _typ) in I.leaves.items()}
